/-
  Props/C14Recover2.lean — property C14, "… after it parsing carries on from the same position with
  the next line", document level, SECOND part: closes two of the three gaps listed under "NOT
  proved" in Props/C14Recover.lean.

  ## (A) `C14_unexpected_line_skipped_exact` — the look-ahead condition computed from the run

  Same setting and same conclusion as `C14_unexpected_line_skipped` (collecting mode; `src` has the
  lines `pre ++ post`, `src'` the lines `pre ++ u :: post`; every test of the state `s` in which `u`
  is read says a plain "no"; the run on `src'` stays within the error cap).  The textual hypothesis
  `Spec.barrierBefore pre` ("the line before `u` is no blank / comment / tag line") is replaced by
  the look-ahead condition `Recover2.NoPeek` on the run on `src'`:

      for every line `l = pre[i]` whose trimmed text starts with `@` (`Spec.tagStart`) and behind
      which `pre` holds no barrier line (`(pre.drop (i+1)).any barrierLine = false`):
      the state in which the run on `src'` reads `l` (`Spec.runAfter … src' i`) has no guarded
      test (`Spec.hasGuard T s = false`).

  Why this says "no look-ahead started on a line `≤ k` peeks at line `k + 1`": a look-ahead is
  started only by a guarded test; guarded tests are `TagLine` tests (`C14_fact_guards_on_tags`);
  `match_TagLine` says "no" to a line that does not start with `@` (`Recover2.tag_head`); and a
  look-ahead steps over skip kinds only, so it stops at a barrier line at the latest
  (`Recover.barrier_not_skip`).  `Spec.noPeekAtB` is the Boolean form, `Spec.unexpectedLineOk2B` the
  Boolean of all hypotheses, `C14_unexpected_line_check2` the theorem that it implies the conclusion
  (`C14_unexpected_line_text2`: the text form),
  and `C14_check_subsumed` : `unexpectedLineOkB → unexpectedLineOk2B` (the new theorem covers
  everything the old one does).  New documents covered (examples below): an unexpected line behind
  blank / comment lines after a step; behind a tag line that is read in a state without guarded
  tests (the tags before `Feature:`), with or without blank / comment lines between.

  How exact is it?  The condition is exact up to three corner cases in which it says "may peek"
  although the run does not (none of them makes the theorem unsound; they are documents the theorem
  does not cover):
    * the `@` line is a tag WITH WHITESPACE (`match_TagLine` raises instead of matching, so the guard
      is not evaluated), either as the starting line or as one of the lines stepped over;
    * the state has a guarded test that is not reached because an earlier unguarded test takes the
      line (does not happen in the generated table as far as we know; not proved);
    * the look-ahead stops early at a line matched by an expected (title) kind — but such a line is a
      barrier line anyway, so this is no loss.
  The formulation suggested in the header of C14Recover.lean, `Spec.isTag T s = false`, is NOT what
  is proved here: it is incomparable (it excludes `@t` / `nonsense` / `Feature:` — state 2 is a tag
  state although no look-ahead is pending — which `noPeekAtB` accepts; it would presumably accept a raising
  tag line in the middle of the skipped lines).  Its proof needs two single-run lemmas (a guarded
  branch always ends in a tag state; tag states persist over skippable lines) that are not done.

  ## (B) `C14_unexpected_line_stop` — stop-at-first-error mode

  If the stop-mode run on `src'` reaches line `k + 1` without having raised anything
  (`Spec.runAfter … true … src' k = some (s, cr)`) and every test of `s` says a plain "no" to that
  line, the outcome is `.rejected [skippedError T s k u] false`: the run ends AT `u` with exactly
  that error (a bare `ParserException`, not a composite), whatever follows.  NO look-ahead condition
  is needed (the statement is about one run, not about two texts); nothing is handed to the
  builder, the matcher state and the id counter are those before the line.

  ## NOT proved

  (C) the form without the cap hypothesis: "if the new error makes the list exceed the cap, the run on
  `src'` aborts with the composite of the first `errorCap + 1` errors of
  `insertErr k j e (errors of src)`".  The simulation's third alternative (`PostU`: the second run
  aborted above the cap) would have to carry the exact list, which needs a single-run lemma "the
  error list of the first run only grows by appending" threaded through all three phases.
-/
import GherkinVerif.Props.C14Recover
import GherkinVerif.Lemmas.Recover2Doc
namespace GV
open Lemmas Spec Recover Recover2

/-! ### (A) the look-ahead condition computed from the run -/

/-- Generic form, for every dialect table and transition table passing the Boolean checks. -/
theorem C14_unexpected_line_skipped_exact_generic (D : List Dialect) (T : Table)
    (hQD : Spec.queueDialectFacts D = true) (hQT : Spec.queueFacts T = true)
    (hCB : Spec.commentBlankTested T = true)
    (hG : (T.rows.all fun r => r.branches.all fun b => b.guard.isNone || b.kind == .TagLine) = true)
    (μ : MState) (ids : Nat) (src src' : Str) (pre post : List Str) (u : Str)
    (h1 : splitLines src = pre ++ post) (h2 : splitLines src' = pre ++ u :: post)
    (hμ : (μ.reset D).dialect ∈ D)
    (hpk : ∀ i l, pre[i]? = some l → (pre.drop (i + 1)).any Spec.barrierLine = false → Spec.tagStart l = true →
      ∀ s c, Spec.runAfter D T false μ ids src' i = some (s, c) → Spec.hasGuard T s = false)
    (s : Nat) (cr : Ctx)
    (hrun : Spec.runAfter D T false μ ids src' pre.length = some (s, cr))
    (hun : Spec.lineUnexpectedAt D T s cr.μ u = true)
    (hcap : (parseWith D T false μ ids src').2.errors.length ≤ T.errorCap) :
    CtxObsU pre.length cr.errors.length cr.unexpected.length (Spec.skippedError T s pre.length u)
      (parseWith D T false μ ids src).2 (parseWith D T false μ ids src').2 ∧
    (∀ d, (parseWith D T false μ ids src).1 = .ok d →
      (parseWith D T false μ ids src').1 = .rejected [Spec.skippedError T s pre.length u] true) ∧
    (∀ es, (parseWith D T false μ ids src).1 = .rejected es true →
      (parseWith D T false μ ids src').1 =
        .rejected (Spec.insertErr pre.length cr.errors.length (Spec.skippedError T s pre.length u) es) true) :=
  unexpected_line_parseWith2 hQD hQT hCB hG μ ids pre post h1 h2 hμ hpk hrun hun hcap

/-- **An unexpected line is skipped: it records one error and nothing else** — under the look-ahead
    condition read off the run: every `@` line of `pre` with no barrier line behind it is read in a
    state without guarded tests. -/
theorem C14_unexpected_line_skipped_exact (μ : MState) (ids : Nat) (src src' : Str) (pre post : List Str) (u : Str)
    (h1 : splitLines src = pre ++ post) (h2 : splitLines src' = pre ++ u :: post)
    (hμ : (μ.reset Gen.dialects).dialect ∈ Gen.dialects)
    (hpk : ∀ i l, pre[i]? = some l → (pre.drop (i + 1)).any Spec.barrierLine = false → Spec.tagStart l = true →
      ∀ s c, Spec.runAfter Gen.dialects Gen.parserTable false μ ids src' i = some (s, c) →
        Spec.hasGuard Gen.parserTable s = false)
    (s : Nat) (cr : Ctx)
    (hrun : Spec.runAfter Gen.dialects Gen.parserTable false μ ids src' pre.length = some (s, cr))
    (hun : Spec.lineUnexpectedAt Gen.dialects Gen.parserTable s cr.μ u = true)
    (hcap : (parseWith Gen.dialects Gen.parserTable false μ ids src').2.errors.length ≤ Gen.parserTable.errorCap) :
    CtxObsU pre.length cr.errors.length cr.unexpected.length (Spec.skippedError Gen.parserTable s pre.length u)
      (parseWith Gen.dialects Gen.parserTable false μ ids src).2
      (parseWith Gen.dialects Gen.parserTable false μ ids src').2 ∧
    (∀ d, (parseWith Gen.dialects Gen.parserTable false μ ids src).1 = .ok d →
      (parseWith Gen.dialects Gen.parserTable false μ ids src').1 =
        .rejected [Spec.skippedError Gen.parserTable s pre.length u] true) ∧
    (∀ es, (parseWith Gen.dialects Gen.parserTable false μ ids src).1 = .rejected es true →
      (parseWith Gen.dialects Gen.parserTable false μ ids src').1 =
        .rejected (Spec.insertErr pre.length cr.errors.length
          (Spec.skippedError Gen.parserTable s pre.length u) es) true) :=
  C14_unexpected_line_skipped_exact_generic _ _ C18_fact_keywords C18_fact_queue C18_fact_comment_blank
    C14_fact_guards_on_tags μ ids src src' pre post u h1 h2 hμ hpk s cr hrun hun hcap

/-- the Boolean `noPeekAtB` implies the look-ahead condition -/
theorem C14_noPeek_of_bool (D : List Dialect) (T : Table) (stop : Bool) (μ : MState) (ids : Nat) (src' : Str) (k : Nat)
    (h : Spec.noPeekAtB D T stop μ ids src' k = true) :
    NoPeek D T stop μ ids src' ((splitLines src').take k) := by
  intro i l hi hb ht s c hr
  unfold Spec.noPeekAtB at h
  rw [List.all_eq_true] at h
  have hik : i < k := by
    obtain ⟨hlt, -⟩ := List.getElem?_eq_some_iff.1 hi
    simp only [List.length_take] at hlt
    omega
  have := h i (List.mem_range.2 hik)
  unfold Spec.noPeekFrom at this
  simp only [hi, hb, ht, hr] at this
  simpa using this

/-- `Spec.unexpectedLineOk2B` on `src'` and `k` implies the conclusion for every text `src` that is
    `src'` without its line `k + 1`. -/
theorem C14_unexpected_line_check2 (μ : MState) (ids : Nat) (src src' : Str) (k : Nat) (u : Str)
    (hu : (splitLines src')[k]? = some u)
    (hsrc : splitLines src = (splitLines src').take k ++ (splitLines src').drop (k + 1))
    (hμ : (μ.reset Gen.dialects).dialect ∈ Gen.dialects)
    (hB : Spec.unexpectedLineOk2B Gen.dialects Gen.parserTable μ ids src' k = true) :
    let e := Spec.skippedError Gen.parserTable (C14_skipInfo μ ids src' k).1 k u
    CtxObsU k (C14_skipInfo μ ids src' k).2.1 (C14_skipInfo μ ids src' k).2.2 e
      (parseWith Gen.dialects Gen.parserTable false μ ids src).2
      (parseWith Gen.dialects Gen.parserTable false μ ids src').2 ∧
    (∀ d, (parseWith Gen.dialects Gen.parserTable false μ ids src).1 = .ok d →
      (parseWith Gen.dialects Gen.parserTable false μ ids src').1 = .rejected [e] true) ∧
    (∀ es, (parseWith Gen.dialects Gen.parserTable false μ ids src).1 = .rejected es true →
      (parseWith Gen.dialects Gen.parserTable false μ ids src').1 =
        .rejected (Spec.insertErr k (C14_skipInfo μ ids src' k).2.1 e es) true) := by
  unfold Spec.unexpectedLineOk2B at hB
  rw [hu] at hB
  simp only [Bool.and_eq_true, decide_eq_true_eq] at hB
  obtain ⟨⟨hpkB, hrunB⟩, hcapP⟩ := hB
  obtain ⟨hsplit, hlen⟩ := split_at_index _ k u hu
  unfold C14_skipInfo
  cases hrun : Spec.runAfter Gen.dialects Gen.parserTable false μ ids src' k with
  | none => rw [hrun] at hrunB; cases hrunB
  | some sc =>
    obtain ⟨s, cr⟩ := sc
    rw [hrun] at hrunB
    simp only at hrunB ⊢
    have hcap : (parseWith Gen.dialects Gen.parserTable false μ ids src').2.errors.length ≤
        Gen.parserTable.errorCap := by
      have := congrArg Spec.Observed.errors (C18_queue_refines_peek false μ ids src' hμ)
      simp only [Spec.observe] at this
      rw [this]; exact hcapP
    have := C14_unexpected_line_skipped_exact μ ids src src' ((splitLines src').take k) ((splitLines src').drop (k + 1)) u
      hsrc hsplit hμ (C14_noPeek_of_bool _ _ false μ ids src' k hpkB) s cr (by rw [hlen]; exact hrun) hrunB hcap
    rw [hlen] at this
    exact this

/-- **The text form**: the line `v ++ "\n"` (`v` without a line feed) inserted at the start of a line,
    i.e. after a prefix `s1` of the text that is empty or ends in a line feed. -/
theorem C14_unexpected_line_text2 (μ : MState) (ids : Nat) (s1 s2 v : Str)
    (hs1 : s1 = [] ∨ s1.getLast? = some 10) (hlf : 10 ∉ v)
    (hμ : (μ.reset Gen.dialects).dialect ∈ Gen.dialects)
    (hB : Spec.unexpectedLineOk2B Gen.dialects Gen.parserTable μ ids (s1 ++ (v ++ [10]) ++ s2) (splitLines s1).length = true) :
    let k := (splitLines s1).length
    let src' := s1 ++ (v ++ [10]) ++ s2
    let e := Spec.skippedError Gen.parserTable (C14_skipInfo μ ids src' k).1 k (v ++ [10])
    CtxObsU k (C14_skipInfo μ ids src' k).2.1 (C14_skipInfo μ ids src' k).2.2 e
      (parseWith Gen.dialects Gen.parserTable false μ ids (s1 ++ s2)).2
      (parseWith Gen.dialects Gen.parserTable false μ ids src').2 ∧
    (∀ d, (parseWith Gen.dialects Gen.parserTable false μ ids (s1 ++ s2)).1 = .ok d →
      (parseWith Gen.dialects Gen.parserTable false μ ids src').1 = .rejected [e] true) ∧
    (∀ es, (parseWith Gen.dialects Gen.parserTable false μ ids (s1 ++ s2)).1 = .rejected es true →
      (parseWith Gen.dialects Gen.parserTable false μ ids src').1 =
        .rejected (Spec.insertErr k (C14_skipInfo μ ids src' k).2.1 e es) true) := by
  have hsp' : splitLines (s1 ++ (v ++ [10]) ++ s2) = splitLines s1 ++ (v ++ [10]) :: splitLines s2 := by
    rw [List.append_assoc, splitLines_append_of_lf s1 _ hs1,
      splitLines_append_of_lf (v ++ [10]) s2 (.inr (by simp)), splitLines_one_line v hlf]
    rfl
  have hu : (splitLines (s1 ++ (v ++ [10]) ++ s2))[(splitLines s1).length]? = some (v ++ [10]) := by
    rw [hsp']; simp
  refine C14_unexpected_line_check2 μ ids (s1 ++ s2) (s1 ++ (v ++ [10]) ++ s2) (splitLines s1).length (v ++ [10])
    hu ?_ hμ hB
  rw [splitLines_append_of_lf s1 s2 hs1, hsp']
  simp

/-- a barrier line does not start with `@` -/
theorem C14_barrier_not_tagStart (l : Str) (h : Spec.barrierLine l = true) : Spec.tagStart l = false := by
  unfold Spec.barrierLine at h
  unfold Spec.tagStart
  cases ht : trimmed l with
  | nil => rfl
  | cons c r =>
    rw [ht] at h
    simp only [Bool.and_eq_true, bne_iff_ne, ne_eq] at h
    simp only [beq_eq_false_iff_ne, ne_eq]
    exact h.2

/-- the textual condition of the first theorem implies the look-ahead condition of the second -/
theorem C14_barrier_noPeek (D : List Dialect) (T : Table) (stop : Bool) (μ : MState) (ids : Nat) (src' : Str) (k : Nat)
    (h : Spec.barrierBefore ((splitLines src').take k) = true) :
    Spec.noPeekAtB D T stop μ ids src' k = true := by
  unfold Spec.noPeekAtB
  rw [List.all_eq_true]
  intro i _
  unfold Spec.noPeekFrom
  generalize (splitLines src').take k = pre at h ⊢
  cases hi : pre[i]? with
  | none => rfl
  | some l =>
    simp only [Bool.or_eq_true, Bool.not_eq_true']
    unfold Spec.barrierBefore at h
    cases hlast : pre.getLast? with
    | none =>
      rw [List.getLast?_eq_none_iff] at hlast
      subst hlast
      cases hi
    | some a =>
      rw [hlast] at h
      simp only at h
      obtain ⟨ys, rfl⟩ := List.getLast?_eq_some_iff.1 hlast
      obtain ⟨hlt, hget⟩ := List.getElem?_eq_some_iff.1 hi
      simp only [List.length_append, List.length_cons, List.length_nil] at hlt
      by_cases hy : i < ys.length
      · left; left
        rw [List.drop_append_of_le_length (by omega), List.any_append]
        simp [h]
      · left; right
        have hi' : i = ys.length := by omega
        subst hi'
        simp only [List.getElem_append_right (Nat.le_refl _), Nat.sub_self, List.getElem_cons_zero] at hget
        subst hget
        exact C14_barrier_not_tagStart _ h

/-- **The new check subsumes the old one.** -/
theorem C14_check_subsumed (D : List Dialect) (T : Table) (μ : MState) (ids : Nat) (src' : Str) (k : Nat)
    (h : Spec.unexpectedLineOkB D T μ ids src' k = true) : Spec.unexpectedLineOk2B D T μ ids src' k = true := by
  unfold Spec.unexpectedLineOkB at h
  unfold Spec.unexpectedLineOk2B
  cases hu : (splitLines src')[k]? with
  | none => rw [hu] at h; cases h
  | some u =>
    rw [hu] at h
    simp only [Bool.and_eq_true] at h ⊢
    exact ⟨⟨C14_barrier_noPeek D T false μ ids src' k h.1.1, h.1.2⟩, h.2⟩

/-! ### (B) stop-at-first-error mode -/

/-- Generic form. -/
theorem C14_unexpected_line_stop_generic (D : List Dialect) (T : Table)
    (hQD : Spec.queueDialectFacts D = true) (hQT : Spec.queueFacts T = true)
    (hCB : Spec.commentBlankTested T = true)
    (μ : MState) (ids : Nat) (src' : Str) (pre post : List Str) (u : Str)
    (h2 : splitLines src' = pre ++ u :: post) (hμ : (μ.reset D).dialect ∈ D) (s : Nat) (cr : Ctx)
    (hrun : Spec.runAfter D T true μ ids src' pre.length = some (s, cr))
    (hun : Spec.lineUnexpectedAt D T s cr.μ u = true) :
    (parseWith D T true μ ids src').1 = .rejected [Spec.skippedError T s pre.length u] false ∧
    (parseWith D T true μ ids src').2.errors = cr.errors ∧
    (parseWith D T true μ ids src').2.unexpected = cr.unexpected ++ [pre.length + 1] ∧
    (parseWith D T true μ ids src').2.builds = cr.builds ∧
    (parseWith D T true μ ids src').2.μ = cr.μ ∧
    (parseWith D T true μ ids src').2.ids = cr.ids :=
  unexpected_line_parseWith_stop hQD hQT hCB μ ids pre post h2 hμ hrun hun

/-- **Stop mode: the run ends at the unexpected line, with exactly its error.**  The stop-mode run on
    `src'` (lines `pre ++ u :: post`) has consumed `pre` without raising and stands in state `s`; every
    test of `s` says a plain "no" to `u`.  Then the outcome is the single unexpected-token error for
    `u` — whatever `post` is; `u` is reported unexpected, nothing is built from it, the matcher state
    and the id counter are those before the line. -/
theorem C14_unexpected_line_stop (μ : MState) (ids : Nat) (src' : Str) (pre post : List Str) (u : Str)
    (h2 : splitLines src' = pre ++ u :: post)
    (hμ : (μ.reset Gen.dialects).dialect ∈ Gen.dialects) (s : Nat) (cr : Ctx)
    (hrun : Spec.runAfter Gen.dialects Gen.parserTable true μ ids src' pre.length = some (s, cr))
    (hun : Spec.lineUnexpectedAt Gen.dialects Gen.parserTable s cr.μ u = true) :
    (parseWith Gen.dialects Gen.parserTable true μ ids src').1 =
      .rejected [Spec.skippedError Gen.parserTable s pre.length u] false ∧
    (parseWith Gen.dialects Gen.parserTable true μ ids src').2.errors = cr.errors ∧
    (parseWith Gen.dialects Gen.parserTable true μ ids src').2.unexpected = cr.unexpected ++ [pre.length + 1] ∧
    (parseWith Gen.dialects Gen.parserTable true μ ids src').2.builds = cr.builds ∧
    (parseWith Gen.dialects Gen.parserTable true μ ids src').2.μ = cr.μ ∧
    (parseWith Gen.dialects Gen.parserTable true μ ids src').2.ids = cr.ids :=
  C14_unexpected_line_stop_generic _ _ C18_fact_keywords C18_fact_queue C18_fact_comment_blank
    μ ids src' pre post u h2 hμ s cr hrun hun

/-- the state in which the stop-mode run reads line `k + 1` -/
def C14_stopState (μ : MState) (ids : Nat) (src' : Str) (k : Nat) : Nat :=
  match Spec.runAfter Gen.dialects Gen.parserTable true μ ids src' k with
  | some (s, _) => s
  | none => 0

/-- Boolean form: `Spec.unexpectedLineStopB` on `src'` and `k` implies that stop mode rejects `src'`
    with exactly the unexpected-token error for line `k + 1`. -/
theorem C14_unexpected_line_stop_check (μ : MState) (ids : Nat) (src' : Str) (k : Nat) (u : Str)
    (hu : (splitLines src')[k]? = some u)
    (hμ : (μ.reset Gen.dialects).dialect ∈ Gen.dialects)
    (hB : Spec.unexpectedLineStopB Gen.dialects Gen.parserTable μ ids src' k = true) :
    (parseWith Gen.dialects Gen.parserTable true μ ids src').1 =
      .rejected [Spec.skippedError Gen.parserTable (C14_stopState μ ids src' k) k u] false := by
  unfold Spec.unexpectedLineStopB at hB
  rw [hu] at hB
  obtain ⟨hsplit, hlen⟩ := split_at_index _ k u hu
  unfold C14_stopState
  cases hrun : Spec.runAfter Gen.dialects Gen.parserTable true μ ids src' k with
  | none => rw [hrun] at hB; cases hB
  | some sc =>
    obtain ⟨s, cr⟩ := sc
    rw [hrun] at hB
    simp only at hB ⊢
    have := (C14_unexpected_line_stop μ ids src' ((splitLines src').take k) ((splitLines src').drop (k + 1)) u
      hsplit hμ s cr (by rw [hlen]; exact hrun) hB).1
    rw [hlen] at this
    exact this

/-! ### non-vacuity, coverage and the counterexample -/

/-- COVERED BY THE NEW THEOREM ONLY: `Feature: g` behind a comment line inside a scenario.  The old
    check fails (the line before is a comment line), the new one holds (no `@` line before); the
    text without line 5 is accepted, the text with it is rejected with exactly one error, at (5, 1),
    read in state 12 (after a step); stop mode raises the same error. -/
example : (MState.init Gen.dialects (lit "en")).map (fun μ =>
      let a := lit "Feature: f\nScenario: s\n  Given x\n# c\n  When y\n"
      let a' := lit "Feature: f\nScenario: s\n  Given x\n# c\nFeature: g\n  When y\n"
      (Spec.unexpectedLineOkB Gen.dialects Gen.parserTable μ 0 a' 4,
       Spec.unexpectedLineOk2B Gen.dialects Gen.parserTable μ 0 a' 4,
       C14_isOk (parseWith Gen.dialects Gen.parserTable false μ 0 a).1,
       C14_locs (parseWith Gen.dialects Gen.parserTable false μ 0 a').1)) =
    some (false, true, true, [⟨5, some 1⟩]) := by kdecide
example : (MState.init Gen.dialects (lit "en")).map (fun μ =>
      let a' := lit "Feature: f\nScenario: s\n  Given x\n# c\nFeature: g\n  When y\n"
      (C14_skipInfo μ 0 a' 4,
       Spec.unexpectedLineStopB Gen.dialects Gen.parserTable μ 0 a' 4,
       C14_locs (parseWith Gen.dialects Gen.parserTable true μ 0 a').1)) =
    some ((12, 0, 0), true, [⟨5, some 1⟩]) := by kdecide

/-- the same behind a run of blank and comment lines -/
example : (MState.init Gen.dialects (lit "en")).map (fun μ =>
      let a' := lit "Feature: f\nScenario: s\n  Given x\n\n  # c\n\nFeature: g\n  When y\n"
      (Spec.unexpectedLineOkB Gen.dialects Gen.parserTable μ 0 a' 6,
       Spec.unexpectedLineOk2B Gen.dialects Gen.parserTable μ 0 a' 6,
       C14_locs (parseWith Gen.dialects Gen.parserTable false μ 0 a').1)) =
    some (false, true, [⟨7, some 1⟩]) := by kdecide

/-- COVERED BY THE NEW THEOREM ONLY, and not by the condition "`s` is not a tag state": `nonsense`
    behind the tag line (and a blank and a comment line) before `Feature:`.  The tag line is read in
    state 0, which has no guarded test: no look-ahead is started, although state 2 (in which
    `nonsense` is read) is a tag state. -/
example : (MState.init Gen.dialects (lit "en")).map (fun μ =>
      let a := lit "@t\n\n# c\nFeature: f\nScenario: s\n"
      let a' := lit "@t\n\n# c\nnonsense\nFeature: f\nScenario: s\n"
      (Spec.unexpectedLineOkB Gen.dialects Gen.parserTable μ 0 a' 3,
       Spec.unexpectedLineOk2B Gen.dialects Gen.parserTable μ 0 a' 3,
       C14_isOk (parseWith Gen.dialects Gen.parserTable false μ 0 a).1,
       C14_locs (parseWith Gen.dialects Gen.parserTable false μ 0 a').1)) =
    some (false, true, true, [⟨4, some 1⟩]) := by kdecide
example : (MState.init Gen.dialects (lit "en")).map (fun μ =>
      let a' := lit "@t\n\n# c\nnonsense\nFeature: f\nScenario: s\n"
      (Spec.hasGuard Gen.parserTable 0,
       C14_skipInfo μ 0 a' 3,
       Spec.isTag Gen.parserTable (C14_skipInfo μ 0 a' 3).1)) =
    some (false, (2, 0, 0), true) := by kdecide

/-- COUNTEREXAMPLE (a look-ahead condition is needed), as in Props/C14Recover.lean: `nonsense` behind
    a tag line and a blank line after `Feature:`.  Both checks fail — the tag line (line 2) is read in a
    state with guarded tests (third component), and only a blank line follows it; the original is accepted;
    in the new text the look-ahead of the tag line sees `nonsense`: three errors, not one.  In stop
    mode the statement holds all the same (no look-ahead condition there): one error, at (4, 1). -/
example : (MState.init Gen.dialects (lit "en")).map (fun μ =>
      let a := lit "Feature: f\n@t\n\nScenario: s\n"
      let a' := lit "Feature: f\n@t\n\nnonsense\nScenario: s\n"
      (Spec.unexpectedLineOk2B Gen.dialects Gen.parserTable μ 0 a' 3,
       Spec.noPeekAtB Gen.dialects Gen.parserTable false μ 0 a' 3,
       (Spec.stateAfter Gen.dialects Gen.parserTable false μ 0 a' 1).map (Spec.hasGuard Gen.parserTable),
       C14_isOk (parseWith Gen.dialects Gen.parserTable false μ 0 a).1,
       C14_locs (parseWith Gen.dialects Gen.parserTable false μ 0 a').1)) =
    some (false, false, some true, true, [⟨4, some 1⟩, ⟨5, some 1⟩, ⟨6, none⟩]) := by kdecide
example : (MState.init Gen.dialects (lit "en")).map (fun μ =>
      let a' := lit "Feature: f\n@t\n\nnonsense\nScenario: s\n"
      (Spec.unexpectedLineStopB Gen.dialects Gen.parserTable μ 0 a' 3,
       C14_locs (parseWith Gen.dialects Gen.parserTable true μ 0 a').1)) =
    some (true, [⟨4, some 1⟩]) := by kdecide

/-- a tag line followed by a barrier line within `pre` is harmless: `Feature: g` behind a tagged
    scenario's step and a blank line -/
example : (MState.init Gen.dialects (lit "en")).map (fun μ =>
      let a' := lit "Feature: f\n@t\nScenario: s\n  Given x\n\nFeature: g\n"
      (Spec.unexpectedLineOkB Gen.dialects Gen.parserTable μ 0 a' 5,
       Spec.unexpectedLineOk2B Gen.dialects Gen.parserTable μ 0 a' 5,
       C14_locs (parseWith Gen.dialects Gen.parserTable false μ 0 a').1)) =
    some (false, true, [⟨6, some 1⟩]) := by kdecide

/-- stop mode, whatever follows: the text after the unexpected line is itself full of errors, the
    outcome is the one error for line 4 -/
example : (MState.init Gen.dialects (lit "en")).map (fun μ =>
      let a' := lit "Feature: f\nScenario: s\n  Given x\nFeature: g\n  | a | b |\n  | c |\nnonsense\n"
      (Spec.unexpectedLineStopB Gen.dialects Gen.parserTable μ 0 a' 3,
       C14_stopState μ 0 a' 3,
       (parseWith Gen.dialects Gen.parserTable true μ 0 a').1 matches .rejected [_] false,
       C14_locs (parseWith Gen.dialects Gen.parserTable true μ 0 a').1,
       C14_locs (parseWith Gen.dialects Gen.parserTable false μ 0 a').1)) =
    some (true, 12, true, [⟨4, some 1⟩], [⟨4, some 1⟩, ⟨7, some 1⟩, ⟨6, some 3⟩]) := by kdecide

end GV
