/-
  Props/C02Text.lean — properties C02 and C14 at text level.

  Every physical line has, under the matcher state in force when it is reached, exactly one
  *intrinsic kind* (`C02_kind_unique`).  A document is accepted iff the sequence of its intrinsic
  line kinds is a sentence of gherkin.berp and nothing else goes wrong, where "else" is exactly: a
  line tested as a tag line contains a tag with whitespace, a language header names an unknown
  dialect (both: `Spec.textRaises`), or a table is ragged (the only error the builder raises).
  `Spec.textAccepts` (Spec/TextLevel.lean) is the text-level acceptor: it follows the kind-level
  machine on the intrinsic kinds and rejects when a tested line raises.

  Proved for every source text, every matcher state whose dialect is one of the dialect table,
  for all tables passing the Boolean checks evaluated below on the regenerated tables.

  CORRECTION of the planned statement.  "accepted, or rejected with ragged-table errors only
  ⟺ textAccepts" is false as it stands: the error limit hides later lines.  With twelve ragged
  tables followed by an unexpected line the parser stops at the eleventh ragged-table error
  (rejected, 11 errors, all ragged) although `textAccepts` is false (`C02_text_cap_counterexample`).
  Exactly true: the two implications `C02_text_accepted` / `C02_text_rejected` (the second with
  the alternative "cut short by the error limit"), and the equivalence when the limit is not hit.
  The model's explicit crash outcome (builder crash-freedom is not proved) is an extra alternative
  resp. hypothesis; the `fuel` outcome is excluded (C01_parse_terminates).
-/
import GherkinVerif.Lemmas.TextMain
import GherkinVerif.Lemmas.C02Cert
import GherkinVerif.Gen.ParserTable
import GherkinVerif.Gen.Dialects
import GherkinVerif.KDecide
namespace GV

/-! facts about the regenerated tables -/

/-- the C05 keyword facts, and: no keyword starts with `"` or a backtick -/
theorem C02T_fact_dialects : Spec.textDialectFacts Gen.dialects = true := by kdecide
/-- look-aheads uniform, tag states closed, guarded tests followed by tag-line tests -/
theorem C02T_fact_queue : Spec.queueFacts Gen.parserTable = true := by kdecide
/-- comment and blank lines are accepted by some test of every state -/
theorem C02T_fact_comment_blank : Spec.commentBlankTested Gen.parserTable = true := by kdecide
/-- no look-ahead expects or skips `EOF` / `Other` -/
theorem C02T_fact_lookaheads : Spec.lookaheadsStopAtEOF Gen.parserTable = true := by kdecide

/-! ### (3) each line has exactly one intrinsic kind -/

/-- Under the dialect facts, for every line `l`, every matcher state `μ` whose dialect is in the
    table and whose doc-string mode is one the matcher can produce (`Spec.sepOK`: no delimiter
    active, or `"""`, or three backticks), and EVERY test `K`: the test succeeds on the line exactly
    when `K` is in the fallback chain of the line's intrinsic kind — its own kind; `Comment` too for
    a valid language header; `Other` for every line.  The two raising situations need no exception:
    a tag line with a whitespace tag fails the `TagLine` test (and raises: `Spec.raises`), its
    intrinsic kind is `Other`; an unknown-language header fails the `Language` test (and raises),
    its intrinsic kind is `Comment`.  In doc-string mode (`μ.activeSep = some sep`) only `sep`
    passes the `DocStringSeparator` test. -/
theorem C02_kind_unique_generic (D' : List Dialect) (hf : Spec.textDialectFacts D' = true) (D : List Dialect)
    (μ : MState) (hμ : μ.dialect ∈ D') (hsep : Spec.sepOK μ = true) (l : Str) (K : Kind) :
    Spec.verdict D μ l K = passes (Spec.intrinsicKind D μ l) K :=
  Lemmas.kind_unique hf D μ hμ hsep l K

theorem C02_kind_unique (μ : MState) (hμ : μ.dialect ∈ Gen.dialects) (hsep : Spec.sepOK μ = true) (l : Str) (K : Kind) :
    Spec.verdict Gen.dialects μ l K = passes (Spec.intrinsicKind Gen.dialects μ l) K :=
  Lemmas.kind_unique C02T_fact_dialects Gen.dialects μ hμ hsep l K

/-- a raise comes from the tag-line test or the language test only, and the test then fails -/
theorem C02_raises (D : List Dialect) (μ : MState) (l : Str) (K : Kind) (h : Spec.raises D μ l K = true) :
    (K = .TagLine ∨ K = .Language) ∧ Spec.verdict D μ l K = false :=
  Lemmas.raises_imp D μ l K h

/-- the intrinsic kind of a line is never `EOF` -/
theorem C02_intrinsic_ne_EOF (D : List Dialect) (μ : MState) (l : Str) : Spec.intrinsicKind D μ l ≠ .EOF :=
  Lemmas.intrinsicKind_ne_EOF D μ l

/-! ### (2) text-level acceptance and the kind-level machine / the grammar -/

/-- Text-level acceptance, decomposed: the intrinsic kinds along the run are accepted by the
    kind-level machine, and no tested line raises.  (The look-ahead futures of the two sides differ —
    kinds under the current matcher state versus kinds when the lines are reached — but agree as far
    as a peek looks.) -/
theorem C02_text_accepts_eq_generic (T : Table) (hT : Spec.queueFacts T = true) (D : List Dialect) (μ : MState)
    (ls : List Str) :
    Spec.textAccepts D T 0 μ ls = (acceptsAbs T (Spec.textKinds D T 0 μ ls) && !Spec.textRaises D T 0 μ ls) :=
  Lemmas.textAccepts_eq (Lemmas.QF.of_facts (D := []) rfl hT) D ls 0 μ

/-- accepted at text level ⇒ the intrinsic line kinds form a sentence of gherkin.berp -/
theorem C02_text_kinds_sentence (μ : MState) (ls : List Str)
    (h : Spec.textAccepts Gen.dialects Gen.parserTable 0 μ ls = true) :
    acceptsAbs Gen.parserTable (Spec.textKinds Gen.dialects Gen.parserTable 0 μ ls) = true ∧
    Spec.Sentence Gen.grammar .GherkinDocument (Spec.textKinds Gen.dialects Gen.parserTable 0 μ ls) = true := by
  have h1 := Lemmas.textAccepts_kinds (Lemmas.QF.of_facts (D := []) rfl C02T_fact_queue) Gen.dialects μ ls h
  exact ⟨h1, by rw [← Lemmas.accept_iff_sentence _ (Lemmas.textKinds_no_EOF _ _ ls 0 μ)]; exact h1⟩

/-- conversely: when no tested line raises, a sentence of the grammar is accepted at text level -/
theorem C02_text_sentence_accepts (μ : MState) (ls : List Str)
    (hr : Spec.textRaises Gen.dialects Gen.parserTable 0 μ ls = false)
    (h : Spec.Sentence Gen.grammar .GherkinDocument (Spec.textKinds Gen.dialects Gen.parserTable 0 μ ls) = true) :
    Spec.textAccepts Gen.dialects Gen.parserTable 0 μ ls = true :=
  Lemmas.kinds_textAccepts (Lemmas.QF.of_facts (D := []) rfl C02T_fact_queue) Gen.dialects μ ls hr
    (by rw [Lemmas.accept_iff_sentence _ (Lemmas.textKinds_no_EOF _ _ ls 0 μ)]; exact h)

/-! ### (1) the parser against the text-level acceptor (collecting mode) -/

/-- accepted at text level ⇒ the parser accepts the document, or rejects it with ragged-table
    errors only (or the model's explicit crash outcome occurs) -/
theorem C02_text_accepted (μ : MState) (ids : Nat) (src : Str) (hμ : (μ.reset Gen.dialects).dialect ∈ Gen.dialects)
    (h : Spec.textAccepts Gen.dialects Gen.parserTable 0 (μ.reset Gen.dialects) (splitLines src) = true) :
    (∃ d, (parseWith Gen.dialects Gen.parserTable false μ ids src).1 = .ok d) ∨
    (∃ es, (parseWith Gen.dialects Gen.parserTable false μ ids src).1 = .rejected es true ∧
      ∀ e ∈ es, e.kind = .raggedTable) ∨
    (∃ w, (parseWith Gen.dialects Gen.parserTable false μ ids src).1 = .crash w) :=
  Lemmas.text_accept_A C02T_fact_dialects C02T_fact_queue C02T_fact_comment_blank C02T_fact_lookaheads μ ids src hμ h

/-- rejected at text level ⇒ the parser rejects the document with an error that is not a
    ragged-table error — an unexpected line / end of file, a tag with whitespace, an unknown
    dialect — or is cut short by the error limit (or the model's crash outcome occurs) -/
theorem C14_text_rejected (μ : MState) (ids : Nat) (src : Str) (hμ : (μ.reset Gen.dialects).dialect ∈ Gen.dialects)
    (h : Spec.textAccepts Gen.dialects Gen.parserTable 0 (μ.reset Gen.dialects) (splitLines src) = false) :
    (∃ es, (parseWith Gen.dialects Gen.parserTable false μ ids src).1 = .rejected es true ∧
      ((∃ e ∈ es, e.kind ≠ .raggedTable) ∨ Gen.parserTable.errorCap < es.length)) ∨
    (∃ w, (parseWith Gen.dialects Gen.parserTable false μ ids src).1 = .crash w) :=
  Lemmas.text_accept_B C02T_fact_dialects C02T_fact_queue C02T_fact_comment_blank C02T_fact_lookaheads μ ids src hμ h

/-- The acceptance theorem.  When the model's crash outcome does not occur and the error limit is
    not hit: the document is accepted, or rejected with ragged-table errors only, iff the text-level
    acceptor accepts it. -/
theorem C02_text_accept_iff (μ : MState) (ids : Nat) (src : Str) (hμ : (μ.reset Gen.dialects).dialect ∈ Gen.dialects)
    (hnc : ∀ w, (parseWith Gen.dialects Gen.parserTable false μ ids src).1 ≠ .crash w)
    (hcap : ∀ es comp, (parseWith Gen.dialects Gen.parserTable false μ ids src).1 = .rejected es comp →
      es.length ≤ Gen.parserTable.errorCap) :
    ((∃ d, (parseWith Gen.dialects Gen.parserTable false μ ids src).1 = .ok d) ∨
     (∃ es comp, (parseWith Gen.dialects Gen.parserTable false μ ids src).1 = .rejected es comp ∧
        ∀ e ∈ es, e.kind = .raggedTable)) ↔
    Spec.textAccepts Gen.dialects Gen.parserTable 0 (μ.reset Gen.dialects) (splitLines src) = true :=
  Lemmas.text_accept_iff C02T_fact_dialects C02T_fact_queue C02T_fact_comment_blank C02T_fact_lookaheads
    μ ids src hμ hnc hcap

/-- the generic form, for any table and dialect table passing the checks -/
theorem C02_text_accept_iff_generic (D : List Dialect) (T : Table) (hf : Spec.textDialectFacts D = true)
    (hT : Spec.queueFacts T = true) (hCB : Spec.commentBlankTested T = true)
    (hE : Spec.lookaheadsStopAtEOF T = true) (μ : MState) (ids : Nat) (src : Str) (hμ : (μ.reset D).dialect ∈ D)
    (hnc : ∀ w, (parseWith D T false μ ids src).1 ≠ .crash w)
    (hcap : ∀ es comp, (parseWith D T false μ ids src).1 = .rejected es comp → es.length ≤ T.errorCap) :
    ((∃ d, (parseWith D T false μ ids src).1 = .ok d) ∨
     (∃ es comp, (parseWith D T false μ ids src).1 = .rejected es comp ∧ ∀ e ∈ es, e.kind = .raggedTable)) ↔
    Spec.textAccepts D T 0 (μ.reset D) (splitLines src) = true :=
  Lemmas.text_accept_iff hf hT hCB hE μ ids src hμ hnc hcap

/-! ### non-vacuity and the counterexample to the statement without the error limit -/

/-- a French document with a language header, a doc string whose content looks like a step, and a
    tag / blank run before `Exemples:` -/
def C02T_demo : Str :=
  lit "# language: fr\nFonctionnalité: f\n  Scénario: s\n    Soit x\n      \"\"\"\n      Given y\n      \"\"\"\n    @t\n\n    Exemples:\n      | a |\n"

example : (MState.init Gen.dialects (lit "en")).map (fun μ =>
      (Spec.textAccepts Gen.dialects Gen.parserTable 0 (μ.reset Gen.dialects) (splitLines C02T_demo),
       Spec.textKinds Gen.dialects Gen.parserTable 0 (μ.reset Gen.dialects) (splitLines C02T_demo))) =
    some (true, [.Language, .FeatureLine, .ScenarioLine, .StepLine, .DocStringSeparator, .Other,
      .DocStringSeparator, .TagLine, .Empty, .ExamplesLine, .TableRow]) := by kdecide

/-- a tag with whitespace: rejected at text level because a tested line raises -/
example : (MState.init Gen.dialects (lit "en")).map (fun μ =>
      (Spec.textAccepts Gen.dialects Gen.parserTable 0 (μ.reset Gen.dialects) (splitLines (lit "Feature: f\n@a b\nScenario: s\n")),
       Spec.textRaises Gen.dialects Gen.parserTable 0 (μ.reset Gen.dialects) (splitLines (lit "Feature: f\n@a b\nScenario: s\n")))) =
    some (false, true) := by kdecide

/-- twelve ragged tables, then an unexpected line -/
def C02T_capDoc : Str :=
  lit ("Feature: f\nScenario: s\n" ++
    String.join (List.replicate 12 "Given x\n|a|\n|a|b|\n") ++ "foo\n")

/-- the counterexample: rejected with eleven errors, all of them ragged-table errors (the error
    limit stopped the parse before the unexpected line `foo`), yet not accepted at text level -/
theorem C02_text_cap_counterexample : (MState.init Gen.dialects (lit "en")).map (fun μ =>
      (match (parseWith Gen.dialects Gen.parserTable false μ 0 C02T_capDoc).1 with
        | .rejected es comp => (es.length, comp, es.all fun e => e.kind == ErrKind.raggedTable)
        | _ => (0, false, false),
       Spec.textAccepts Gen.dialects Gen.parserTable 0 (μ.reset Gen.dialects) (splitLines C02T_capDoc))) =
    some ((11, true, true), false) := by kdecide

end GV
