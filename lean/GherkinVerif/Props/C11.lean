/-
  Props/C11.lean — property C11: ids unique, dense, canonically ordered; references resolve.
-/
import GherkinVerif.Lemmas.Compile
namespace GV

/-- Pickle part: starting from counter `n`, the compiler draws consecutive ids in the canonical
    order "each pickle's steps, then the pickle", and leaves the counter just past the last. -/
theorem C11_pickle_ids (uri : Str) (doc : Doc) (n : Nat) (ps : List Pickle) (n' : Nat)
    (h : compile uri doc n = some (ps, n')) :
    Spec.idOrder ps = List.range' n (n' - n) ∧ n ≤ n' :=
  Lemmas.compile_ids uri doc n ps n' h

/-- hence pairwise distinct -/
theorem C11_pickle_ids_nodup (uri : Str) (doc : Doc) (n : Nat) (ps : List Pickle) (n' : Nat)
    (h : compile uri doc n = some (ps, n')) : (Spec.idOrder ps).Nodup := by
  rw [(C11_pickle_ids uri doc n ps n' h).1]
  exact List.nodup_range'

end GV
