/-
  Props/C06.lean — property C06: one pickle per scenario and per example row, in document order.
  Property theorems only; the refinement proof is in Lemmas/Compile.lean.
-/
import GherkinVerif.Lemmas.Compile
namespace GV

/-- Refinement: for every document, uri and counter, the compiler's pickles — with the ids it
    hands out erased — are exactly the specification's comprehension (Spec/Compile.lean):
    one pickle per scenario without examples, one per body row of every examples block with a
    header, nothing else, in document order, each with uri, language, name, tags, steps. -/
theorem C06_pickles_eq_spec (uri : Str) (doc : Doc) (n : Nat) (ps : List Pickle) (n' : Nat)
    (h : compile uri doc n = some (ps, n')) :
    Spec.pickles uri doc = some (ps.map Spec.eraseIds) :=
  Lemmas.compile_eq_spec uri doc n ps n' h

/-- … and the compiler fails (IndexError) only when the specification is undefined, i.e. some
    example row is shorter than its header. -/
theorem C06_compile_none_iff (uri : Str) (doc : Doc) (n : Nat) :
    compile uri doc n = none ↔ Spec.pickles uri doc = none :=
  Lemmas.compile_none_iff uri doc n

/-- Compiling is total on rectangular documents (in particular on everything the parser returns). -/
theorem C06_compile_total (uri : Str) (doc : Doc) (n : Nat) (h : Spec.rectangular doc) :
    ∃ r, compile uri doc n = some r :=
  Lemmas.compile_total uri doc n h

/-- The count: scenarios without examples contribute one pickle each, outlines one per body row
    of each examples block that has a header. -/
theorem C06_count (uri : Str) (doc : Doc) (f : Feature) (n : Nat) (ps : List Pickle) (n' : Nat)
    (hf : doc.feature = some f) (h : compile uri doc n = some (ps, n')) :
    ps.length = ((Spec.featureScenarios f).map fun x =>
      if x.2.examples = [] then 1
      else (x.2.examples.map fun ex => match ex.header with | none => 0 | some _ => ex.body.length).sum).sum :=
  Lemmas.compile_count uri doc f n ps n' hf h

/-- Each pickle points back to the scenario — and the example row — it was made from, carries
    the document's uri and the feature's language. -/
theorem C06_fields (uri language : Str) (sc : Spec.Scope) (s : Scenario) (p : Pickle) :
    (Spec.scenarioPickle uri language sc s = some p →
        p.astNodeIds = [s.id] ∧ p.uri = uri ∧ p.language = language ∧ p.name = s.name) ∧
    (∀ ex h row, Spec.rowPickle uri language sc s ex h row = some p →
        p.astNodeIds = [s.id, row.id] ∧ p.uri = uri ∧ p.language = language ∧
        some p.name = interp s.name (h.cells.map (·.value)) (row.cells.map (·.value))) :=
  Lemmas.spec_fields uri language sc s p

/-- A document without feature, and a feature without children, yield no pickles. -/
theorem C06_empty (uri : Str) (n : Nat) (cs : List Comment) : compile uri ⟨none, cs⟩ n = some ([], n) := by
  simp [compile]

end GV
