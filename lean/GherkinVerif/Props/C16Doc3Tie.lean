/-
  Props/C16Doc3Tie.lean — the Boolean hypotheses the model driver evaluates (Spec/LayoutChecks.lean,
  op `layoutok`) ARE the hypotheses of `C16_blank_line_text` / `C16_indent_document_check`; so on every
  input where the driver answers `true` the theorem's conclusion holds of the model, and the
  correspondence check demands it of the implementation.
-/
import GherkinVerif.Props.C16Doc3
import GherkinVerif.Spec.LayoutChecks
namespace GV
open Lemmas Layout3

theorem C16_blankLineOk_eq (stop : Bool) (μ : MState) (ids : Nat) (src : Str) (k : Nat) :
    Spec.blankLineOkB Gen.dialects Gen.parserTable stop μ ids src k = C16_blankLineOk stop μ ids src k := rfl

theorem C16_indentable_eq (K : Kind) : Spec.indentableB K = indentable K := by cases K <;> rfl

theorem C16_indentOk_eq (stop : Bool) (μ : MState) (ids : Nat) (src' src : Str) :
    Spec.indentOkB Gen.dialects Gen.parserTable stop μ ids src' src = C16_indentOk stop μ ids src' src := by
  unfold Spec.indentOkB C16_indentOk
  have h : Spec.indentableB = indentable := funext C16_indentable_eq
  rw [h]
  rfl

/-- what the driver's `true` means, indentation: the outcome of the indented text is the renamed
    outcome of the original -/
theorem C16_driver_indent (stop : Bool) (μ : MState) (ids : Nat) (src src' : Str)
    (h : Spec.indentOkB Gen.dialects Gen.parserTable stop μ ids src' src = true)
    (hμ : (μ.reset Gen.dialects).dialect ∈ Gen.dialects) :
    (parseWith Gen.dialects Gen.parserTable stop μ ids src').1 =
      Spec.mapOutcome (Spec.indentMap (Spec.shiftB src' src)) (parseWith Gen.dialects Gen.parserTable stop μ ids src).1 :=
  C16_indent_document_check stop μ ids src src' (by rw [← C16_indentOk_eq]; exact h) hμ

end GV
