/-
  Props/C01Pipeline.lean — property C01, first sentences, closed over the whole pipeline:
  "For every source text, parsing either returns a Gherkin document or raises the library's
  parser error …  Compiling any returned document returns a list of pickles, and the stream API
  turns any source into gherkinDocument, pickle and parseError envelopes only.  No other
  exception type ever escapes."

  What was missing.  `C06_compile_total` / `C01_compile_total` need `Spec.rectangular doc` (the
  compiler's `IndexError` — `compile … = none` — occurs exactly when an examples body row is
  shorter than its header), and `C01_stream_kinds` (Props/C01.lean) still lists the model's
  explicit `.crash` envelope.  Here:

    * `C01_parsed_rectangular`: every document an accepted parse returns is rectangular in the
      strong sense — every examples block's body rows have exactly the header's cell count and
      every data table's rows have equal cell counts — because the only place the builder makes
      rows, `get_table_rows`, returns them only after `ensure_cell_count` found no deviating row
      (Lemmas/Rectangular.lean: an invariant of the builder stack carried through the parse loop;
      no hypothesis on the table, the dialects, the matcher state or the mode);
    * `C01_compile_parsed_total`: so compiling it returns pickles (with `C06_compile_total`);
    * `C01_stream_no_crash`, `C01_stream_kinds_total`: so — with `C01_no_crash`,
      `C01_parse_terminates` and the default dialect "en" being in the dialect table — the
      stream's envelopes are `source`, `gherkinDocument`, `pickle`, `parseError` only;
    * `C01_pipeline_total`: the outcome of a parse is a document whose compilation succeeds, or
      the library's parser error in the form of `C01_parse_outcome`.
-/
import GherkinVerif.Lemmas.Rectangular
import GherkinVerif.Props.C01NoCrashAll
import GherkinVerif.Props.C01
import GherkinVerif.Props.C06
import GherkinVerif.KDecide
namespace GV

open Lemmas.Rect in
/-- Structured form, generic in the tables: the document of an accepted parse satisfies
    `Lemmas.Rect.DocRect` — every feature child (background, scenario, rule and the rule's
    children) has steps whose data tables have rows of equal cell counts, and examples blocks
    whose body rows have exactly the header's cell count. -/
theorem C01_parsed_docRect (D : List Dialect) (T : Table) (stop : Bool) (μ : MState) (ids : Nat) (src : Str)
    (d : Doc) (h : (parseWith D T stop μ ids src).1 = .ok d) : DocRect d :=
  parsed_docRect D T stop μ ids src d h

/-- Generic in the tables: every accepted parse returns a rectangular document. -/
theorem C01_parsed_rectangular_generic (D : List Dialect) (T : Table) (stop : Bool) (μ : MState) (ids : Nat)
    (src : Str) (d : Doc) (h : (parseWith D T stop μ ids src).1 = .ok d) :
    (∀ f, d.feature = some f → ∀ scs ∈ Spec.featureScenarios f, ∀ ex ∈ scs.2.examples,
      ∀ hd, ex.header = some hd → ∀ row ∈ ex.body, row.cells.length = hd.cells.length) ∧
    (∀ st ∈ Lemmas.Rect.docSteps d, ∀ t, st.arg = .table t →
      ∀ r1 ∈ t.rows, ∀ r2 ∈ t.rows, r1.cells.length = r2.cells.length) ∧
    Spec.rectangular d :=
  have hd := C01_parsed_docRect D T stop μ ids src d h
  ⟨hd.examples_exact, hd.tables_equal, hd.rectangular⟩

/-- **Every returned document is rectangular.**  For every source text, matcher state, id counter
    and error mode: if the parse is accepted then, in the document,
    (1) every examples block of every scenario (in or outside rules; `Spec.featureScenarios`
        enumerates them all) has body rows with exactly as many cells as its header;
    (2) every data table of every step (background and scenario steps, in or outside rules;
        `Lemmas.Rect.docSteps`) has rows of equal cell counts;
    (3) hence the compiler's precondition `Spec.rectangular` holds.
    (The hypothesis on the matcher's dialect is not needed.) -/
theorem C01_parsed_rectangular (stop : Bool) (μ : MState) (ids : Nat) (src : Str) (d : Doc)
    (h : (parseWith Gen.dialects Gen.parserTable stop μ ids src).1 = .ok d) :
    (∀ f, d.feature = some f → ∀ scs ∈ Spec.featureScenarios f, ∀ ex ∈ scs.2.examples,
      ∀ hd, ex.header = some hd → ∀ row ∈ ex.body, row.cells.length = hd.cells.length) ∧
    (∀ st ∈ Lemmas.Rect.docSteps d, ∀ t, st.arg = .table t →
      ∀ r1 ∈ t.rows, ∀ r2 ∈ t.rows, r1.cells.length = r2.cells.length) ∧
    Spec.rectangular d :=
  C01_parsed_rectangular_generic Gen.dialects Gen.parserTable stop μ ids src d h

/-- **Compiling any returned document returns a list of pickles**: for every uri and every
    value of the id counter — in particular the counter the parse left behind, which is what
    the stream passes on — `compile` does not take its `IndexError` exit. -/
theorem C01_compile_parsed_total_generic (D : List Dialect) (T : Table) (stop : Bool) (μ : MState) (ids : Nat)
    (src : Str) (d : Doc) (h : (parseWith D T stop μ ids src).1 = .ok d) (uri : Str) (n : Nat) :
    ∃ ps n', compile uri d n = some (ps, n') := by
  obtain ⟨⟨ps, n'⟩, hr⟩ := C06_compile_total uri d n (C01_parsed_rectangular_generic D T stop μ ids src d h).2.2
  exact ⟨ps, n', hr⟩

theorem C01_compile_parsed_total (stop : Bool) (μ : MState) (ids : Nat) (src : Str) (d : Doc)
    (h : (parseWith Gen.dialects Gen.parserTable stop μ ids src).1 = .ok d) (uri : Str) :
    ∃ ps n', compile uri d (parseWith Gen.dialects Gen.parserTable stop μ ids src).2.ids = some (ps, n') :=
  C01_compile_parsed_total_generic Gen.dialects Gen.parserTable stop μ ids src d h uri _

/-! ### the stream -/

/-- the stream's default dialect "en" is in the regenerated dialect table: the constructor
    `TokenMatcher()` does not raise -/
theorem C01_fact_default_dialect : (MState.init Gen.dialects (lit "en")).isSome = true := by kdecide

/-- **No crash envelope.**  For every option set, id counter, uri and source text, no envelope
    of the stream is the model's `.crash` (a non-ParserError exception escaping `enum`). -/
theorem C01_stream_no_crash (opts : Opts) (ids : Nat) (uri data : Str) :
    ∀ e ∈ (streamEnum Gen.dialects Gen.parserTable opts ids uri data).1, ∀ w, e ≠ .crash w := by
  intro e he w hw
  subst hw
  unfold streamEnum at he
  split at he
  · rename_i hμ
    have := C01_fact_default_dialect
    rw [hμ] at this
    cases this
  · rename_i μ hμ
    have hnc := C01_no_crash_any false μ ids data
    have hnf := Lemmas.parse_terminates Gen.dialects Gen.parserTable C01A_fact_lookaheads false μ ids data
    have hct := fun d h => C01_compile_parsed_total false μ ids data d h uri
    rcases hp : parseWith Gen.dialects Gen.parserTable false μ ids data with ⟨out, ctx⟩
    rw [hp] at he hnc hnf hct
    dsimp only at he hnc hnf hct
    have hpre : ∀ d, Envelope.crash w ∉ (if opts.printSource then [Envelope.source uri data] else []) ++
        (if opts.printAst then [Envelope.gherkinDocument uri d] else []) := by
      intro d hm
      rcases List.mem_append.1 hm with h1 | h1
      · split at h1
        · simp only [List.mem_singleton] at h1; cases h1
        · cases h1
      · split at h1
        · simp only [List.mem_singleton] at h1; cases h1
        · cases h1
    cases out with
    | ok d =>
      dsimp only at he
      split at he
      · split at he
        · rcases List.mem_append.1 he with h1 | h1
          · exact hpre d h1
          · obtain ⟨p, _, hp'⟩ := List.mem_map.1 h1
            cases hp'
        · rename_i hnone
          obtain ⟨ps, n', hc⟩ := hct d rfl
          rw [hc] at hnone
          cases hnone
      · exact hpre d he
    | rejected es c =>
      dsimp only at he
      obtain ⟨x, _, hx⟩ := List.mem_map.1 he
      cases hx
    | crash w' => exact hnc w' rfl
    | fuel => exact hnf rfl

/-- **The stream API turns any source into source, gherkinDocument, pickle and parseError
    envelopes only** (`C01_stream_kinds` without its crash alternative). -/
theorem C01_stream_kinds_total (opts : Opts) (ids : Nat) (uri data : Str) :
    ∀ e ∈ (streamEnum Gen.dialects Gen.parserTable opts ids uri data).1,
      (∃ u d, e = .source u d) ∨ (∃ u d, e = .gherkinDocument u d) ∨ (∃ p, e = .pickle p) ∨
      (∃ u x, e = .parseError u x) := by
  intro e he
  rcases C01_stream_kinds Gen.dialects Gen.parserTable opts ids uri data e he with h | h | h | h | ⟨w, hw⟩
  · exact .inl h
  · exact .inr (.inl h)
  · exact .inr (.inr (.inl h))
  · exact .inr (.inr (.inr h))
  · exact absurd hw (C01_stream_no_crash opts ids uri data e he w)

/-- … for a sequence of sources through one stream (the id counter is shared) -/
theorem C01_streamAll_kinds_total (opts : Opts) (srcs : List (Str × Str)) (ids : Nat) :
    ∀ es ∈ streamAll Gen.dialects Gen.parserTable opts srcs ids, ∀ e ∈ es,
      (∃ u d, e = .source u d) ∨ (∃ u d, e = .gherkinDocument u d) ∨ (∃ p, e = .pickle p) ∨
      (∃ u x, e = .parseError u x) := by
  induction srcs generalizing ids with
  | nil => intro es hes; cases hes
  | cons s rest ih =>
    obtain ⟨uri, data⟩ := s
    intro es hes
    unfold streamAll at hes
    rcases List.mem_cons.1 hes with rfl | hes
    · exact C01_stream_kinds_total opts ids uri data
    · exact ih _ es hes

/-! ### the whole pipeline -/

/-- **C01, first sentences, in one statement.**  For every source text, matcher state, id
    counter and error mode, `parseWith` on the regenerated tables yields
      * a document `d` — rectangular, and compiling it (any uri, any counter value) returns a
        list of pickles; or
      * the library's parser error: exactly one error, bare (`comp = false`), in
        stop-at-first-error mode; in collecting mode a `CompositeParserException`
        (`comp = true`) with between one and eleven errors with pairwise distinct messages.
    Nothing else: the model's crash and fuel outcomes do not occur. -/
theorem C01_pipeline_total (stop : Bool) (μ : MState) (ids : Nat) (src : Str) :
    (∃ d, (parseWith Gen.dialects Gen.parserTable stop μ ids src).1 = .ok d ∧ Spec.rectangular d ∧
      ∀ uri n, ∃ ps n', compile uri d n = some (ps, n')) ∨
    (∃ es comp, (parseWith Gen.dialects Gen.parserTable stop μ ids src).1 = .rejected es comp ∧
      (stop = true → es.length = 1 ∧ comp = false) ∧
      (stop = false → comp = true ∧ 1 ≤ es.length ∧ es.length ≤ 11 ∧ (es.map PErr.message).Nodup)) := by
  rcases C01_parse_outcome_total stop μ ids src with ⟨d, hd⟩ | ⟨es, comp, hr⟩
  · exact .inl ⟨d, hd, (C01_parsed_rectangular stop μ ids src d hd).2.2,
      fun uri n => C01_compile_parsed_total_generic Gen.dialects Gen.parserTable stop μ ids src d hd uri n⟩
  · have ho := C01_parse_outcome Gen.dialects Gen.parserTable stop μ ids src es comp hr
    rw [C01_error_cap_is_ten] at ho
    exact .inr ⟨es, comp, hr, ho⟩

/-- … and the stream on top of it: every envelope is one of the four message kinds, and when
    the parse is accepted and pickles are requested the pickles are those of `compile`. -/
theorem C01_pipeline_stream (opts : Opts) (ids : Nat) (uri data : Str) :
    ∀ e ∈ (streamEnum Gen.dialects Gen.parserTable opts ids uri data).1,
      (∃ u d, e = .source u d) ∨ (∃ u d, e = .gherkinDocument u d) ∨ (∃ p, e = .pickle p) ∨
      (∃ u x, e = .parseError u x) :=
  C01_stream_kinds_total opts ids uri data

/-! ### non-vacuity -/
section examples

/-- an accepted outline whose step has a data table: the parse returns a document with one step -/
example : (MState.init Gen.dialects (lit "en")).map (fun μ =>
    match (parseWith Gen.dialects Gen.parserTable false μ 0
      (lit "Feature: f\nScenario Outline: s\nGiven <a>\n|x|y|\n|1|2|\nExamples:\n|a|b|\n|1|2|\n|3|4|\n")).1 with
    | .ok d => (Lemmas.Rect.docSteps d).length
    | _ => 99) = some 1 := by kdecide

end examples
end GV
