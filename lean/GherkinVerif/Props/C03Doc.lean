/-
  Props/C03Doc.lean — document-level corollaries: the link `C03_parse_is_astOf` (Props/C03Parse.lean)
  composed with the per-line theorems of properties C04, C05, C13, for every ACCEPTED document
  (`(parseWith … false μ ids src).1 = .ok d`).  Statements and one-line references only; proofs are in
  Lemmas/ParseDoc.lean (tokens), Lemmas/ParseLocs.lean (locations), Lemmas/ParseDocString.lean (doc
  strings, line form), Lemmas/ParseDocTree.lean + Lemmas/ParseDocNode.lean (doc strings, tree form),
  Lemmas/ParseLang.lean (feature language).

  Vocabulary introduced for these statements:
  * `Spec.freshTok l n`: the token the scanner makes of the physical line `l`, the `n`-th line.
  * `Spec.LineToks D μ n ls toks μf` (inductive, Lemmas/ParseDoc.lean): `toks` are, line by line, the
    output tokens of a successful `match_<K>` on the fresh token of the line under the matcher
    state in force when the line is reached — starting with `μ` at line number `n`, moving on by
    `Spec.muAfter`, ending with `μf`; each state is one the matcher can be in (`dialect ∈ D`,
    `Spec.sepOK`); `K` is in the fallback chain of the line's intrinsic kind (`passes`); inside a
    doc string `K` is `DocStringSeparator`, or `Other` after the separator test failed.
  * `Spec.ElemAt dl l n loc` (Lemmas/ParseLocs.lean): `loc` is the location of an element carried by
    line `l`, the `n`-th line, under dialect `dl` (keyword line / step / row / delimiter at column
    indent + 1, where the source reads the keyword + `:` / step keyword / `|` / delimiter; a tag at
    the column of its `@`).  `Spec.LocOK lines loc`: `loc` is a position inside the document.
  * `Spec.DocBody sep ind ls toks k` (Lemmas/ParseDocString.lean): after an opening separator with
    delimiter `sep` on a line indented by `ind`: `k` content lines (read as `Other`, not starting
    with `sep`, text by the `C13_content_line` formula), then the closing separator line.
  * `Spec.DocSeq bs` (Lemmas/ParseDocTree.lean): the tokens `bs` are those of one doc string:
    `o :: (xs ++ c :: ys)` with `Spec.DocOpen o sep lo` (opening separator line `lo`, delimiter `sep`,
    media type as text), `Spec.DocLine sep (lineIndent lo) x` for the content tokens (read as `Other`,
    line not starting with `sep`, text `Spec.docLineText`), `Spec.DocClose sep c`, and
    `Spec.DocTrail y` (blank / comment lines after the closing separator).  `Spec.DocSeqNo`:
    additionally the line numbers of `bs` are consecutive.  `Spec.docNodesP P t`: every `DocString`
    node of `t` has as children exactly the leaves of some `bs` with `P bs`; `Spec.SubT`: subtree.
  * `Spec.nameAt dflt lines toks i` (Lemmas/ParseLang.lean): the dialect name in force at line `i`:
    the name in the last line before `i` read as a `# language:` header, else `dflt`.

  Technical note: Lemmas/DocString.lean and Lemmas/Locations.lean name two helper lemmas
  `dgetTokens_append` / `lmatchTitle_tok` so that they can be imported together with Lemmas/NoCrash.lean
  and Lemmas/GlueBase.lean; the theorems of Props/C04.lean / Props/C13.lean are referred to by the
  names of the lemmas they wrap.

  CORRECTION of a planned statement (C13_in_document): the children of a `DocString` node are NOT
  always `[open] ++ content ++ [close]`: blank lines and comments that follow the closing
  separator are built into the still open `DocString` node (the states after the closing
  separator loop on `Comment` / `Empty` with a bare `build`): last example below.
-/
import GherkinVerif.Props.C03Parse
import GherkinVerif.Lemmas.ParseLocs
import GherkinVerif.Lemmas.ParseDocString
import GherkinVerif.Lemmas.ParseDocNode
import GherkinVerif.Lemmas.ParseLang
import GherkinVerif.KDecide
namespace GV
open Spec

/-! ### facts about the regenerated tables -/

/-- every doc-string content state is found by `row?` and its row is a content row (= `C13_content_rows`) -/
theorem C03D_fact_content_rows :
    ((Spec.contentStates Gen.parserTable).all fun s => (Gen.parserTable.row? s).any Spec.isContentRow) = true := by
  kdecide

/-! ### (1) every built token is the matcher's output on its own physical line -/

/-- generic form -/
theorem C03_parse_tokens_generic (D : List Dialect) (T : Table) (G : Grammar) (fuel : Nat)
    (L : Lemmas.LinkFacts D T G fuel) (hB : Spec.oneBuildLast T = true)
    (hCR : ((Spec.contentStates T).all fun s => (T.row? s).any Spec.isContentRow) = true)
    (μ : MState) (ids : Nat) (src : Str) (hμ : (μ.reset D).dialect ∈ D) (d : Doc)
    (h : (parseWith D T false μ ids src).1 = .ok d) :
    ∃ toks e μf, (parseWith D T false μ ids src).2.builds = toks ++ [e] ∧
      LineToks D (μ.reset D) 1 (splitLines src) toks μf ∧ μf.inDocString = false ∧
      e.line = none ∧ e.mtype = some .EOF ∧ e.lineNo = (splitLines src).length + 1 :=
  Lemmas.parse_tokens L hB hCR μ ids src hμ d h

/-- **Tokens.**  For an accepted document the tokens handed to the builder (the leaves of the tree of
    `C03_parse_is_astOf`) are `toks ++ [e]`: `e` is the end-of-file token, numbered one more than
    the number of lines, and `toks` are line by line (`Spec.LineToks`, from the reset matcher state
    and line number 1) the matcher's output on the FRESH token of each physical line, under the
    matcher state in force at that line; the document does not end inside a doc string. -/
theorem C03_parse_tokens (μ : MState) (ids : Nat) (src : Str)
    (hμ : (μ.reset Gen.dialects).dialect ∈ Gen.dialects) (d : Doc)
    (h : (parseWith Gen.dialects Gen.parserTable false μ ids src).1 = .ok d) :
    ∃ toks e μf, (parseWith Gen.dialects Gen.parserTable false μ ids src).2.builds = toks ++ [e] ∧
      LineToks Gen.dialects (μ.reset Gen.dialects) 1 (splitLines src) toks μf ∧ μf.inDocString = false ∧
      e.line = none ∧ e.mtype = some .EOF ∧ e.lineNo = (splitLines src).length + 1 :=
  Lemmas.parse_tokens C03P_facts C03P_fact_builds C03D_fact_content_rows μ ids src hμ d h

/-- `LineToks`, read off at one line: for the `i`-th physical line `l` (0-based) there are a kind `K`
    and a matcher state `μᵢ` the matcher can be in such that `match_<K>` succeeds on the fresh token
    `⟨l, n + i⟩` under `μᵢ`, the `i`-th token is its output, its `mtype` is `K` (so `K` is the kind of
    the corresponding leaf of the tree's kind projection), and `K` is in the fallback chain of the
    line's intrinsic kind under `μᵢ`. -/
theorem C03_parse_tokens_at (D : List Dialect) (μ μf : MState) (n : Nat) (ls : List Str) (toks : List Token)
    (h : LineToks D μ n ls toks μf) (i : Nat) (l : Str) (hi : ls[i]? = some l) :
    ∃ K μi, μi.dialect ∈ D ∧ sepOK μi = true ∧
      (matchLine D K μi (freshTok l (n + i)) l).res = .matched ∧
      toks[i]? = some (matchLine D K μi (freshTok l (n + i)) l).tok ∧
      passes (intrinsicKind D μi l) K = true ∧
      (matchLine D K μi (freshTok l (n + i)) l).tok.mtype = some K :=
  Lemmas.LineToks.at h i l hi

/-- … and there is one token per line. -/
theorem C03_parse_tokens_length (D : List Dialect) (μ μf : MState) (n : Nat) (ls : List Str) (toks : List Token)
    (h : LineToks D μ n ls toks μf) : toks.length = ls.length :=
  Lemmas.LineToks.length h

/-! ### (2) every location in the AST is the location of the line / tag it was built from -/

/-- **C04 at document level.**  For an accepted document: every element location of the AST
    (`Spec.srcLocs d`: features, rules, backgrounds, scenarios, examples blocks, steps, table rows,
    doc strings, tags) is `ElemAt dl l (i + 1) loc` for a physical line `l = lines[i]` and a dialect
    `dl` of the table — line number `i + 1`; column `indent + 1` where the source reads one of the
    dialect's keywords for the role followed by `:` / a step keyword / `|` / the doc-string
    delimiter; for a tag the column of its `@` (`Lemmas.title_col_list`, `step_col`, `docsep_col`,
    `row_col`, `tagline_tok`, `tag_cols` = `C04_title_col` … `C04_tag_cols`).  Every comment of
    `d.comments` is at column 1 of a line that starts (after blanks) with `#`, and its text is the
    whole line minus the line break (`C04_comment_col`). -/
theorem C04_ast_locations (μ : MState) (ids : Nat) (src : Str)
    (hμ : (μ.reset Gen.dialects).dialect ∈ Gen.dialects) (d : Doc)
    (h : (parseWith Gen.dialects Gen.parserTable false μ ids src).1 = .ok d) :
    (∀ loc ∈ srcLocs d, ∃ (i : Nat) (l : Str) (dl : Dialect), (splitLines src)[i]? = some l ∧ dl ∈ Gen.dialects ∧
      ElemAt dl l (i + 1) loc) ∧
    (∀ cm ∈ d.comments, ∃ (i : Nat) (l : Str), (splitLines src)[i]? = some l ∧ cm.loc = ⟨i + 1, some 1⟩ ∧
      cm.text = rstripCRLF l ∧ startsWith [35] (l.drop (lineIndent l)) = true) :=
  Lemmas.ast_locations C03P_facts C03P_fact_builds C03D_fact_content_rows μ ids src hμ d h

/-- … in particular every element location is a position inside the document: line `i + 1` of a
    physical line `i`, column after that line's indentation and within the line. -/
theorem C04_ast_locations_bounds (μ : MState) (ids : Nat) (src : Str)
    (hμ : (μ.reset Gen.dialects).dialect ∈ Gen.dialects) (d : Doc)
    (h : (parseWith Gen.dialects Gen.parserTable false μ ids src).1 = .ok d) :
    ∀ loc ∈ srcLocs d, LocOK (splitLines src) loc :=
  Lemmas.ast_locations_bounds C03P_facts C03P_fact_builds C03D_fact_content_rows μ ids src hμ d h

/-- generic form -/
theorem C04_ast_locations_generic (D : List Dialect) (T : Table) (G : Grammar) (fuel : Nat)
    (L : Lemmas.LinkFacts D T G fuel) (hB : Spec.oneBuildLast T = true)
    (hCR : ((Spec.contentStates T).all fun s => (T.row? s).any Spec.isContentRow) = true)
    (μ : MState) (ids : Nat) (src : Str) (hμ : (μ.reset D).dialect ∈ D) (d : Doc)
    (h : (parseWith D T false μ ids src).1 = .ok d) :
    (∀ loc ∈ srcLocs d, ∃ (i : Nat) (l : Str) (dl : Dialect), (splitLines src)[i]? = some l ∧ dl ∈ D ∧
      ElemAt dl l (i + 1) loc) ∧
    (∀ cm ∈ d.comments, ∃ (i : Nat) (l : Str), (splitLines src)[i]? = some l ∧ cm.loc = ⟨i + 1, some 1⟩ ∧
      cm.text = rstripCRLF l ∧ startsWith [35] (l.drop (lineIndent l)) = true) :=
  Lemmas.ast_locations L hB hCR μ ids src hμ d h

/-! ### (3) doc strings are opaque, in the document (line form) -/

/-- **C13 at document level, line form.**  In an accepted document, if the token of line `i` is an
    opening doc-string separator (`mtype = DocStringSeparator`, text set), then line `i` starts
    (after blanks) with a delimiter `sep` (`"""` or three backticks), which is the token's keyword,
    and the token's text is the media type (`C13_open`); then come `k` content lines, each read as
    `Other`, NOT starting with `sep` (`C13_only_own_delimiter`), with the text of
    `C13_content_line` under `sep` and the opening line's indentation; and line `i + 1 + k`
    starts with `sep` and is read as the closing separator (text `None`, keyword `sep`:
    `C13_resume`).  Whatever the content lines look like — keywords, tags, comments, table rows,
    blank lines, the other delimiter. -/
theorem C13_in_document_lines (μ : MState) (ids : Nat) (src : Str)
    (hμ : (μ.reset Gen.dialects).dialect ∈ Gen.dialects) (d : Doc)
    (h : (parseWith Gen.dialects Gen.parserTable false μ ids src).1 = .ok d) :
    ∃ toks e, (parseWith Gen.dialects Gen.parserTable false μ ids src).2.builds = toks ++ [e] ∧
      ∀ (i : Nat) (tk : Token), toks[i]? = some tk → tk.mtype = some .DocStringSeparator → tk.text.isSome = true →
        ∃ l sep k, (splitLines src)[i]? = some l ∧ (sep = dq3 ∨ sep = bt3) ∧ startsWith sep (trimmed l) = true ∧
          tk.keyword = some sep ∧ tk.text = some (rstripCRLF (strip ((trimmed l).drop 3))) ∧
          DocBody sep (lineIndent l) ((splitLines src).drop (i + 1)) (toks.drop (i + 1)) k := by
  obtain ⟨toks, e, μf, hb, hlt, hf, -⟩ := C03_parse_tokens μ ids src hμ d h
  exact ⟨toks, e, hb, fun i tk hi hk ho => Lemmas.docstring_lines hlt hf i tk hi hk ho⟩

/-- the same for any `LineToks` (generic form) -/
theorem C13_in_document_lines_generic (D : List Dialect) (μ μf : MState) (lines : List Str) (toks : List Token)
    (h : LineToks D μ 1 lines toks μf) (hf : μf.inDocString = false) (i : Nat) (tk : Token)
    (hi : toks[i]? = some tk) (hk : tk.mtype = some .DocStringSeparator) (hopen : tk.text.isSome = true) :
    ∃ l sep k, lines[i]? = some l ∧ (sep = dq3 ∨ sep = bt3) ∧ startsWith sep (trimmed l) = true ∧
      tk.keyword = some sep ∧ tk.text = some (rstripCRLF (strip ((trimmed l).drop 3))) ∧
      DocBody sep (lineIndent l) (lines.drop (i + 1)) (toks.drop (i + 1)) k :=
  Lemmas.docstring_lines h hf i tk hi hk hopen

/-! ### (3b) doc strings in the tree and in the AST -/

/-- after a closing separator every test starts with an `end_rule` or is a build-only `Comment` /
    `Empty` loop -/
theorem C03D_fact_doc_body : Spec.docBodyFacts Gen.parserTable = true := by kdecide
/-- `start_rule(DocString)` is always directly followed by the `build` that ends the production list -/
theorem C03D_fact_doc_start : Spec.docStartFacts Gen.parserTable = true := by kdecide

theorem C03D_doc_facts : Lemmas.DocFacts Gen.dialects Gen.parserTable :=
  ⟨C03P_fact_dialects, C03P_fact_content, C03D_fact_content_rows, C03P_fact_doc_opens, C03D_fact_doc_body,
   C03D_fact_doc_start⟩

/-- **C13 at document level, tree form.**  For an accepted document there is a token tree `t` as in
    `C03_parse_is_astOf` (document tree over the tokens handed to the builder, derivation tree of
    the grammar, the returned document is its fold) in which EVERY `DocString` node has as children
    exactly the leaves `opening separator, content lines …, closing separator, blank / comment
    lines …` (`Spec.DocSeq`): consecutive physical lines (`Spec.DocSeqNo`); the opening line starts
    with a delimiter `sep`, its token carries `sep` and the media type; each content line is read as
    `Other`, does not start with `sep`, and its text is `C13_content_line` under `sep` and the
    opening line's indentation; the closing line starts with `sep`; what follows it inside the node
    are blank lines and comments only.  (`docNodesP` is a recursion over the tree; `C13_docstring_at`
    reads it off at any subtree.) -/
theorem C13_in_document (μ : MState) (ids : Nat) (src : Str)
    (hμ : (μ.reset Gen.dialects).dialect ∈ Gen.dialects) (d : Doc)
    (h : (parseWith Gen.dialects Gen.parserTable false μ ids src).1 = .ok d) :
    let ctx := (parseWith Gen.dialects Gen.parserTable false μ ids src).2
    ∃ t : TTree, t.isDocument = true ∧ leaves t = ctx.builds ∧
      ValidTree Gen.grammar .GherkinDocument t.kinds ∧
      (astOf (commentsOf t) t).run.run ids = (.ok (.doc d), ctx.ids) ∧
      docNodesP DocSeqNo t := by
  obtain ⟨t, ⟨h1, h2, h3, -, -, -, h7⟩, h8⟩ :=
    Lemmas.parse_link_doc C03P_facts C03D_doc_facts C03P_fact_builds μ ids src hμ d h
  exact ⟨t, h1, h2, h3, h7, h8⟩

/-- generic form: `Lemmas.DocFacts D T` bundles `textDialectFacts D`, `contentEntry T`, the content
    rows fact, `docStringOpens T`, `docBodyFacts T`, `docStartFacts T` -/
theorem C13_in_document_generic (D : List Dialect) (T : Table) (G : Grammar) (fuel : Nat)
    (L : Lemmas.LinkFacts D T G fuel) (F : Lemmas.DocFacts D T) (hB : Spec.oneBuildLast T = true)
    (μ : MState) (ids : Nat) (src : Str) (hμ : (μ.reset D).dialect ∈ D) (d : Doc)
    (h : (parseWith D T false μ ids src).1 = .ok d) :
    ∃ t, Lemmas.LinkTree D T G (μ.reset D) (splitLines src) d (parseWith D T false μ ids src).2.builds ids
      (parseWith D T false μ ids src).2.ids t ∧ docNodesP DocSeqNo t :=
  Lemmas.parse_link_doc L F hB μ ids src hμ d h

/-- every `DocString` node anywhere in such a tree -/
theorem C13_docstring_at (P : List Token → Prop) (t : TTree) (ht : docNodesP P t) (ch : List TTree)
    (h : SubT (.node .DocString ch) t) : ∃ bs, ch = bs.map .leaf ∧ P bs :=
  Lemmas.docNodesP_at ht h

/-- **… and its value in the AST** (`C13_docstring_node` composed): the fold `astOf` of a `DocString`
    node with these children is the doc string located at the opening separator, whose content is
    the content lines' texts joined by line feeds, whose delimiter is the opening delimiter and
    whose media type is the rest of the opening line (absent iff empty); no id is drawn; blank
    lines and comments after the closing separator contribute nothing.  (That this value becomes
    the `arg` of the enclosing step is the definition of `astOf` / `transformNode` for `Step`.) -/
theorem C13_docstring_value (cs : List Comment) (o : Token) (xs : List Token) (c : Token) (ys : List Token)
    (sep lo : Str) (ho : DocOpen o sep lo) (hxs : ∀ x ∈ xs, DocLine sep (lineIndent lo) x)
    (hc : DocClose sep c) (hys : ∀ y ∈ ys, DocTrail y) (n : Nat) :
    (astOf cs (.node .DocString ((o :: (xs ++ c :: ys)).map .leaf))).run.run n =
      (.ok (.docString
        { loc := o.loc,
          content := joinWith [10] (xs.map fun x => docLineText sep (lineIndent lo) (x.line.getD [])),
          delimiter := sep,
          mediaType := if rstripCRLF (strip ((trimmed lo).drop 3)) = [] then none
                       else some (rstripCRLF (strip ((trimmed lo).drop 3))) }), n) :=
  Lemmas.docNode_value cs o xs c ys sep lo ho hxs hc hys n

/-! ### (4) the feature's language -/

/-- **C05 at document level.**  If the AST of an accepted document has a feature `f`, there is a line
    `i` read as `FeatureLine` whose token carries `f.language` as its dialect, and `f.language` is the
    dialect name in force at that line: the name in the last `# language:` header read as such
    before line `i`, else the name of the reset matcher (`C05_dialect_reported`,
    `C05_language_switch`; no table fact is needed: `Language` being tested in state 0 only,
    `C05_language_only_at_start`, merely says that at most one header is honoured). -/
theorem C05_feature_language (μ : MState) (ids : Nat) (src : Str)
    (hμ : (μ.reset Gen.dialects).dialect ∈ Gen.dialects) (d : Doc)
    (h : (parseWith Gen.dialects Gen.parserTable false μ ids src).1 = .ok d) (f : Feature)
    (hf : d.feature = some f) :
    ∃ toks e i tk, (parseWith Gen.dialects Gen.parserTable false μ ids src).2.builds = toks ++ [e] ∧
      toks[i]? = some tk ∧ tk.mtype = some .FeatureLine ∧ tk.dialect = f.language ∧
      f.language = nameAt (μ.reset Gen.dialects).name (splitLines src) toks i :=
  Lemmas.feature_language C03P_facts C03P_fact_builds C03D_fact_content_rows μ ids src hμ d h f hf

/-- … which is the reset matcher's name when no line before it was read as a language header. -/
theorem C05_feature_language_default (dflt : Str) (ls : List Str) (toks : List Token) (i : Nat)
    (h : ∀ j tk, j < i → toks[j]? = some tk → tk.mtype ≠ some .Language) : nameAt dflt ls toks i = dflt :=
  Lemmas.nameAt_default dflt ls toks i h

/-- generic form -/
theorem C05_feature_language_generic (D : List Dialect) (T : Table) (G : Grammar) (fuel : Nat)
    (L : Lemmas.LinkFacts D T G fuel) (hB : Spec.oneBuildLast T = true)
    (hCR : ((Spec.contentStates T).all fun s => (T.row? s).any Spec.isContentRow) = true)
    (μ : MState) (ids : Nat) (src : Str) (hμ : (μ.reset D).dialect ∈ D) (d : Doc)
    (h : (parseWith D T false μ ids src).1 = .ok d) (f : Feature) (hf : d.feature = some f) :
    ∃ toks e i tk, (parseWith D T false μ ids src).2.builds = toks ++ [e] ∧ toks[i]? = some tk ∧
      tk.mtype = some .FeatureLine ∧ tk.dialect = f.language ∧
      f.language = nameAt (μ.reset D).name (splitLines src) toks i :=
  Lemmas.feature_language L hB hCR μ ids src hμ d h f hf

/-! ### non-vacuity -/
section examples

/-- a document with a header after a comment, a doc string followed by a blank line and a comment -/
def C03D_demo : Str :=
  lit "# c\n#language: fr\nFonctionnalité: f\n  Scénario: s\n    Soit x\n      ```\n  Given y\n      ```\n\n  # d\n    Et z\n"

/-- the demo is accepted; its feature's language is the header's `fr` although the matcher was
    made for `en`; the doc string's content line lost only its own (smaller) indentation; its
    element locations: feature 3:1, scenario 4:3, step 5:5, doc string 6:7, step 11:5 -/
example : (MState.init Gen.dialects (lit "en")).map (fun μ =>
      match (parseWith Gen.dialects Gen.parserTable false μ 0 C03D_demo).1 with
      | .ok d => (d.feature.map (·.language), (srcLocs d).map fun l => (l.line, l.col.getD 0),
          d.comments.map fun c => (c.loc.line, c.loc.col.getD 0))
      | _ => (none, [], [])) =
    some (some (lit "fr"), [(3, 1), (4, 3), (5, 5), (6, 7), (11, 5)], [(1, 1), (10, 1)]) := by kdecide

/-- the counterexample to the planned shape `[open] ++ content ++ [close]`: the blank line and the
    comment after the closing separator are children of the `DocString` node -/
example :
    (eventsAbs Gen.parserTable [.FeatureLine, .ScenarioLine, .StepLine, .DocStringSeparator, .Other,
        .DocStringSeparator, .Empty, .Comment, .StepLine]).bind Spec.treeOf
      = some (.node .GherkinDocument
          [.node .Feature
            [.node .FeatureHeader [.leaf .FeatureLine],
             .node .ScenarioDefinition
               [.node .Scenario
                  [.leaf .ScenarioLine,
                   .node .Step [.leaf .StepLine,
                     .node .DocString [.leaf .DocStringSeparator, .leaf .Other, .leaf .DocStringSeparator,
                       .leaf .Empty, .leaf .Comment]],
                   .node .Step [.leaf .StepLine]]]],
           .leaf .EOF]) := by
  rfl

/-- `docLineText` on the demo's content line: opening indentation 6, the line's own 2 -/
example : docLineText bt3 6 (lit "  Given y\n") = lit "Given y" := by kdecide

end examples

end GV
