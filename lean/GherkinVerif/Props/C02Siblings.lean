/-
  Props/C02Siblings.lean — property C02, third sentence: the generated Python state machine has
  the same transitions as the Java, Go, Ruby, C and TypeScript parsers generated from the same
  grammar.  All six tables are regenerated from the current sources on every run; the
  quantifier is over programs (finite), so `decide +kernel` on the whole tables is the proof.
-/
import GherkinVerif.Spec.TableEq
import GherkinVerif.Gen.ParserTable
import GherkinVerif.Gen.Siblings
import GherkinVerif.KDecide
namespace GV

theorem C02_sibling_java : Spec.tableEq Gen.parserTable Gen.sibling_java = true := by kdecide
theorem C02_sibling_go : Spec.tableEq Gen.parserTable Gen.sibling_go = true := by kdecide
theorem C02_sibling_ruby : Spec.tableEq Gen.parserTable Gen.sibling_ruby = true := by kdecide
theorem C02_sibling_c : Spec.tableEq Gen.parserTable Gen.sibling_c = true := by kdecide
theorem C02_sibling_ts : Spec.tableEq Gen.parserTable Gen.sibling_ts = true := by kdecide

theorem C02_siblings_equal :
    Spec.tableEq Gen.parserTable Gen.sibling_java = true ∧ Spec.tableEq Gen.parserTable Gen.sibling_go = true ∧
    Spec.tableEq Gen.parserTable Gen.sibling_ruby = true ∧ Spec.tableEq Gen.parserTable Gen.sibling_c = true ∧
    Spec.tableEq Gen.parserTable Gen.sibling_ts = true :=
  ⟨C02_sibling_java, C02_sibling_go, C02_sibling_ruby, C02_sibling_c, C02_sibling_ts⟩

/-- non-vacuity: the relation is not trivially true — retargeting one branch breaks it -/
example : Spec.branchEq ⟨.EOF, none, [.build], 34⟩ ⟨.EOF, none, [.build], 33⟩ = false := by decide

end GV
