/-
  Props/C03.lean — property C03: the AST carries every element of the document once, in order,
  with exact text.  Property theorems only; helper lemmas live in Lemmas/Builder.lean.

  STATUS: node-level theorems; whole-document composition not yet proved.  What is proved here
  holds for ALL item lists, tokens and counters: (1) a node's sub-items of one kind are kept in
  insertion order (= source order: the builder is fed tokens and `end_rule`s in source order);
  (2) comments are collected aside and never enter a node; (3) for every rule type, what
  `transformNode` makes of a node, field by field, in terms of the node's items; (4) steps and
  backgrounds crash exactly when a needed token or field is missing — nothing is defaulted.
  Not proved here: that the stack machine run over a derivation tree is a fold (`C03_ast_of_tree`),
  `C03_leaves_once_in_order`, the text-level field rules (`name = strip (rest of line)`, these are
  facts about the matcher), and the generator round trip (DESIGN.md §C03).

  Vocabulary (defined at the top of Lemmas/Builder.lean, all pure readings of an item list):
  `Spec.descOf` (the first `Description` item or `[]`), `Spec.tagTokens` (the tag lines of the
  `Tags` item), `Spec.numberTags` / `Spec.numberRows` (tags / rows numbered consecutively),
  `Spec.stepArgOf`, `Spec.tableOf`, `Spec.featureOf`, `Spec.getExamples`, `Spec.getRules`.
-/
import GherkinVerif.Lemmas.Builder
namespace GV
open Spec

/-! ### sub-items keep their order -/

/-- `_sub_items[k]` is an order-preserving reading of the insertion-ordered item list: it
    distributes over concatenation (so nothing is reordered, dropped or duplicated); adding an
    item of key `k` at the end adds it at the end of `_sub_items[k]`; adding an item of another
    key leaves `_sub_items[k]` alone. -/
theorem C03_children_in_order (items more : List (Key × Val)) (k k' : Key) (v : Val) :
    getItems (items ++ more) k = getItems items k ++ getItems more k ∧
    getItems (items ++ [(k, v)]) k = getItems items k ++ [v] ∧
    (k' ≠ k → getItems (items ++ [(k', v)]) k = getItems items k) :=
  ⟨Lemmas.getItems_append items more k, Lemmas.getItems_snoc_same items k v,
   Lemmas.getItems_snoc_other items k k' v⟩

/-- `add` on the current node appends at the end of the top node and touches nothing else;
    on an empty stack it fails. -/
theorem C03_addToTop_appends (top : Node) (rest : List Node) (k : Key) (v : Val) :
    addToTop (top :: rest) k v = some (⟨top.rt, top.items ++ [(k, v)]⟩ :: rest) ∧
    addToTop [] k v = none :=
  ⟨rfl, rfl⟩

/-- `build` of a matched non-comment token appends the token, under its kind, at the end of the
    current node: after everything added earlier.  The rest of the stack and the comments are
    unchanged. -/
theorem C03_build_appends (β : BState) (t : Token) (k : Kind) (top : Node) (rest : List Node)
    (hk : t.mtype = some k) (hc : k ≠ .Comment) (hs : β.stack = top :: rest) :
    β.build t = .ok { stack := ⟨top.rt, top.items ++ [(.tok k, .tok t)]⟩ :: rest, comments := β.comments } :=
  Lemmas.build_token β t k top rest hk hc hs

/-- … hence the tokens of that kind held by the current node grow by exactly this token, last. -/
theorem C03_build_tokens_in_order (items : List (Key × Val)) (k : Kind) (t : Token) :
    getTokens (items ++ [(.tok k, .tok t)]) k = getTokens items k ++ [t] :=
  Lemmas.getTokens_snoc_same items k t

/-- A successful `end_rule` pops the finished node and appends its transformed value, under its
    rule type, at the end of the parent node; the counter is the one `transformNode` left. -/
theorem C03_endRule_appends (β : BState) (node parent : Node) (rest : List Node) (n n' : Nat) (v : Val)
    (hs : β.stack = node :: parent :: rest)
    (h : (transformNode β.comments node).run.run n = (.ok v, n')) :
    β.endRule n = (.ok (), { stack := ⟨parent.rt, parent.items ++ [(.rule node.rt, v)]⟩ :: rest,
                             comments := β.comments }, n') :=
  Lemmas.endRule_ok β node parent rest n n' v hs h

/-- … hence finished steps, scenarios, examples blocks and rules are listed in the order in which
    they were finished (= source order). -/
theorem C03_finished_children_in_order (items : List (Key × Val))
    (s : Step) (sc : Scenario) (e : Examples) (r : Rule) :
    getSteps (items ++ [(.rule .Step, .step s)]) = getSteps items ++ [s] ∧
    getScenarios (items ++ [(.rule .ScenarioDefinition, .scenario sc)]) = getScenarios items ++ [sc] ∧
    getExamples (items ++ [(.rule .ExamplesDefinition, .examples e)]) = getExamples items ++ [e] ∧
    getRules (items ++ [(.rule .Rule, .rule r)]) = getRules items ++ [r] :=
  ⟨Lemmas.getSteps_snoc items s, Lemmas.getScenarios_snoc items sc,
   Lemmas.getExamples_snoc items e, Lemmas.getRules_snoc items r⟩

/-- `get_single` returns the FIRST item of the key (`None` if there is none), and later additions
    never change it. -/
theorem C03_getSingle_first (items more : List (Key × Val)) (k : Key) :
    getSingle items k = (getItems items k).headD .none ∧
    (getItems items k ≠ [] → getSingle (items ++ more) k = getSingle items k) :=
  ⟨Lemmas.getSingle_eq_head items k, Lemmas.getSingle_append_of_ne_nil items more k⟩

/-! ### comments -/

/-- `build` of a comment token appends `{location, text}` at the end of the comment list and
    leaves the stack unchanged: comments never enter a node. -/
theorem C03_comments (β : BState) (t : Token) (tx : Str)
    (hk : t.mtype = some .Comment) (ht : t.text = some tx) :
    β.build t = .ok { stack := β.stack, comments := β.comments ++ [{ loc := getLocation t, text := tx }] } :=
  Lemmas.build_comment β t tx hk ht

/-! ### what each rule type becomes -/

/-- A description is the `Other` lines of the node joined by line feeds after trimming, and draws
    no id. -/
theorem C03_description (cs : List Comment) (items : List (Key × Val)) (ls : List Str) (n : Nat)
    (h : (getTokens items .Other).map (·.text) = ls.map some) :
    (transformNode cs ⟨.Description, items⟩).run.run n =
      (.ok (.descr (joinWith [10] (trimDescLines ls))), n) :=
  Lemmas.description_eq cs items ls n h

/-- Trimming: the result is a prefix of the lines, every dropped line is whitespace-only, and the
    result does not end in a whitespace-only line (so trailing blank lines are dropped and blank
    lines inside are kept). -/
theorem C03_description_trim (ls : List Str) :
    (∃ dropped, ls = trimDescLines ls ++ dropped ∧ ∀ l ∈ dropped, (strip l).isEmpty = true) ∧
    (∀ l, (trimDescLines ls).getLast? = some l → (strip l).isEmpty = false) :=
  Lemmas.trimDescLines_spec ls

/-- … and these two facts determine the result. -/
theorem C03_description_trim_unique (ls r dropped : List Str) (h : ls = r ++ dropped)
    (hd : ∀ l ∈ dropped, (strip l).isEmpty = true)
    (hr : ∀ l, r.getLast? = some l → (strip l).isEmpty = false) : trimDescLines ls = r :=
  Lemmas.trimDescLines_unique ls r dropped h hd hr

/-- Step: keyword, keyword type and text are those of the node's (first) step-line token, the
    location is that token's, the argument is the data table if present, else the doc string,
    else none. -/
theorem C03_step (cs : List Comment) (items : List (Key × Val)) (n : Nat) (line : Token)
    (kw tx : Str) (kt : KType)
    (hl : getSingle items (.tok .StepLine) = .tok line)
    (hk : line.keyword = some kw) (hkt : line.ktype = some kt) (ht : line.text = some tx) :
    (transformNode cs ⟨.Step, items⟩).run.run n =
      (.ok (.step { id := n, loc := getLocation line, keyword := kw, ktype := kt, text := tx,
                    arg := stepArgOf items }), n + 1) :=
  Lemmas.step_eq cs items n line kw tx kt hl hk hkt ht

/-- Doc string: located at the first separator, content = the `Other` lines joined by line feeds,
    delimiter = the separator's keyword, media type = the separator's text unless empty. -/
theorem C03_docstring (cs : List Comment) (items : List (Key × Val)) (sep : Token) (rest : List Token)
    (st dl : Str) (ls : List Str) (n : Nat)
    (hsep : getTokens items .DocStringSeparator = sep :: rest)
    (hst : sep.text = some st) (hdl : sep.keyword = some dl)
    (h : (getTokens items .Other).map (·.text) = ls.map some) :
    (transformNode cs ⟨.DocString, items⟩).run.run n =
      (.ok (.docString { loc := getLocation sep, content := joinWith [10] ls, delimiter := dl,
                         mediaType := if st.length > 0 then some st else none }), n) :=
  Lemmas.docString_eq cs items sep rest st dl ls n hsep hst hdl h

/-- Data table (rectangular, at least one row): located at the first row; one row per row token,
    in order, each with the token's location and its cells. -/
theorem C03_datatable (cs : List Comment) (items : List (Key × Val)) (n : Nat) (t0 : Token) (rest : List Token)
    (ht : getTokens items .TableRow = t0 :: rest)
    (hrect : ∀ t ∈ rest, t.items.length = t0.items.length) :
    (transformNode cs ⟨.DataTable, items⟩).run.run n =
      (.ok (.dataTable { loc := getLocation t0, rows := numberRows (t0 :: rest) n }), n + (rest.length + 1)) :=
  Lemmas.dataTable_eq cs items n t0 rest ht hrect

/-- Rows and cells are the row tokens' items: row `i` has the location of token `i`; its cells
    are the token's `(column, text)` items, each located by `get_location(token, column)` — which
    is `(token line, column)` for every column other than 0 (columns are 1-based). -/
theorem C03_rows_cells (toks : List Token) (n : Nat) (t : Token) (c : Nat) (hc : c ≠ 0) :
    (numberRows toks n).map (fun r => (r.loc, r.cells)) = toks.map (fun t => (getLocation t, getCells t)) ∧
    getCells t = t.items.map (fun it => { loc := getLocation t (some it.1), value := it.2 }) ∧
    getLocation t (some c) = ⟨t.lineNo, some c⟩ ∧ getLocation t = ⟨t.lineNo, t.col⟩ := by
  refine ⟨Lemmas.numberRows_content toks n, rfl, ?_, rfl⟩
  simp [getLocation, hc]

/-- Background: keyword and name from its keyword line, the node's description, its steps in order. -/
theorem C03_background (cs : List Comment) (items : List (Key × Val)) (n : Nat) (line : Token)
    (kw nm d : Str)
    (hl : getSingle items (.tok .BackgroundLine) = .tok line) (hd : descOf items = some d)
    (hk : line.keyword = some kw) (hn : line.text = some nm) :
    (transformNode cs ⟨.Background, items⟩).run.run n =
      (.ok (.background { id := n, loc := getLocation line, keyword := kw, name := nm,
                          description := d, steps := getSteps items }), n + 1) :=
  Lemmas.background_eq cs items n line kw nm d hl hd hk hn

/-- Scenario: the tags of the definition's tag lines (numbered first), then keyword, name,
    location from the scenario line; description, steps in order and examples in order from the
    inner `Scenario` node. -/
theorem C03_scenario (cs : List Comment) (items sc : List (Key × Val)) (n : Nat) (toks : List Token)
    (rt : RuleType) (line : Token) (kw nm d : Str)
    (htags : tagTokens items = some toks)
    (hs : getSingle items (.rule .Scenario) = .raw rt sc)
    (hl : getSingle sc (.tok .ScenarioLine) = .tok line) (hd : descOf sc = some d)
    (hk : line.keyword = some kw) (hn : line.text = some nm) :
    (transformNode cs ⟨.ScenarioDefinition, items⟩).run.run n =
      (.ok (.scenario { id := n + tagCount toks, tags := numberTags toks n, loc := getLocation line,
                        keyword := kw, name := nm, description := d, steps := getSteps sc,
                        examples := getExamples sc }), n + tagCount toks + 1) :=
  Lemmas.scenario_eq cs items sc n toks rt line kw nm d htags hs hl hd hk hn

/-- Examples: header = first row of the `ExamplesTable` item, body = the remaining rows. -/
theorem C03_examples (cs : List Comment) (items ex : List (Key × Val)) (n : Nat) (toks : List Token)
    (rt : RuleType) (line : Token) (kw nm d : Str)
    (htags : tagTokens items = some toks)
    (hs : getSingle items (.rule .Examples) = .raw rt ex)
    (hl : getSingle ex (.tok .ExamplesLine) = .tok line) (hd : descOf ex = some d)
    (hk : line.keyword = some kw) (hn : line.text = some nm) :
    (transformNode cs ⟨.ExamplesDefinition, items⟩).run.run n =
      (.ok (.examples { id := n + tagCount toks, tags := numberTags toks n, loc := getLocation line,
                        keyword := kw, name := nm, description := d,
                        header := (tableOf ex).head?, body := (tableOf ex).drop 1 }),
       n + tagCount toks + 1) :=
  Lemmas.examples_eq cs items ex n toks rt line kw nm d htags hs hl hd hk hn

/-- … and without a table there is no header and an empty body. -/
theorem C03_examples_no_table (ex : List (Key × Val)) (h : getItems ex (.rule .ExamplesTable) = []) :
    (tableOf ex).head? = none ∧ (tableOf ex).drop 1 = [] := by
  simp [tableOf, Lemmas.getSingle_of_nil ex _ h]

/-- The rows of an examples table are one per row token, in order (and the table is accepted
    only if rectangular). -/
theorem C03_examples_table (cs : List Comment) (items : List (Key × Val)) (n : Nat)
    (hrect : ∀ t ∈ getTokens items .TableRow, ∀ t0, (getTokens items .TableRow).head? = some t0 →
      t.items.length = t0.items.length) :
    (transformNode cs ⟨.ExamplesTable, items⟩).run.run n =
      (.ok (.rows (numberRows (getTokens items .TableRow) n)), n + (getTokens items .TableRow).length) :=
  Lemmas.examplesTable_eq cs items n hrect

/-- Rule: tags, keyword, name, location, description from its header; children = the background
    (if any) first, then the scenarios in order. -/
theorem C03_rule (cs : List Comment) (items header : List (Key × Val)) (n : Nat) (toks : List Token)
    (rt : RuleType) (line : Token) (kw nm d : Str)
    (hh : getSingle items (.rule .RuleHeader) = .raw rt header)
    (htags : tagTokens header = some toks)
    (hl : getSingle header (.tok .RuleLine) = .tok line) (hd : descOf header = some d)
    (hk : line.keyword = some kw) (hn : line.text = some nm) :
    (transformNode cs ⟨.Rule, items⟩).run.run n =
      (.ok (.rule { id := n + tagCount toks, tags := numberTags toks n, loc := getLocation line,
                    keyword := kw, name := nm, description := d,
                    children := (getBackground items).toList.map RuleChild.background ++
                                (getScenarios items).map RuleChild.scenario }),
       n + tagCount toks + 1) :=
  Lemmas.rule_eq cs items header n toks rt line kw nm d hh htags hl hd hk hn

/-- Feature: as a rule, plus `language` = the dialect recorded on the feature line; children =
    background, then scenarios, then rules, each in order.  A feature has no id of its own. -/
theorem C03_feature (cs : List Comment) (items header : List (Key × Val)) (n : Nat) (toks : List Token)
    (rt : RuleType) (line : Token) (kw nm d : Str)
    (hh : getSingle items (.rule .FeatureHeader) = .raw rt header)
    (htags : tagTokens header = some toks)
    (hl : getSingle header (.tok .FeatureLine) = .tok line) (hd : descOf header = some d)
    (hk : line.keyword = some kw) (hn : line.text = some nm) :
    (transformNode cs ⟨.Feature, items⟩).run.run n =
      (.ok (.feature { tags := numberTags toks n, loc := getLocation line, language := line.dialect,
                       keyword := kw, name := nm, description := d,
                       children := (getBackground items).toList.map FeatureChild.background ++
                                   (getScenarios items).map FeatureChild.scenario ++
                                   (getRules items).map FeatureChild.rule }),
       n + tagCount toks) :=
  Lemmas.feature_eq cs items header n toks rt line kw nm d hh htags hl hd hk hn

/-- Document: the feature (if any) plus the comments collected so far; always succeeds, no id. -/
theorem C03_document (cs : List Comment) (items : List (Key × Val)) (n : Nat) :
    (transformNode cs ⟨.GherkinDocument, items⟩).run.run n =
      (.ok (.doc { feature := featureOf items, comments := cs }), n) :=
  Lemmas.document_eq cs items n

/-- Tags carry the location and name of the tag items, line by line, left to right. -/
theorem C03_tags (toks : List Token) (n : Nat) :
    (numberTags toks n).map (fun t => (t.loc, t.name)) =
      toks.flatMap fun t => t.items.map fun it => (getLocation t (some it.1), it.2) :=
  Lemmas.numberTags_content toks n

/-! ### crashes are explicit, never defaulted -/

/-- A step crashes exactly when its step-line token is missing or one of the three fields it
    needs is absent; it never raises a parser error. -/
theorem C03_crash_only_when_step (cs : List Comment) (items : List (Key × Val)) (n : Nat) :
    ((∃ s, ((transformNode cs ⟨.Step, items⟩).run.run n).1 = .error (.crash s)) ↔
      ∀ line, getSingle items (.tok .StepLine) = .tok line →
        line.keyword = none ∨ line.ktype = none ∨ line.text = none) ∧
    (∀ e, ((transformNode cs ⟨.Step, items⟩).run.run n).1 = .error e → ∃ s, e = .crash s) :=
  ⟨Lemmas.step_crash_iff cs items n, Lemmas.onlyCrash_step cs items n⟩

/-- A background crashes exactly when its keyword-line token is missing, one of the two fields it
    needs is absent, or its `Description` item is not a description string (the last never
    happens for items built by `transformNode`, see `C03_description`). -/
theorem C03_crash_only_when_background (cs : List Comment) (items : List (Key × Val)) (n : Nat) :
    ((∃ s, ((transformNode cs ⟨.Background, items⟩).run.run n).1 = .error (.crash s)) ↔
      (descOf items = none ∨
       ∀ line, getSingle items (.tok .BackgroundLine) = .tok line →
        line.keyword = none ∨ line.text = none)) ∧
    (∀ e, ((transformNode cs ⟨.Background, items⟩).run.run n).1 = .error e → ∃ s, e = .crash s) :=
  ⟨Lemmas.background_crash_iff cs items n, Lemmas.onlyCrash_background cs items n⟩

/-- Both together: crashes are explicit and happen only for a missing token or field. -/
theorem C03_crash_only_when (cs : List Comment) (items : List (Key × Val)) (n : Nat) :
    ((∃ s, ((transformNode cs ⟨.Step, items⟩).run.run n).1 = .error (.crash s)) ↔
      ∀ line, getSingle items (.tok .StepLine) = .tok line →
        line.keyword = none ∨ line.ktype = none ∨ line.text = none) ∧
    ((∃ s, ((transformNode cs ⟨.Background, items⟩).run.run n).1 = .error (.crash s)) ↔
      (descOf items = none ∨
       ∀ line, getSingle items (.tok .BackgroundLine) = .tok line →
        line.keyword = none ∨ line.text = none)) :=
  ⟨(C03_crash_only_when_step cs items n).1, (C03_crash_only_when_background cs items n).1⟩

/-- `descOf` is `none` only for an item no `transformNode` call produces: a `Description` item
    that is present and is not a description string. -/
theorem C03_descOf_none_iff (items : List (Key × Val)) :
    descOf items = none ↔ ∃ v vs, getItems items (.rule .Description) = v :: vs ∧ ∀ s, v ≠ .descr s :=
  Lemmas.descOf_none_iff items

/-! ### non-vacuity: concrete small nodes -/
section examples
open Lemmas.Ex

/-- three insertions, two keys: each key's list is in insertion order -/
example : getTokens [(.tok .TableRow, .tok rowTok1), (.tok .Other, .tok (otherTok 1 "x")),
    (.tok .TableRow, .tok rowTok2)] .TableRow = [rowTok1, rowTok2] := rfl

/-- a step token goes to the end of the top node -/
example : (BState.build { stack := [⟨.Step, [(.tok .Other, .tok (otherTok 1 "x"))]⟩] } stepTok).toOption.map (·.stack.map (·.items.length))
    = some [2] := rfl

/-- a comment goes to the comment list, the stack is untouched -/
example : (BState.build {} commentTok).toOption.map (fun β => (β.comments, β.stack.map (·.items.length)))
    = some ([{ loc := ⟨2, some 1⟩, text := lit "# hi" }], [0]) := by decide

/-- the hypotheses of `C03_step` are satisfiable, and the equation computes -/
example : (transformNode [] ⟨.Step, [(.tok .StepLine, .tok stepTok)]⟩).run.run 7 =
    (.ok (.step { id := 7, loc := ⟨3, some 3⟩, keyword := lit "Given ", ktype := .Context,
                  text := lit "x", arg := .none }), 8) :=
  C03_step [] _ 7 stepTok _ _ _ rfl rfl rfl rfl

/-- a step line without keyword type crashes, with the id consumed; so does a missing step line -/
example : (transformNode [] ⟨.Step, [(.tok .StepLine, .tok badStepTok)]⟩).run.run 7 =
    (.error (.crash "missing field step.keywordType"), 8) := rfl
example : ∃ s, ((transformNode [] ⟨.Step, []⟩).run.run 7).1 = .error (.crash s) :=
  (C03_crash_only_when_step [] [] 7).1.2 (fun _ h => by cases h)

/-- description: inner blank line kept, trailing whitespace-only lines dropped, text verbatim -/
example : (transformNode [] ⟨.Description, [(.tok .Other, .tok (otherTok 2 "  a")),
      (.tok .Other, .tok (otherTok 3 "")), (.tok .Other, .tok (otherTok 4 "b ")),
      (.tok .Other, .tok (otherTok 5 "  ")), (.tok .Other, .tok (otherTok 6 ""))]⟩).run.run 7 =
    (.ok (.descr (lit "  a

b ")), 7) :=
  C03_description [] _ [lit "  a", [], lit "b ", lit "  ", []] 7 rfl
example : trimDescLines [lit "  a", [], lit "b ", lit "  ", []] = [lit "  a", [], lit "b "] := by decide

/-- scenario with two tag lines: hypotheses satisfiable -/
example : (transformNode [] ⟨.ScenarioDefinition, [(.rule .Tags, tagsVal),
      (.rule .Scenario, .raw .Scenario [(.tok .ScenarioLine, .tok scTok)])]⟩).run.run 7 =
    (.ok (.scenario { id := 10, tags := numberTags [tagTok1, tagTok2] 7, loc := ⟨5, some 1⟩,
                      keyword := lit "Scenario", name := lit "s", description := [], steps := [],
                      examples := [] }), 11) :=
  C03_scenario [] _ [(.tok .ScenarioLine, .tok scTok)] 7 [tagTok1, tagTok2] .Scenario scTok _ _ [] rfl rfl rfl rfl rfl rfl

/-- a rectangular two-row data table -/
example : (transformNode [] ⟨.DataTable, [(.tok .TableRow, .tok rowTok1), (.tok .TableRow, .tok rowTok2)]⟩).run.run 7 =
    (.ok (.dataTable { loc := ⟨9, some 1⟩, rows := numberRows [rowTok1, rowTok2] 7 }), 9) :=
  C03_datatable [] _ 7 rowTok1 [rowTok2] rfl (by decide)

/-- background whose `Description` item is not a string crashes (cannot be built by `transformNode`) -/
example : descOf [(.tok .BackgroundLine, .tok bgTok), (.rule .Description, .none)] = none := rfl

/-- rule children: background first, then scenarios -/
example (b : Background) (s1 s2 : Scenario) :
    (transformNode [] ⟨.Rule, [(.rule .RuleHeader, .raw .RuleHeader [(.tok .RuleLine, .tok ruleTok)]),
      (.rule .ScenarioDefinition, .scenario s1), (.rule .Background, .background b),
      (.rule .ScenarioDefinition, .scenario s2)]⟩).run.run 0 =
    (.ok (.rule { id := 0, tags := [], loc := ⟨4, some 1⟩, keyword := lit "Rule", name := lit "r",
                  description := [], children := [.background b, .scenario s1, .scenario s2] }), 1) :=
  C03_rule [] _ _ 0 [] .RuleHeader ruleTok _ _ _ rfl rfl rfl rfl rfl rfl

end examples

end GV
