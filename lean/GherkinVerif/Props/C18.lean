/-
  Props/C18.lean — property C18: the builder sees each source line exactly once, in order, then
  one EOF.

  Proved: every token the main loop reads is either handed to the builder or reported as
  unexpected, never both, never neither (up to the abort that ends a rejected parse), for every
  table whose branches build exactly once; for accepted documents the builder receives exactly
  the tokens read.  NOT yet proved: that the tokens are read in line order 1,2,3,… through the
  look-ahead queue (`C18_reads_in_order`; needs matcher determinism and the tag-state facts) —
  the ghost fields `reads`/`builds`/`unexpected` are compared with the real parser by the
  correspondence stream instead.
-/
import GherkinVerif.Lemmas.Glue
import GherkinVerif.Spec.TableFacts
import GherkinVerif.Gen.ParserTable
import GherkinVerif.KDecide
namespace GV

theorem C18_fact_one_build : Spec.oneBuildLast Gen.parserTable = true := by kdecide

/-- For an accepted document the builder received exactly the tokens the main loop read, in the
    order read, each once. -/
theorem C18_accepted_builds_eq_reads (D : List Dialect) (T : Table) (hT : Spec.oneBuildLast T = true)
    (stop : Bool) (μ : MState) (ids : Nat) (src : Str) (d : Doc)
    (h : (parseWith D T stop μ ids src).1 = .ok d) :
    (parseWith D T stop μ ids src).2.builds.map (·.lineNo) = (parseWith D T stop μ ids src).2.reads ∧
    (parseWith D T stop μ ids src).2.unexpected = [] :=
  Lemmas.accepted_builds_eq_reads D T hT stop μ ids src d h

/-- In general (rejected documents included): built and unexpected tokens partition the tokens
    read — except possibly the very last one read when an error aborts the parse. -/
theorem C18_partition (D : List Dialect) (T : Table) (hT : Spec.oneBuildLast T = true)
    (stop : Bool) (μ : MState) (ids : Nat) (src : Str) :
    let ctx := (parseWith D T stop μ ids src).2
    ((ctx.builds.map (·.lineNo) ++ ctx.unexpected).Perm ctx.reads ∨
     (ctx.builds.map (·.lineNo) ++ ctx.unexpected).Perm ctx.reads.dropLast) ∧
    (ctx.builds.map (·.lineNo)).Sublist ctx.reads ∧ ctx.unexpected.Sublist ctx.reads :=
  Lemmas.partition D T hT stop μ ids src

/-- The look-ahead re-queues exactly what it read: nothing is dropped or duplicated.  The tokens
    waiting in the queue followed by the unread lines are, as line numbers, the same collection
    before and after a look-ahead. -/
theorem C18_lookahead_conserves (D : List Dialect) (cap : Nat) (stop : Bool) (la : LookAhead) (ctx : Ctx) (b : Bool) (ctx' : Ctx)
    (h : (lookahead D cap stop la).run.run ctx = (.ok b, ctx')) :
    (ctx'.queue.map (·.lineNo)).Perm (ctx.queue.map (·.lineNo) ++
      (List.range' (ctx.lineNo + 1) (ctx'.lineNo - ctx.lineNo))) ∧
    ctx'.lines = ctx.lines.drop (ctx'.lineNo - ctx.lineNo) ∧ ctx.lineNo ≤ ctx'.lineNo ∧
    ctx'.builds = ctx.builds ∧ ctx'.reads = ctx.reads :=
  Lemmas.lookahead_conserves D cap stop la ctx b ctx' h

end GV
