/-
  Props/C03Fields.lean — property C03 "with exact text": the CONTENTS of the elements.  The AST
  carries every feature, rule, background, scenario, examples block, step, table row with its
  cells, doc string and tag of the source exactly once, in source order, with the keyword as
  written, the name / step text as the rest of the line with surrounding whitespace removed, the
  cells of the two-phase reading of the row; and nothing that is not in the source.
  Statements and one-line references only; proofs are in Lemmas/AstElems.lean (tree level, a
  refinement of Lemmas/AstLocs.lean) and Lemmas/ParseElems.lean (document level: composition with
  the link `C03_parse_is_astOf`, the tokens `C03_parse_tokens` and the matcher theorems of C04, C05,
  C12, C13).

  Vocabulary (Spec/AstElems.lean, Lemmas/ParseElems.lean):
  * `Spec.Elem`: an element with its fields: `keywordLine kind loc keyword name`,
    `step loc keyword ktype text`, `tag loc name`, `row loc cells`, `docString loc delimiter mediaType`.
  * `Spec.srcElems d`: the elements of the typed AST in source order (the order of `Spec.srcLocs`).
  * `Spec.leafElems tk`: the elements ONE matched line carries, read off its token;
    `Spec.elemsOfTree t`: those of the lines of a token tree, in line order, of the two separators
    of a doc string only the first (the order and multiplicity of `Spec.elemLocs`);
    `Spec.lineElems tk`: `leafElems tk`, except that a closing doc-string separator carries nothing.
  * `Spec.stateAt D μ lines toks i`: the matcher state in force when line `i` is reached (from `μ`,
    moved on by `Spec.muAfter` with the kind each earlier line was read as).  Its `dialect` is the
    dialect in force, its `name` is `Spec.nameAt` (the last `# language:` header, `C03_state_name`).
  * `Spec.ElemFromLine μ l n e`: `e` is an element of the physical line `l`, the `n`-th line, read
    under matcher state `μ` — per kind of element, in terms of the TEXT of the line
    (`C03_from_line_keywordLine` … `C03_from_line_docString` spell the five cases out).

  * `Spec.srcTexts d` / `Spec.textsOfTree t`: the FREE TEXT — the description of every feature, rule,
    background, scenario and examples block and the content of every doc string, each with the
    location of its owner, in source order; on the tree side what each node owns (`Spec.ownTexts`):
    the texts of the `Other` lines of its first `Description` child, trailing whitespace-only lines
    dropped (`trimDescLines`), joined by line feeds — the empty string without such a child; for a
    `DocString` node the texts of its `Other` lines joined by line feeds.

  * `Spec.descNodesP t` / `Spec.DescTok`: every `Description` node of the tree has only lines as children,
    each a comment line or a free-text line read OUTSIDE a doc string, whose text is the physical
    line verbatim minus its line break.  (`Spec.docNodesP DocSeqNo t` is the corresponding statement
    for `DocString` nodes, `C13_in_document`.)  New Boolean table facts, evaluated here:
    `Spec.descStartFacts` (`start_rule(Description)` is directly followed by the `build` that ends the
    production list, occurs only in `Other` / `Comment` tests, from and to states that are not
    doc-string content states) and `Spec.descBodyFacts` (in the states so entered every test starts
    with an `end_rule` or is a build-only `Other` / `Comment` self-loop).
-/
import GherkinVerif.Lemmas.ParseElems
import GherkinVerif.Props.C03Doc
import GherkinVerif.KDecide
namespace GV
open Spec

/-! ### tree level: every element once, in order, with its exact fields -/

/-- **Elements once, in order, with exact fields.**  For a grammar-shaped token tree `t` whose fold
    is the document `d`: the elements of `d` read off in source order, each with its keyword /
    name / text / keyword type / tag name / cells / delimiter / media type, are exactly the
    elements carried by the lines of `t`, line by line: same number, same order, same fields. -/
theorem C03_elems_once_in_order (t : TTree) (hs : GrammarShaped t) (cs : List Comment) (n n' : Nat) (d : Doc)
    (h : (astOf cs t).run.run n = (.ok (.doc d), n')) : srcElems d = elemsOfTree t :=
  Lemmas.elems_once_in_order t hs cs n n' d h

/-- … for every tree projecting to a derivation tree of gherkin.berp. -/
theorem C03_elems_once_accepted (t : TTree) (hv : ValidTree Gen.grammar .GherkinDocument t.kinds)
    (cs : List Comment) (n n' : Nat) (d : Doc) (h : (astOf cs t).run.run n = (.ok (.doc d), n')) :
    srcElems d = elemsOfTree t :=
  Lemmas.elems_once_in_order t (Lemmas.shaped_of_valid_gen t hv) cs n n' d h

/-- The element lists refine the location lists of `C03_leaves_once_in_order`: same order, same
    multiplicity, on both sides. -/
theorem C03_elems_refine_locs (d : Doc) (t : TTree) :
    srcLocs d = (srcElems d).map Elem.loc ∧ elemLocs t = (elemsOfTree t).map Elem.loc :=
  ⟨Lemmas.srcLocs_eq_map d, Lemmas.elemLocs_eq_map t⟩

/-- What one token carries: a keyword line its keyword and text; a step line keyword, keyword type
    and text; a table row its items as cells; an (opening) separator delimiter and media type; a
    tag line one tag per item; any other line nothing. -/
theorem C03_leaf_elems (t : Token) (kw tx dl : Str) (kt : KType) (k : Kind) :
    (k ∈ [Kind.FeatureLine, .RuleLine, .BackgroundLine, .ScenarioLine, .ExamplesLine] → t.mtype = some k →
      t.keyword = some kw → t.text = some tx → leafElems t = [.keywordLine k t.loc kw tx]) ∧
    (t.mtype = some .StepLine → t.keyword = some kw → t.ktype = some kt → t.text = some tx →
      leafElems t = [.step t.loc kw kt tx]) ∧
    (t.mtype = some .TableRow → leafElems t = [.row t.loc (itemPairs t)]) ∧
    (t.mtype = some .DocStringSeparator → t.keyword = some dl → t.text = some tx →
      leafElems t = [.docString t.loc dl (mediaOf tx)]) ∧
    (t.mtype = some .TagLine → leafElems t = t.items.map fun it => .tag (getLocation t (some it.1)) it.2) ∧
    (t.mtype = some k → k ∉ elemKinds → leafElems t = []) :=
  ⟨fun hk hm h1 h2 => Lemmas.leafElems_title t k kw tx hk hm h1 h2,
   fun hm h1 h2 h3 => Lemmas.leafElems_step t kw tx kt hm h1 h2 h3,
   Lemmas.leafElems_row t, fun hm h1 h2 => Lemmas.leafElems_docSep t dl tx hm h1 h2,
   Lemmas.leafElems_tagLine t, Lemmas.leafElems_nonElem t k⟩

/-! ### document level -/

/-- For every accepted document there is a token tree over the tokens handed to the builder,
    projecting to a derivation tree of the grammar, whose elements are those of the AST. -/
theorem C03_parse_elems_once (μ : MState) (ids : Nat) (src : Str)
    (hμ : (μ.reset Gen.dialects).dialect ∈ Gen.dialects) (d : Doc)
    (h : (parseWith Gen.dialects Gen.parserTable false μ ids src).1 = .ok d) :
    ∃ t : TTree, leaves t = (parseWith Gen.dialects Gen.parserTable false μ ids src).2.builds ∧
      ValidTree Gen.grammar .GherkinDocument t.kinds ∧ srcElems d = elemsOfTree t := by
  obtain ⟨t, -, hl, hv, -, -, -, hast⟩ := C03_parse_is_astOf μ ids src hμ d h
  exact ⟨t, hl, hv, C03_elems_once_accepted t hv _ _ _ d hast⟩

/-- **Fields, in the document.**  For every accepted document, with `toks ++ [eof]` the tokens handed
    to the builder (`LineToks`: token `i` is the matcher's output on physical line `i` under the
    matcher state in force there): every element `el` of the AST comes from a physical line
    `l = lines[i]`, under the matcher state `μᵢ = stateAt … i` in force at that line, whose dialect is
    one of the table: `ElemFromLine μᵢ l (i + 1) el` — location line `i + 1`, and
    * a keyword line: the keyword is one of `μᵢ.dialect`'s keywords for the role, the line after its
      indentation reads the keyword + `:`, the name is the rest of the line stripped;
    * a step: the keyword is the FIRST step keyword of `μᵢ.dialect` prefixing the line after its
      indentation, the text is the rest stripped, the keyword type `stepKType μᵢ.dialect kw`;
    * a tag: name `@` + the stripped text after the `@` at its column;
    * a row: the cells of `Spec.cells l`, each at its column;
    * a doc string: delimiter and media type of an opening separator line.
    Nothing that is not in the source appears in the AST. -/
theorem C03_fields_in_document (μ : MState) (ids : Nat) (src : Str)
    (hμ : (μ.reset Gen.dialects).dialect ∈ Gen.dialects) (d : Doc)
    (h : (parseWith Gen.dialects Gen.parserTable false μ ids src).1 = .ok d) :
    ∃ toks e μf, (parseWith Gen.dialects Gen.parserTable false μ ids src).2.builds = toks ++ [e] ∧
      LineToks Gen.dialects (μ.reset Gen.dialects) 1 (splitLines src) toks μf ∧
      ∀ el ∈ srcElems d, ∃ (i : Nat) (l : Str), (splitLines src)[i]? = some l ∧
        (stateAt Gen.dialects (μ.reset Gen.dialects) (splitLines src) toks i).dialect ∈ Gen.dialects ∧
        ElemFromLine (stateAt Gen.dialects (μ.reset Gen.dialects) (splitLines src) toks i) l (i + 1) el :=
  Lemmas.fields_in_document C03P_facts C03P_fact_builds C03D_fact_content_rows μ ids src hμ d h

/-- **Fields, line by line** (the exact form of "once, in order, nothing else").  For every accepted
    document the elements of the AST in source order are the concatenation, physical line by
    physical line, of the elements of each line's token (`lineElems`: what the token carries; a
    closing doc-string separator nothing); token `i` is the matcher's output for the kind `K` the
    line was read as, on the fresh token of line `i`, under the state in force; and its elements are
    read off the text of the line (`ElemFromLine`). -/
theorem C03_fields_line_by_line (μ : MState) (ids : Nat) (src : Str)
    (hμ : (μ.reset Gen.dialects).dialect ∈ Gen.dialects) (d : Doc)
    (h : (parseWith Gen.dialects Gen.parserTable false μ ids src).1 = .ok d) :
    ∃ toks e μf, (parseWith Gen.dialects Gen.parserTable false μ ids src).2.builds = toks ++ [e] ∧
      LineToks Gen.dialects (μ.reset Gen.dialects) 1 (splitLines src) toks μf ∧
      srcElems d = toks.flatMap lineElems ∧
      ∀ (i : Nat) (l : Str) (tk : Token), (splitLines src)[i]? = some l → toks[i]? = some tk →
        (stateAt Gen.dialects (μ.reset Gen.dialects) (splitLines src) toks i).dialect ∈ Gen.dialects ∧
        ∃ K, tk.mtype = some K ∧
          tk = (matchLine Gen.dialects K (stateAt Gen.dialects (μ.reset Gen.dialects) (splitLines src) toks i)
                  (freshTok l (i + 1)) l).tok ∧
          ∀ el ∈ lineElems tk,
            ElemFromLine (stateAt Gen.dialects (μ.reset Gen.dialects) (splitLines src) toks i) l (i + 1) el :=
  Lemmas.fields_line_by_line C03P_facts C03D_doc_facts C03P_fact_builds μ ids src hμ d h

/-- generic forms: any dialect table, parser table and grammar passing the Boolean checks -/
theorem C03_fields_in_document_generic (D : List Dialect) (T : Table) (G : Grammar) (fuel : Nat)
    (L : Lemmas.LinkFacts D T G fuel) (hB : Spec.oneBuildLast T = true)
    (hCR : ((Spec.contentStates T).all fun s => (T.row? s).any Spec.isContentRow) = true)
    (μ : MState) (ids : Nat) (src : Str) (hμ : (μ.reset D).dialect ∈ D) (d : Doc)
    (h : (parseWith D T false μ ids src).1 = .ok d) :
    ∃ toks e μf, (parseWith D T false μ ids src).2.builds = toks ++ [e] ∧
      LineToks D (μ.reset D) 1 (splitLines src) toks μf ∧
      ∀ el ∈ srcElems d, ∃ (i : Nat) (l : Str), (splitLines src)[i]? = some l ∧
        (stateAt D (μ.reset D) (splitLines src) toks i).dialect ∈ D ∧
        ElemFromLine (stateAt D (μ.reset D) (splitLines src) toks i) l (i + 1) el :=
  Lemmas.fields_in_document L hB hCR μ ids src hμ d h

/-! ### the state in force -/

/-- The matcher state in force at line `i` is the one `LineToks` threads: token `i` is the output of
    a successful `match_<K>` on the fresh token of line `i` under `stateAt … i`, a state the matcher
    can be in, and `K` is in the fallback chain of the line's intrinsic kind under it. -/
theorem C03_state_in_force (D : List Dialect) (μ μf : MState) (n : Nat) (ls : List Str) (toks : List Token)
    (h : LineToks D μ n ls toks μf) (i : Nat) (l : Str) (hi : ls[i]? = some l) :
    ∃ K, (stateAt D μ ls toks i).dialect ∈ D ∧ sepOK (stateAt D μ ls toks i) = true ∧
      (matchLine D K (stateAt D μ ls toks i) (freshTok l (n + i)) l).res = .matched ∧
      toks[i]? = some (matchLine D K (stateAt D μ ls toks i) (freshTok l (n + i)) l).tok ∧
      passes (intrinsicKind D (stateAt D μ ls toks i) l) K = true ∧
      (matchLine D K (stateAt D μ ls toks i) (freshTok l (n + i)) l).tok.mtype = some K :=
  Lemmas.LineToks.atState h i l hi

/-- … and its dialect name is the one in force by the language headers read so far (`Spec.nameAt`,
    cf. `C05_feature_language`). -/
theorem C03_state_name (D : List Dialect) (μ μf : MState) (n : Nat) (ls : List Str) (toks : List Token)
    (h : LineToks D μ n ls toks μf) (i : Nat) (hi : i < ls.length) :
    (stateAt D μ ls toks i).name = nameAt μ.name ls toks i :=
  Lemmas.LineToks.stateAt_name h i hi

/-! ### `ElemFromLine`, spelled out per kind of element -/

/-- keyword lines: "keywords are reported as written, names are the remainder of the line with
    surrounding whitespace removed" -/
theorem C03_from_line_keywordLine (μ : MState) (l : Str) (n : Nat) (K : Kind) (loc : Loc) (kw name : Str) :
    ElemFromLine μ l n (.keywordLine K loc kw name) ↔
      K.isTitle = true ∧ kw ∈ μ.dialect.roleKeywords K ∧ startsWith (kw ++ [58]) (trimmed l) = true ∧
      name = restTrimmed l (kw.length + 1) ∧ loc = ⟨n, some (lineIndent l + 1)⟩ := by
  constructor
  · intro h; cases h with | keywordLine _ _ a b c => exact ⟨a, b, c, rfl, rfl⟩
  · rintro ⟨a, b, c, rfl, rfl⟩; exact .keywordLine K kw a b c

/-- … and the keyword is THE keyword written: in a dialect of the shipped table at most one keyword
    followed by `:` starts the line (no title keyword contains `:`). -/
theorem C03_keyword_as_written (d : Dialect) (hd : d ∈ Gen.dialects) (K K' : Kind) (kw kw' s : Str)
    (hk : kw ∈ d.roleKeywords K) (hk' : kw' ∈ d.roleKeywords K')
    (hs : startsWith (kw ++ [58]) s = true) (hs' : startsWith (kw' ++ [58]) s = true) : kw = kw' := by
  have hf := C03P_fact_dialects
  simp only [textDialectFacts, Bool.and_eq_true] at hf
  have hcf := (Lemmas.keywordFacts_spec hf.1).2.2.1
  exact Lemmas.title_keyword_unique
    (Lemmas.titleColonFree_spec hcf hd (Lemmas.mem_titleKeywords_of_role d K kw hk))
    (Lemmas.titleColonFree_spec hcf hd (Lemmas.mem_titleKeywords_of_role d K' kw' hk')) hs hs'

/-- steps: the first prefixing step keyword, the stripped rest, the dialect's keyword type -/
theorem C03_from_line_step (μ : MState) (l : Str) (n : Nat) (loc : Loc) (kw text : Str) (kt : KType) :
    ElemFromLine μ l n (.step loc kw kt text) ↔
      (∃ pre post, μ.dialect.stepKeywords = pre ++ kw :: post ∧ startsWith kw (trimmed l) = true ∧
        ∀ k' ∈ pre, startsWith k' (trimmed l) = false) ∧
      text = restTrimmed l kw.length ∧ kt = stepKType μ.dialect kw ∧ loc = ⟨n, some (lineIndent l + 1)⟩ := by
  constructor
  · intro h; cases h with | step pre _ post a b c => exact ⟨⟨pre, post, a, b, c⟩, rfl, rfl, rfl⟩
  · rintro ⟨⟨pre, post, a, b, c⟩, rfl, rfl, rfl⟩; exact .step pre kw post a b c

/-- tags: `@` + the stripped text that follows the `@` at the tag's column (`C04_tag_name_stripped`) -/
theorem C03_from_line_tag (μ : MState) (l : Str) (n : Nat) (loc : Loc) (name : Str) :
    ElemFromLine μ l n (.tag loc name) ↔
      ∃ c item, lineStartsWith l [64] = true ∧ lineIndent l + 1 ≤ c ∧ (64 :: item) <+: l.drop (c - 1) ∧
        name = 64 :: strip item ∧ loc = ⟨n, some c⟩ := by
  constructor
  · intro h; cases h with | tag c item a b d => exact ⟨c, item, a, b, d, rfl, rfl⟩
  · rintro ⟨c, item, a, b, d, rfl, rfl⟩; exact .tag c item a b d

/-- rows: the cells of the two-phase reading of the line (`C12_split_eq_spec`), each at its column -/
theorem C03_from_line_row (μ : MState) (l : Str) (n : Nat) (loc : Loc) (cells : List (Loc × Str)) :
    ElemFromLine μ l n (.row loc cells) ↔
      lineStartsWith l [124] = true ∧ cells = (Spec.cells l).map (fun p => (⟨n, some p.1⟩, p.2)) ∧
      loc = ⟨n, some (lineIndent l + 1)⟩ := by
  constructor
  · intro h; cases h with | row a => exact ⟨a, rfl, rfl⟩
  · rintro ⟨a, rfl, rfl⟩; exact .row a

/-- doc strings: an opening separator (`C13_open`): the delimiter the line starts with, the rest of
    the line stripped as media type, absent when empty -/
theorem C03_from_line_docString (μ : MState) (l : Str) (n : Nat) (loc : Loc) (dl : Str) (media : Option Str) :
    ElemFromLine μ l n (.docString loc dl media) ↔
      (dl = dq3 ∨ dl = bt3) ∧ μ.inDocString = false ∧ startsWith dl (trimmed l) = true ∧
      media = (if (restTrimmed l 3).length > 0 then some (restTrimmed l 3) else none) ∧
      loc = ⟨n, some (lineIndent l + 1)⟩ := by
  constructor
  · intro h; cases h with | docString _ a b c => exact ⟨a, b, c, rfl, rfl⟩
  · rintro ⟨a, b, c, rfl, rfl⟩; exact .docString dl a b c

/-- what one matched line carries, for ANY matcher state and line: if `match_<K>` succeeds on the
    fresh token of `l`, the elements of its token (`lineElems`) are `ElemFromLine` -/
theorem C03_matched_line_elems (D : List Dialect) (K : Kind) (μ : MState) (l : Str) (n : Nat)
    (hm : (matchLine D K μ (freshTok l n) l).res = .matched) :
    ∀ e ∈ lineElems (matchLine D K μ (freshTok l n) l).tok, ElemFromLine μ l n e :=
  Lemmas.matched_lineElems D K μ l n hm

/-! ### descriptions and doc-string contents -/

/-- **Free text once, in order.**  For a grammar-shaped token tree `t` whose fold is the document
    `d`: the descriptions of the features, rules, backgrounds, scenarios and examples blocks of `d`
    and the contents of its doc strings, in source order, each with the location of its owner, are
    exactly what the nodes of `t` own: description = `joinWith [10] (trimDescLines texts)` of the
    texts of the `Other` lines of the node's first `Description` child (the empty string if it has
    none); doc-string content = `joinWith [10] texts` of the `Other` lines between the separators.
    (Comment lines are not stored in nodes, so they are left out; `C03_description_trim`
    characterises `trimDescLines`: trailing whitespace-only lines dropped, nothing else.) -/
theorem C03_texts_once_in_order (t : TTree) (hs : GrammarShaped t) (cs : List Comment) (n n' : Nat) (d : Doc)
    (h : (astOf cs t).run.run n = (.ok (.doc d), n')) : srcTexts d = textsOfTree t :=
  Lemmas.texts_once_in_order t hs cs n n' d h

/-- … for every tree projecting to a derivation tree of gherkin.berp. -/
theorem C03_texts_once_accepted (t : TTree) (hv : ValidTree Gen.grammar .GherkinDocument t.kinds)
    (cs : List Comment) (n n' : Nat) (d : Doc) (h : (astOf cs t).run.run n = (.ok (.doc d), n')) :
    srcTexts d = textsOfTree t :=
  Lemmas.texts_once_in_order t (Lemmas.shaped_of_valid_gen t hv) cs n n' d h

/-- what a node owns, spelled out for the two kinds of owner: a node with keyword line `line`
    (kind `k`) owns its first description string (the empty string if none) at `line`'s location; a
    `DocString` node owns the texts of its `Other` lines, joined, at its first separator -/
theorem C03_own_texts (toks : Kind → List Token) (descrs : List Str) (line sep : Token) (rest : List Token) :
    (∀ r k, (r, k) ∈ [(RuleType.Background, Kind.BackgroundLine), (.Scenario, .ScenarioLine), (.Examples, .ExamplesLine),
        (.RuleHeader, .RuleLine), (.FeatureHeader, .FeatureLine)] → toks k = [line] →
      ownTexts r toks descrs = [(line.loc, descrs.headD [])]) ∧
    (toks .DocStringSeparator = sep :: rest →
      ownTexts .DocString toks descrs = [(sep.loc, joinWith [10] ((toks .Other).map fun t => t.text.getD []))]) :=
  ⟨fun r k h ht => Lemmas.ownTexts_key r k h toks descrs line ht, fun h => by simp only [ownTexts, h]⟩

/-- `start_rule(Description)` ends its production list with `build`, in `Other` / `Comment` tests between
    states that are not doc-string content states -/
theorem C03F_fact_desc_start : Spec.descStartFacts Gen.parserTable = true := by kdecide
/-- inside a `Description` node every test starts with an `end_rule` or is a build-only `Other` /
    `Comment` self-loop -/
theorem C03F_fact_desc_body : Spec.descBodyFacts Gen.parserTable = true := by kdecide

theorem C03F_desc_facts : Lemmas.DescFacts Gen.parserTable := ⟨C03F_fact_desc_start, C03F_fact_desc_body⟩

/-- **Free text, in the document.**  For every accepted document there is a token tree `t` over the
    built tokens `toks ++ [eof]` (`LineToks`), projecting to a derivation tree of the grammar, in which
    * every `DocString` node holds exactly the lines of one doc string (`DocSeqNo`: `C13_in_document`),
    * every `Description` node holds only comment lines and free-text lines read outside a doc string,
      the text of such a line being the physical line VERBATIM minus its line break (`descNodesP`),
    such that the free text (`srcTexts`: descriptions, doc-string contents) and the elements of the
    AST are those of `t`.  So a description is: the free-text lines of the node's `Description`
    child — from the first comment or text line after the keyword line up to the next line the
    grammar reads as something else —, verbatim, comment lines left out, trailing whitespace-only
    lines dropped, joined by line feeds.  And for every physical line `l` read as free text
    (`Other`), under the matcher state `μᵢ` in force: its text is `l` without its line break, minus
    `min μᵢ.indentToRemove indent` leading code points and with the active delimiter unescaped
    (`C13_content_line`) — `l` verbatim minus its line break when `μᵢ` is outside a doc string. -/
theorem C03_texts_in_document (μ : MState) (ids : Nat) (src : Str)
    (hμ : (μ.reset Gen.dialects).dialect ∈ Gen.dialects) (d : Doc)
    (h : (parseWith Gen.dialects Gen.parserTable false μ ids src).1 = .ok d) :
    ∃ (t : TTree) (toks : List Token) (e : Token) (μf : MState),
      (parseWith Gen.dialects Gen.parserTable false μ ids src).2.builds = toks ++ [e] ∧ leaves t = toks ++ [e] ∧
      LineToks Gen.dialects (μ.reset Gen.dialects) 1 (splitLines src) toks μf ∧
      ValidTree Gen.grammar .GherkinDocument t.kinds ∧ docNodesP DocSeqNo t ∧ descNodesP t ∧
      srcTexts d = textsOfTree t ∧ srcElems d = elemsOfTree t ∧
      ∀ (i : Nat) (l : Str) (tk : Token), (splitLines src)[i]? = some l → toks[i]? = some tk →
        tk.mtype = some .Other →
        tk.text = some (rstripCRLF (unescapeDoc
          (stateAt Gen.dialects (μ.reset Gen.dialects) (splitLines src) toks i).activeSep
          (l.drop (min (stateAt Gen.dialects (μ.reset Gen.dialects) (splitLines src) toks i).indentToRemove
            (lineIndent l))))) ∧
        ((stateAt Gen.dialects (μ.reset Gen.dialects) (splitLines src) toks i).inDocString = false →
          tk.text = some (rstripCRLF l)) :=
  Lemmas.texts_in_document C03P_facts C03D_doc_facts C03F_desc_facts C03P_fact_builds μ ids src hμ d h

/-- every `Description` node anywhere in such a tree: its children are lines, each a comment line or
    a free-text line carrying the physical line verbatim minus its line break … -/
theorem C03_description_at (t : TTree) (ht : descNodesP t) (ch : List TTree)
    (h : SubT (.node .Description ch) t) : ∃ bs : List Token, ch = bs.map .leaf ∧ ∀ b ∈ bs, DescTok b :=
  Lemmas.descNodesP_at ht h

/-- … so the texts `Spec.ownTexts` / `Spec.childDescrs` read off such a node (`otherTexts`) are the
    physical lines read as `Other`, in order, each verbatim minus its line break. -/
theorem C03_description_lines_verbatim (bs : List Token) (h : ∀ b ∈ bs, DescTok b) :
    otherTexts (bs.map .leaf) =
      (bs.filter fun b => decide (b.mtype = some .Other)).map fun b => rstripCRLF (b.line.getD []) :=
  Lemmas.otherTexts_descLines bs h

/-- generic form -/
theorem C03_texts_in_document_generic (D : List Dialect) (T : Table) (G : Grammar) (fuel : Nat)
    (L : Lemmas.LinkFacts D T G fuel) (F : Lemmas.DocFacts D T) (F' : Lemmas.DescFacts T)
    (hB : Spec.oneBuildLast T = true)
    (μ : MState) (ids : Nat) (src : Str) (hμ : (μ.reset D).dialect ∈ D) (d : Doc)
    (h : (parseWith D T false μ ids src).1 = .ok d) :
    ∃ t, Lemmas.LinkTree D T G (μ.reset D) (splitLines src) d (parseWith D T false μ ids src).2.builds ids
      (parseWith D T false μ ids src).2.ids t ∧ docNodesP DocSeqNo t ∧ descNodesP t :=
  Lemmas.parse_link_desc L F F' hB μ ids src hμ d h

/-! ### non-vacuity -/
section examples

/-- the elements of the demo of Props/C03Parse.lean (French, language header, doc string with media
    type whose content looks like a step, data table, a tag / blank run before `Exemples:`), with
    their fields, in source order: computed from the AST … -/
example : (MState.init Gen.dialects (lit "en")).map (fun μ =>
      match (parseWith Gen.dialects Gen.parserTable false μ 5 C03P_demo).1 with
      | .ok d => srcElems d
      | _ => []) =
    some [.keywordLine .FeatureLine ⟨3, some 1⟩ (lit "Fonctionnalité") (lit "f"),
      .keywordLine .ScenarioLine ⟨4, some 3⟩ (lit "Scénario") (lit "s"),
      .step ⟨5, some 5⟩ (lit "Soit ") .Context (lit "x"),
      .docString ⟨6, some 7⟩ (lit "\"\"\"") (some (lit "json")),
      .step ⟨9, some 5⟩ (lit "Et ") .Conjunction (lit "z"),
      .row ⟨10, some 7⟩ [(⟨10, some 9⟩, lit "p"), (⟨10, some 13⟩, lit "q")],
      .tag ⟨11, some 5⟩ (lit "@t"), .tag ⟨11, some 8⟩ (lit "@u"),
      .keywordLine .ExamplesLine ⟨13, some 5⟩ (lit "Exemples") [],
      .row ⟨14, some 7⟩ [(⟨14, some 9⟩, lit "a")],
      .row ⟨15, some 7⟩ [(⟨15, some 9⟩, lit "1")]] := by kdecide

/-- … and they are the concatenation of the elements of the built tokens, line by line (the
    closing separator on line 8 and the content line `Given y` contribute nothing) -/
example : (MState.init Gen.dialects (lit "en")).map (fun μ =>
      let r := parseWith Gen.dialects Gen.parserTable false μ 5 C03P_demo
      match r.1 with
      | .ok d => decide (srcElems d = r.2.builds.dropLast.flatMap lineElems)
      | _ => false) = some true := by kdecide

/-- the state in force at the feature line (line index 2) of the demo is the French one although
    the matcher was made for `en`: the header on line 1 switched it -/
example : (MState.init Gen.dialects (lit "en")).map (fun μ =>
      let r := parseWith Gen.dialects Gen.parserTable false μ 5 C03P_demo
      let μ2 := stateAt Gen.dialects (μ.reset Gen.dialects) (splitLines C03P_demo) r.2.builds.dropLast 2
      (μ2.name, μ2.dialect.name, (stateAt Gen.dialects (μ.reset Gen.dialects) (splitLines C03P_demo)
        r.2.builds.dropLast 6).activeSep)) =
    some (lit "fr", lit "fr", some dq3) := by kdecide

/-- `ElemFromLine` on a concrete line: Slovak lists `"A "` before `"A tiež "`, so the step is reported
    with the shorter keyword and the text starts with `tiež` (cf. `C05_step_first_prefix`) -/
example : (MState.init Gen.dialects (lit "sk")).map (fun μ =>
      lineElems (matchLine Gen.dialects .StepLine μ (freshTok (lit "  A tiež niečo \r\n") 7) (lit "  A tiež niečo \r\n")).tok) =
    some [.step ⟨7, some 3⟩ (lit "A ") .Conjunction (lit "tiež niečo")] := by kdecide

/-- a document with a two-line description followed by a blank line and a comment, a scenario
    without description, a doc string whose content is indented more than its delimiter and holds an
    escaped delimiter, and an examples block with a description -/
def C03F_demo : Str :=
  lit "Feature: f\n  free text\n   more \n\n  # c\n  Scenario: s\n    Given x\n      \"\"\"\n       a\n      \\\"\\\"\\\"\n      \"\"\"\n  Examples:\n  e\n"

/-- its free text: the description lines verbatim (indentation and trailing blank of `more ` kept,
    the trailing blank line dropped, the comment left out); the empty description; the doc string's
    content minus the delimiter's indentation, delimiter unescaped; the examples description -/
example : (MState.init Gen.dialects (lit "en")).map (fun μ =>
      match (parseWith Gen.dialects Gen.parserTable false μ 0 C03F_demo).1 with
      | .ok d => srcTexts d
      | _ => []) =
    some [(⟨1, some 1⟩, lit "  free text\n   more "), (⟨6, some 3⟩, []),
      (⟨8, some 7⟩, lit " a\n\"\"\""), (⟨12, some 3⟩, lit "  e")] := by kdecide

end examples

end GV
