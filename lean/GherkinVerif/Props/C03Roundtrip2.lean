/-
  Props/C03Roundtrip2.lean — property C03 "from the document outwards", the richer model: the core
  model of Props/C03Roundtrip.lean plus a DATA TABLE on a step (extension 1).

  Model (Spec/Render2.lean): `MStep2 = (kw, text, table : List (List Str))`, `MScenario2`, `MFeature2`;
  `render2` writes a table row as `    | a | bb |` (the `|` at column 5, one blank on each side of a
  cell) under its step; `WF2 d m` = the core conditions plus `tableOK`: every row has as many cells
  as the first, at least one, and every cell is `cellOK` (no surrounding whitespace; none of `|`, `\`,
  LF; the empty cell is allowed).  `expectedDoc2`: the rows of a table draw their ids BEFORE their
  step (canonical order: rows, step, …, tags, scenario; feature tags last); row location column 5;
  a non-empty cell is located one column after the blank following `|`, an empty cell two columns
  after it (the matcher skips both blanks — a finding of the proof, `Spec.cellCols`).

  PROVED
  * `C03R2_fact_table` (kernel): `Lemmas.rt2Facts` — the facts of the core and, for states 3 / 10 / 12
    / 13, the scenario / look-ahead-0 tag / EOF branches, for 10 / 12 / 13 the step branch, the
    `TableRow` branches of states 12 and 13.
  * per-line: `C03R2_row_line` (the rendered row is matched as a table row with exactly the expected
    cells and columns), `C03R2_row_line_exclusive` (every other specific test fails on it).
  * builder: `Lemmas.endRule_datatable`, `Lemmas.endRule_step_table`.
  * blocks: `Lemmas.rows_loop`, `Lemmas.step_block2`, `Lemmas.steps_loop2`, `Lemmas.scenario_block2`,
    `Lemmas.scenarios_loop2`, `Lemmas.finish2`, `Lemmas.roundtrip2_pure`.
  * **`C03_roundtrip2`**, **`C03_roundtrip2_counter`**: every matcher state whose default dialect is in
    the table, every `WF2` model, both error modes, every incoming id counter.
  * `C03_roundtrip2_core`: the core model embeds (`MFeature.toModel2`) with the same rendering.
  * non-vacuity and necessity of each new WF clause by kernel-evaluated examples.

  NOT DONE (not started; no statement left open): doc strings, Background, Scenario Outline /
  Examples, descriptions, comments, Rules, `# language:` header.
-/
import GherkinVerif.Lemmas.Roundtrip2Doc
import GherkinVerif.Props.C03Roundtrip
namespace GV
open Spec

/-- the parser-table facts of the richer round trip -/
theorem C03R2_fact_table : Lemmas.rt2Facts Gen.parserTable = true := by kdecide

/-- a rendered table row is matched as a table row: every cell at its column with its text -/
theorem C03R2_row_line (D : List Dialect) (μ : MState) (cells : List Str) (h : ∀ c ∈ cells, cellOK c = true)
    (t : Token) (n : Nat) (hl : t.line = some (rowLineOf cells ++ [10])) (hno : t.lineNo = n) :
    matchLine D .TableRow μ t (rowLineOf cells ++ [10]) = ⟨Lemmas.rowTok μ n cells, μ, .matched⟩ :=
  Lemmas.row_match D μ cells h t n hl hno

/-- … and fails every other specific test -/
theorem C03R2_row_line_exclusive (D : List Dialect) (μ : MState) (hμ : μ.dialect ∈ Gen.dialects)
    (hsep : μ.activeSep = none) (cells : List Str) (t : Token) (K : Kind) (hK : K ≠ .TableRow) (hO : K ≠ .Other) :
    matchLine D K μ t (rowLineOf cells ++ [10]) = ⟨t, μ, .no⟩ :=
  Lemmas.row_others_no C03R_fact_render D μ hμ hsep cells t K hK hO

/-- **C03, round trip, steps with data tables.** -/
theorem C03_roundtrip2 (stop : Bool) (μ : MState)
    (hμ : (μ.reset Gen.dialects).dialect ∈ Gen.dialects) (ids : Nat) (m : MFeature2)
    (hwf : WF2 (μ.reset Gen.dialects).dialect m = true) :
    (parseWith Gen.dialects Gen.parserTable stop μ ids (render2 m)).1 =
      .ok (expectedDoc2 (μ.reset Gen.dialects).dialect (μ.reset Gen.dialects).name m ids) := by
  obtain ⟨ho, -⟩ := C18_queue_refines_peek_fields stop μ ids (render2 m) hμ
  rw [ho]
  exact (Lemmas.roundtrip2_pure C03R_fact_keywords C03R_fact_render Gen.dialects Gen.parserTable
    (Lemmas.RtTable2.of_facts C03R2_fact_table) stop μ hμ ids m hwf).1

/-- … and the id counter afterwards: one id per table row, step, tag and scenario. -/
theorem C03_roundtrip2_counter (stop : Bool) (μ : MState)
    (hμ : (μ.reset Gen.dialects).dialect ∈ Gen.dialects) (ids : Nat) (m : MFeature2)
    (hwf : WF2 (μ.reset Gen.dialects).dialect m = true) :
    (parseWith Gen.dialects Gen.parserTable stop μ ids (render2 m)).2.ids = idsAfter2 m ids := by
  obtain ⟨-, -, -, -, -, -, hi, -⟩ := C18_queue_refines_peek_fields stop μ ids (render2 m) hμ
  rw [hi]
  exact (Lemmas.roundtrip2_pure C03R_fact_keywords C03R_fact_render Gen.dialects Gen.parserTable
    (Lemmas.RtTable2.of_facts C03R2_fact_table) stop μ hμ ids m hwf).2

/-- the core model is the table-free part of the richer one: same text -/
theorem C03_roundtrip2_core (m : MFeature) : render2 m.toModel2 = render m := by
  have hs : ∀ (steps : List MStep),
      (steps.map fun p => (⟨p.kw, p.text, []⟩ : MStep2)).flatMap stepLines2 = steps.map stepLineOf := by
    intro steps
    induction steps with
    | nil => rfl
    | cons a steps ih => simp [List.flatMap_cons, stepLines2, MStep2.core, ih]
  have hsc : ∀ (scs : List MScenario),
      (scs.map fun s => (⟨s.tags, s.kw, s.name, s.steps.map fun p => ⟨p.kw, p.text, []⟩⟩ : MScenario2)).flatMap
        scenarioLines2 = scs.flatMap scenarioLines := by
    intro scs
    induction scs with
    | nil => rfl
    | cons a scs ih => simp [List.flatMap_cons, scenarioLines2, scenarioLines, hs, ih]
  simp [render2, render, lineBodies2, lineBodies, MFeature.toModel2, hsc]

/-! ### non-vacuity -/
section examples

def C03R2_demo : MFeature2 := MFeature2.ofStrings ["@f"] "Feature" "F"
  [([], "Scenario", "one", [("Given ", "a", [["x", "yy"], ["", "1 2"]]), ("When ", "b", []), ("Then ", "c", [["q"]])]),
   (["@t"], "Scenario", "two", [("* ", "d", [["h"], ["v"], ["w"]])])]

/-- well formed, rendered literally, parsed (both modes, counter 7) to the expected document; the
    cells of `|  | 1 2 |` are reported at columns 8 (empty cell: both blanks skipped) and 10 -/
example : (MState.init Gen.dialects (lit "en")).map (fun μ =>
    (WF2 μ.dialect C03R2_demo,
     render2 C03R2_demo == lit "@f\nFeature: F\nScenario: one\n  Given a\n    | x | yy |\n    |  | 1 2 |\n  When b\n  Then c\n    | q |\n@t\nScenario: two\n  * d\n    | h |\n    | v |\n    | w |\n",
     decide (C03R_okDoc (parseWith Gen.dialects Gen.parserTable false μ 7 (render2 C03R2_demo)).1 =
       some (expectedDoc2 μ.dialect μ.name C03R2_demo 7)),
     decide (C03R_okDoc (parseWith Gen.dialects Gen.parserTable true μ 7 (render2 C03R2_demo)).1 =
       some (expectedDoc2 μ.dialect μ.name C03R2_demo 7)),
     (parseWith Gen.dialects Gen.parserTable true μ 7 (render2 C03R2_demo)).2.ids == idsAfter2 C03R2_demo 7,
     cellCols 6 [lit "", lit "1 2"] == [(8, []), (10, lit "1 2")])) =
    some (true, true, true, true, true, true) := by kdecide

end examples

/-! ### necessity of the new well-formedness clauses -/
section necessity

def C03R2_variant (table : List (List String)) : Option (Bool × Bool) :=
  (MState.init Gen.dialects (lit "en")).map fun μ =>
    let m := MFeature2.ofStrings [] "Feature" "f" [([], "Scenario", "s", [("Given ", "x", table)])]
    (WF2 μ.dialect m,
     decide (C03R_okDoc (parseWith Gen.dialects Gen.parserTable false μ 0 (render2 m)).1 =
       some (expectedDoc2 μ.dialect μ.name m 0)))

/-- a rectangular table of clean cells round-trips -/
example : C03R2_variant [["a", "b"], ["c", ""]] = some (true, true) := by kdecide
/-- ragged rows: the builder raises -/
example : C03R2_variant [["a", "b"], ["c"]] = some (false, false) := by kdecide
/-- the clause "at least one cell" is SUFFICIENT, NOT NECESSARY: a row without cells renders as a
    lone `|`, is reported as a row without cells, and the expected AST agrees (not `WF2`, yet it
    round-trips) -/
example : C03R2_variant [[]] = some (false, true) := by kdecide
/-- a cell with a bar, an escape sequence, LF, or surrounding blanks does not round-trip -/
example : C03R2_variant [["a|b"]] = some (false, false) := by kdecide
example : C03R2_variant [["a\\nb"]] = some (false, false) := by kdecide
example : C03R2_variant [["a\nb"]] = some (false, false) := by kdecide
example : C03R2_variant [[" a"]] = some (false, false) := by kdecide
example : C03R2_variant [["a "]] = some (false, false) := by kdecide

end necessity

end GV
