/-
  Props/C03Roundtrip4.lean — property C03 "from the document outwards", fourth model: the model of
  Props/C03Roundtrip3.lean plus EXAMPLES blocks on a scenario (extension 4).

  Model (Spec/Render4.lean): `MExamples = (tags, kw, name, table)` (`[]` = no table, else head = header
  row, tail = body rows), `MScenario4 = (tags, kw, name, steps, examples)`, `MFeature4`.  `render4`
  writes, after a scenario's steps, for each examples block: the optional tag line at column 1,
  `<examples kw>: <name>` at column 1, the rows as `    | a | b |` (the `|` at column 5).  `WF4 d m` =
  `WF3` plus, per block, `examplesOK`: tags `tagOK`, keyword in `d.examples`, name `cleanText`,
  `tableOK` (rectangular, ≥ 1 cell per row, cells `cellOK`).  Examples are allowed under ANY scenario
  keyword (the parser does not distinguish Scenario from Scenario Outline).  `expectedDoc4`: per
  block the rows draw their ids first, then the block's tags, then the block; all blocks of a scenario
  after its steps and before the scenario's own tags and the scenario; `tableHeader` = first row,
  `tableBody` = the others, both absent without a table.

  PROVED
  * `C03R4_fact_table` (kernel): `Lemmas.rt4Facts` — the facts of the third model; for the states 10 /
    12 / 13 (after a step / table row) and 15 / 17 (examples line / examples table row) the
    `ExamplesLine` branch, the `TagLine` branch guarded by look-ahead 1, and the scenario / look-ahead-0
    tag / EOF branches; the `ExamplesLine` branch of state 14; the `TableRow` branches of 15 and 17.
  * look-ahead 1: `Lemmas.peek_examples_true`, `Lemmas.try_tag1` (a tag line followed by an examples
    line takes the look-ahead-1 branch); the scenario's own tag line still goes through `try_tag0`
    (look-ahead 1 fails on a scenario line, look-ahead 0 succeeds).
  * builder: `Lemmas.endRule_extable`, `Lemmas.endRule_exdef`, `Lemmas.endRule_scdef4`.
  * blocks: `Lemmas.rows_loop17`, `Lemmas.examples_block`, `Lemmas.examples_loop`, `Lemmas.inex_closes`,
    `Lemmas.scenario_head`, `Lemmas.scenario_block4`, `Lemmas.scenarios_loop4`, `Lemmas.roundtrip4_pure`.
  * **`C03_roundtrip4`**, **`C03_roundtrip4_counter`**; `C03_roundtrip4_model3` (the third model embeds).
  * non-vacuity (an outline with two examples blocks, one tagged with a table, one without a table);
    necessity of each clause of `examplesOK`.

  NOT DONE (not started): doc strings, descriptions, comments, Rules, `# language:` header.
-/
import GherkinVerif.Lemmas.Roundtrip4Doc
import GherkinVerif.Props.C03Roundtrip3
namespace GV
open Spec

/-- the parser-table facts of the fourth round trip -/
theorem C03R4_fact_table : Lemmas.rt4Facts Gen.parserTable = true := by kdecide

/-- **C03, round trip, examples blocks, optional background, steps with data tables.** -/
theorem C03_roundtrip4 (stop : Bool) (μ : MState)
    (hμ : (μ.reset Gen.dialects).dialect ∈ Gen.dialects) (ids : Nat) (m : MFeature4)
    (hwf : WF4 (μ.reset Gen.dialects).dialect m = true) :
    (parseWith Gen.dialects Gen.parserTable stop μ ids (render4 m)).1 =
      .ok (expectedDoc4 (μ.reset Gen.dialects).dialect (μ.reset Gen.dialects).name m ids) := by
  obtain ⟨ho, -⟩ := C18_queue_refines_peek_fields stop μ ids (render4 m) hμ
  rw [ho]
  exact (Lemmas.roundtrip4_pure C03R_fact_keywords C03R_fact_render Gen.dialects Gen.parserTable
    (Lemmas.RtTable4.of_facts C03R4_fact_table) stop μ hμ ids m hwf).1

/-- … and the id counter afterwards: one id per table row, step, background, examples block, tag
    and scenario. -/
theorem C03_roundtrip4_counter (stop : Bool) (μ : MState)
    (hμ : (μ.reset Gen.dialects).dialect ∈ Gen.dialects) (ids : Nat) (m : MFeature4)
    (hwf : WF4 (μ.reset Gen.dialects).dialect m = true) :
    (parseWith Gen.dialects Gen.parserTable stop μ ids (render4 m)).2.ids = idsAfter4 m ids := by
  obtain ⟨-, -, -, -, -, -, hi, -⟩ := C18_queue_refines_peek_fields stop μ ids (render4 m) hμ
  rw [hi]
  exact (Lemmas.roundtrip4_pure C03R_fact_keywords C03R_fact_render Gen.dialects Gen.parserTable
    (Lemmas.RtTable4.of_facts C03R4_fact_table) stop μ hμ ids m hwf).2

/-- the third model is the examples-free part of the fourth: same text -/
theorem C03_roundtrip4_model3 (m : MFeature3) : render4 m.toModel4 = render3 m := by
  have hsc : ∀ (scs : List MScenario2),
      (scs.map fun s => (⟨s.tags, s.kw, s.name, s.steps, []⟩ : MScenario4)).flatMap scenarioLines4 =
        scs.flatMap scenarioLines2 := by
    intro scs
    induction scs with
    | nil => rfl
    | cons a scs ih => simp [List.flatMap_cons, scenarioLines4, MScenario4.core, ih]
  simp [render4, render3, lineBodies4, lineBodies3, MFeature3.toModel4, hsc]

/-! ### non-vacuity -/
section examples

/-- an outline with two examples blocks (one tagged with a table — an empty cell included —, one
    without a table), a tagged scenario with a header-only block and no steps, a plain scenario -/
def C03R4_demo : MFeature4 := MFeature4.ofStrings ["@f"] "Feature" "F"
  [("Background", "bg", [("Given ", "a", [])])]
  [([], "Scenario Outline", "one", [("When ", "b <x>", []), ("Then ", "c", [["q"]])],
      [(["@e1", "@e2"], "Examples", "first", [["x", "y"], ["1", "2"], ["3", ""]]), ([], "Scenarios", "", [])]),
   (["@t"], "Scenario", "two", [], [([], "Examples", "only header", [["h"]])]),
   ([], "Example", "three", [("* ", "d", [])], [])]

example : (MState.init Gen.dialects (lit "en")).map (fun μ =>
    (WF4 μ.dialect C03R4_demo,
     render4 C03R4_demo == lit "@f\nFeature: F\nBackground: bg\n  Given a\nScenario Outline: one\n  When b <x>\n  Then c\n    | q |\n@e1 @e2\nExamples: first\n    | x | y |\n    | 1 | 2 |\n    | 3 |  |\nScenarios: \n@t\nScenario: two\nExamples: only header\n    | h |\nExample: three\n  * d\n",
     decide (C03R_okDoc (parseWith Gen.dialects Gen.parserTable false μ 7 (render4 C03R4_demo)).1 =
       some (expectedDoc4 μ.dialect μ.name C03R4_demo 7)),
     decide (C03R_okDoc (parseWith Gen.dialects Gen.parserTable true μ 7 (render4 C03R4_demo)).1 =
       some (expectedDoc4 μ.dialect μ.name C03R4_demo 7)),
     (parseWith Gen.dialects Gen.parserTable true μ 7 (render4 C03R4_demo)).2.ids == idsAfter4 C03R4_demo 7)) =
    some (true, true, true, true, true) := by kdecide

end examples

/-! ### necessity of the clauses of `examplesOK` -/
section necessity

def C03R4_variant (tags : List String) (kw name : String) (table : List (List String)) : Option (Bool × Bool) :=
  (MState.init Gen.dialects (lit "en")).map fun μ =>
    let m := MFeature4.ofStrings [] "Feature" "f" []
      [([], "Scenario", "s", [("Given ", "x", [])], [(tags, kw, name, table)])]
    (WF4 μ.dialect m,
     decide (C03R_okDoc (parseWith Gen.dialects Gen.parserTable false μ 0 (render4 m)).1 =
       some (expectedDoc4 μ.dialect μ.name m 0)))

example : C03R4_variant ["@a"] "Examples" "e" [["h"], ["1"]] = some (true, true) := by kdecide
/-- a tag with a blank; a keyword of another role; a misspelt keyword -/
example : C03R4_variant ["@a b"] "Examples" "e" [["h"]] = some (false, false) := by kdecide
example : C03R4_variant [] "Scenario" "e" [["h"]] = some (false, false) := by kdecide
example : C03R4_variant [] "Exemples" "e" [["h"]] = some (false, false) := by kdecide
/-- a name with a trailing blank; a ragged table; a cell with a bar -/
example : C03R4_variant [] "Examples" "e " [["h"]] = some (false, false) := by kdecide
example : C03R4_variant [] "Examples" "e" [["h"], ["1", "2"]] = some (false, false) := by kdecide
example : C03R4_variant [] "Examples" "e" [["a|b"]] = some (false, false) := by kdecide

end necessity

end GV
