/-
  Props/C19.lean — property C19: the Markdown token matcher (`GherkinInMarkdownTokenMatcher`,
  model `GV.Md`) recognises Gherkin lines as MARKDOWN_WITH_GHERKIN.md specifies, at line level.
  Property theorems only; helper lemmas live in Lemmas/Markdown.lean (and Lemmas/Keywords.lean),
  the Boolean dialect-table facts in Spec/DialectFacts.lean.

  Conventions: `35` is `#`, `58` is `:`, `124` is `|`, `96` a backtick, `64` is `@`, `45` is `-`,
  `42 43 45` are the bullets `* + -`; `ws`, `blanks` are runs of whitespace code points
  (`isSpace`); `dotStar s` is `s` up to its first line feed.  A token matched with
  `indent := some i` has column `i + 1` (`C19_token_fields`).
-/
import GherkinVerif.Lemmas.Markdown
import GherkinVerif.Gen.Dialects
import GherkinVerif.KDecide
namespace GV
open Spec Md

/-- Facts about the shipped dialect table, checked by the kernel on the regenerated table: no
    title keyword contains `:`; no keyword starts with whitespace (nor `#`, `@`, `|`, `"""`,
    three backticks); no keyword is empty. -/
theorem C19_dialect_facts : Spec.markdownFacts Gen.dialects = true := by kdecide

/-- The header pattern `^(#{1,6}\s)(kw…):(.*)`: for a keyword `k` of a colon-free list, depth
    `1 ≤ n ≤ 6`, one whitespace code point `b` and any title, the match has prefix length
    `n + 1`, keyword exactly `k` (whatever the list order) and the title up to the first line
    feed, stripped. -/
theorem C19_header_keyword (kws : List Str) (n b : Nat) (k title : Str) (hk : k ∈ kws)
    (hcf : ∀ k' ∈ kws, 58 ∉ k') (h1 : 1 ≤ n) (h6 : n ≤ 6) (hb : isSpace b = true) :
    headerMatch kws (List.replicate n 35 ++ [b] ++ k ++ [58] ++ title) =
      some ⟨n + 1, k, strip (dotStar title)⟩ :=
  Lemmas.headerMatch_keyword kws n b k title hk hcf h1 h6 hb

/-- No header match with no `#`, with seven or more `#`, or when the `#` run is not followed by
    a whitespace code point (`r` is what follows the `n` hashes, so it does not start with `#`). -/
theorem C19_header_none (kws : List Str) (n : Nat) (r : Str) (hr : r.head? ≠ some 35)
    (h : n = 0 ∨ 7 ≤ n ∨ noWsStart r = true) : headerMatch kws (List.replicate n 35 ++ r) = none :=
  Lemmas.headerMatch_none kws n r hr h

/-- Through `match_<Kind>` of the Markdown matcher, for every dialect of the shipped table, every
    title kind, every keyword listed for it (scenario-outline keywords included under
    ScenarioLine), any leading whitespace `ws`, depth 1–6, any blank and title: the line is
    matched with keyword `k`, the trimmed title, and indent `|ws| + n + 1` — i.e. column
    `|ws| + n + 2`, the column of the keyword. -/
theorem C19_header_line (ty : Kind) (hty : ty.isTitle = true) (μ : MState)
    (hμ : μ.dialect ∈ Gen.dialects) (t : Token) (ws : Str) (n b : Nat) (k title : Str)
    (hk : k ∈ μ.dialect.roleKeywords ty) (hws : ∀ c ∈ ws, isSpace c = true)
    (h1 : 1 ≤ n) (h6 : n ≤ 6) (hb : isSpace b = true) :
    Md.matchLine ty μ t (ws ++ List.replicate n 35 ++ [b] ++ k ++ [58] ++ title) =
      some (some (setMatched μ t ty (text := some (strip (dotStar title))) (keyword := some k)
        (indent := some (ws.length + n + 1)))) :=
  Lemmas.md_header_in_table Gen.dialects C19_dialect_facts ty hty μ hμ t ws n b k title hk hws h1 h6 hb

/-- … and the same for any dialect whose role keywords are colon-free (not only the shipped ones). -/
theorem C19_header_line_generic (ty : Kind) (hty : ty.isTitle = true) (μ : MState) (t : Token)
    (ws : Str) (n b : Nat) (k title : Str) (hk : k ∈ μ.dialect.roleKeywords ty)
    (hcf : ∀ k' ∈ μ.dialect.roleKeywords ty, 58 ∉ k') (hws : ∀ c ∈ ws, isSpace c = true)
    (h1 : 1 ≤ n) (h6 : n ≤ 6) (hb : isSpace b = true) :
    Md.matchLine ty μ t (ws ++ List.replicate n 35 ++ [b] ++ k ++ [58] ++ title) =
      some (some (setMatched μ t ty (text := some (strip (dotStar title))) (keyword := some k)
        (indent := some (ws.length + n + 1)))) :=
  Lemmas.md_matchLine_header ty hty μ t ws n b k title hk hcf hws h1 h6 hb

/-- Fields of a token matched with text `strip text`, keyword `k` and explicit indent `i`:
    column `i + 1`, the dialect in force. -/
theorem C19_token_fields (μ : MState) (t : Token) (ty : Kind) (text k : Str) (i : Nat) :
    let t' := setMatched μ t ty (text := some (strip text)) (keyword := some k) (indent := some i)
    t'.mtype = some ty ∧ t'.keyword = some k ∧ t'.text = some (strip text) ∧ t'.col = some (i + 1) ∧
    t'.dialect = μ.name :=
  Lemmas.md_token_fields μ t ty text k i

/-- The bullet pattern `^(\s*[*+-]\s*)(kw…)(.*)` on a trimmed line: bullet, a whitespace run
    `blanks`, then `x` not starting with whitespace; when no keyword starts with whitespace the
    backtracking of the blank run never succeeds at a shorter run, so the match is the FIRST
    listed keyword prefixing `x` (none if there is none), with prefix length `1 + |blanks|`. -/
theorem C19_bullet_step (kws : List Str) (b : Nat) (blanks x : Str) (hb : b = 42 ∨ b = 43 ∨ b = 45)
    (hbl : ∀ c ∈ blanks, isSpace c = true) (hx : noWsStart x = true)
    (hk : ∀ k ∈ kws, noWsStart k = true) :
    bulletMatch kws ([b] ++ blanks ++ x) =
      (firstKeyword kws [] x).map fun k => ⟨1 + blanks.length, k, strip (dotStar (x.drop k.length))⟩ :=
  Lemmas.bulletMatch_spec kws b blanks x hb hbl hx hk

/-- … with the keyword explicit: `k` listed, non-empty, no earlier listed keyword prefixing
    `k ++ rest`; the text is `rest` up to the first line feed, stripped. -/
theorem C19_bullet_step_keyword (kws pre post : List Str) (b : Nat) (blanks k rest : Str)
    (hsplit : kws = pre ++ k :: post) (hpre : ∀ k' ∈ pre, startsWith k' (k ++ rest) = false)
    (hb : b = 42 ∨ b = 43 ∨ b = 45) (hbl : ∀ c ∈ blanks, isSpace c = true) (hne : k ≠ [])
    (hk : ∀ k ∈ kws, noWsStart k = true) :
    bulletMatch kws ([b] ++ blanks ++ k ++ rest) = some ⟨1 + blanks.length, k, strip (dotStar rest)⟩ :=
  Lemmas.bulletMatch_keyword kws pre post b blanks k rest hsplit hpre hb hbl hne hk

/-- A trimmed line whose first code point is not a bullet (or that is empty) is no step. -/
theorem C19_bullet_none (kws : List Str) (s : Str)
    (h : ∀ b r, s = b :: r → b ≠ 42 ∧ b ≠ 43 ∧ b ≠ 45) : bulletMatch kws s = none :=
  Lemmas.bulletMatch_no_bullet kws s h

/-- Through `match_StepLine` of the Markdown matcher, for every dialect of the shipped table:
    `ws ++ bullet ++ blanks ++ k ++ rest` is a step with keyword `k` — the first listed step
    keyword prefixing `k ++ rest` — and indent `|ws| + 1 + |blanks|`, i.e. the column of the
    keyword. -/
theorem C19_bullet_line (μ : MState) (hμ : μ.dialect ∈ Gen.dialects) (t : Token) (ws : Str) (b : Nat)
    (blanks k rest : Str) (pre post : List Str) (hsplit : μ.dialect.stepKeywords = pre ++ k :: post)
    (hpre : ∀ k' ∈ pre, startsWith k' (k ++ rest) = false)
    (hws : ∀ c ∈ ws, isSpace c = true) (hb : b = 42 ∨ b = 43 ∨ b = 45)
    (hbl : ∀ c ∈ blanks, isSpace c = true) :
    Md.matchLine .StepLine μ t (ws ++ [b] ++ blanks ++ k ++ rest) =
      some (some (setMatched μ t .StepLine (text := some (strip (dotStar rest))) (keyword := some k)
        (indent := some (ws.length + 1 + blanks.length)))) :=
  Lemmas.md_bullet_in_table Gen.dialects C19_dialect_facts μ hμ t ws b blanks k rest pre post hsplit hpre
    hws hb hbl

/-- Table rows: the indentation test accepts exactly the lines that start with two to five
    whitespace code points followed by `|`. -/
theorem C19_table_indent (l : Str) :
    rowIndentOk l = true ↔
      ∃ ws rest, l = ws ++ 124 :: rest ∧ (∀ c ∈ ws, isSpace c = true) ∧ 2 ≤ ws.length ∧ ws.length ≤ 5 :=
  Lemmas.rowIndentOk_iff l

/-- A cell is a GFM separator exactly when it is an optional `:`, one or more `-`, an optional
    `:`, and optionally one final line feed. -/
theorem C19_separator_cell (s : Str) : isSeparatorCell s = true ↔ SeparatorShape s :=
  Lemmas.isSeparatorCell_iff s

/-- `match_TableRow` of the Markdown matcher succeeds iff the indentation is right and no cell is
    a separator; the token then carries the cells and keyword `|`. -/
theorem C19_table_row (μ : MState) (t : Token) (l : Str) :
    Md.matchLine .TableRow μ t l =
      if rowIndentOk l = true ∧ ∀ c ∈ tableCells l, isSeparatorCell c.2 = false then
        some (some (setMatched μ t .TableRow (keyword := some [124]) (items := tableCells l)))
      else some none :=
  Lemmas.md_matchLine_row μ t l

/-- Tags, characterised by three equations that determine `tagSpans` on every string: nothing in
    the empty string; a complete span — backtick, `@`, non-empty backtick-free body, backtick — at
    the front is reported at offset 0 as `@body` and scanning resumes behind its closing
    backtick; where no complete span starts, scanning moves on by one code point.
    (`Lemmas.shiftSpans n` adds `n` to every offset.) -/
theorem C19_tags :
    tagSpans [] = [] ∧
    (∀ body post : Str, body ≠ [] → 96 ∉ body →
      tagSpans ([96, 64] ++ body ++ [96] ++ post) =
        (0, 64 :: body) :: Lemmas.shiftSpans (body.length + 3) (tagSpans post)) ∧
    (∀ (c : Nat) (cs : Str),
      (¬ ∃ body post, body ≠ [] ∧ 96 ∉ body ∧ c :: cs = [96, 64] ++ body ++ [96] ++ post) →
      tagSpans (c :: cs) = Lemmas.shiftSpans 1 (tagSpans cs)) :=
  ⟨Lemmas.tagSpans_nil, Lemmas.tagSpans_span, Lemmas.tagSpans_step⟩

/-- Consequence: a line written as segments `pre_i ++ backtick ++ @body_i ++ backtick` (each
    `pre_i` free of backtick-`@`, each body non-empty and backtick-free) followed by any `post`
    yields exactly those tags, in order, each with the offset of its opening backtick, followed
    by whatever `post` contains. -/
theorem C19_tags_in_order (segs : List (Str × Str)) (post : Str)
    (h : ∀ x ∈ segs, noTagOpen x.1 = true ∧ x.2 ≠ [] ∧ 96 ∉ x.2) :
    tagSpans (renderTagLine segs post) =
      expectedSpans segs 0 ++ Lemmas.shiftSpans (segmentsLength segs) (tagSpans post) :=
  Lemmas.tagSpans_render segs post h

/-- … and a string without backtick has no tags. -/
theorem C19_tags_none (s : Str) (h : 96 ∉ s) : tagSpans s = [] :=
  Lemmas.tagSpans_no_backtick s h

/-- `match_TagLine` of the Markdown matcher fails iff the trimmed line has no tag span; otherwise
    each tag is reported with column `indent + offset + 2`: the offset is that of the opening
    backtick in the trimmed line, counted from 0, so this is the 1-based column of the `@`. -/
theorem C19_tag_line (μ : MState) (t : Token) (l : Str) :
    Md.matchLine .TagLine μ t l =
      if tagSpans (trimmed l) = [] then some none
      else some (some (setMatched μ t .TagLine
        (items := (tagSpans (trimmed l)).map fun (st, tx) => (lineIndent l + st + 2, tx)))) :=
  Lemmas.md_matchLine_tags μ t l

/-- Lines lacking the prefix: a line whose trimmed text does not start with `#` matches no title
    kind, and one whose trimmed text does not start with a bullet matches no step — for every
    dialect. -/
theorem C19_no_prefix_no_match (μ : MState) (t : Token) (l : Str) :
    ((trimmed l).head? ≠ some 35 → ∀ ty : Kind, ty.isTitle = true → Md.matchLine ty μ t l = some none) ∧
    ((∀ b r, trimmed l = b :: r → b ≠ 42 ∧ b ≠ 43 ∧ b ≠ 45) → Md.matchLine .StepLine μ t l = some none) :=
  Lemmas.md_no_prefix μ t l

/-! ### non-vacuity -/

/-- French scenario-outline header at depth 3, indented by one blank: keyword verbatim, trimmed
    title, column 6 (1 blank + 3 hashes + 1 blank + 1). -/
example :
    ((MState.init Gen.dialects (lit "fr")).bind fun μ =>
      let l := lit " ### Plan du scénario:  Un titre \n"
      (Md.matchLine .ScenarioLine μ ⟨some l, 1, none, none, none, none, none, 0, [], []⟩ l).bind fun o =>
        o.map fun tok => (tok.keyword, tok.text, tok.col)) =
    some (some (lit "Plan du scénario"), some (lit "Un titre"), some 6) := by
  kdecide

/-- French bullet steps: `- Soit un x`, and `*  Étant donné qu'il pleut` (two blanks after the
    bullet) where `Étant donné qu'` is listed before the shorter `Étant donné `. -/
example :
    ((MState.init Gen.dialects (lit "fr")).bind fun μ =>
      [lit "  - Soit un x\n", lit "*  Étant donné qu'il pleut\n"].mapM fun l =>
        (Md.matchLine .StepLine μ ⟨some l, 1, none, none, none, none, none, 0, [], []⟩ l).bind fun o =>
          o.map fun tok => (tok.keyword, tok.text, tok.col)) =
    some [(some (lit "Soit "), some (lit "un x"), some 5),
          (some (lit "Étant donné qu'"), some (lit "il pleut"), some 4)] := by
  kdecide

/-- The same words without header or bullet prefix are neither a title line nor a step. -/
example :
    ((MState.init Gen.dialects (lit "fr")).map fun μ =>
      [(Kind.ScenarioLine, lit "Plan du scénario: Un titre\n"), (Kind.StepLine, lit "Soit un x\n"),
       (Kind.FeatureLine, lit "#Fonctionnalité: sans blanc\n"),
       (Kind.FeatureLine, lit "####### Fonctionnalité: sept\n")].map fun (k, l) =>
        (Md.matchLine k μ ⟨some l, 1, none, none, none, none, none, 0, [], []⟩ l).map Option.isSome) =
    some [some false, some false, some false, some false] := by
  kdecide

/-- Table indentation 0–6, separator shapes, tag spans with their offsets. -/
example : (List.range 8).map (fun n => rowIndentOk (List.replicate n 32 ++ lit "| a |\n")) =
    [false, false, true, true, true, true, false, false] := by decide

example : [lit "---", lit ":-:", lit ":--", lit "-:\n", lit "-", lit "", lit ":", lit "- -", lit "-a"].map isSeparatorCell =
    [true, true, true, true, true, false, false, false, false] := by decide

example : tagSpans (lit "`@a` x `code` `@bc`` `@` `@d") = [(0, lit "@a"), (14, lit "@bc")] := by decide

example : renderTagLine [(lit "", lit "a"), (lit " x `code` ", lit "bc")] (lit "` `@` `@d") =
    lit "`@a` x `code` `@bc`` `@` `@d" := by decide

end GV
