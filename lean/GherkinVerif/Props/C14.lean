/-
  Props/C14.lean — property C14: rejected documents get errors at the right place with the right
  expectation.  Proved here: message form, de-duplication and cap, expected lists = the state's
  tests (and, with C02Siblings, the same list every sibling prints), recovery from the same
  position.  `C14_reject_iff` at text level and `C14_stop_is_first` are checked on the
  implementation by the harness oracles and not yet proved (see DESIGN.md §C14).
-/
import GherkinVerif.Lemmas.Glue
import GherkinVerif.Spec.TableFacts
import GherkinVerif.Gen.ParserTable
import GherkinVerif.KDecide
namespace GV

/-- Every message starts with its own `(line:column): ` position (column 0 when absent). -/
theorem C14_message_form (e : PErr) :
    e.message = [40] ++ natToStr e.loc.line ++ [58] ++ natToStr (e.loc.col.getD 0) ++ lit "): " ++ e.body := rfl

/-- An unexpected-line error lists the state's expected kinds joined by ", " and quotes the
    trimmed line; an unexpected end of file says so; both are located at the token. -/
theorem C14_unexpected_form (row : StateRow) (t : Token) :
    (∀ l, t.line = some l →
      (unexpectedErr row t).body = lit "expected: " ++ joinWith (lit ", ") (row.expected.map lit) ++
        lit ", got '" ++ strip (trimmed l) ++ lit "'" ∧ (unexpectedErr row t).loc.line = t.lineNo) ∧
    (t.line = none →
      (unexpectedErr row t).body = lit "unexpected end of file, expected: " ++ joinWith (lit ", ") (row.expected.map lit) ∧
      (unexpectedErr row t).loc = t.loc) :=
  Lemmas.unexpectedErr_form row t

/-- facts about the regenerated table: each state's expected list is the de-duplicated list of
    its tests in order; every error tail returns its own state (parsing carries on from the same
    position with the next line). -/
theorem C14_expected_lists : Spec.expectedIsTests Gen.parserTable = true := by kdecide
theorem C14_recovery_same_state : Spec.errTailSelf Gen.parserTable = true := by kdecide

/-- the state after a tag line not followed by Examples or Scenario is the Rule-header tags state,
    whose list is that of a Rule header -/
theorem C14_rule_header_tags_state :
    (Gen.parserTable.row? 18).map (·.expected) = some ["#TagLine", "#RuleLine", "#Comment", "#Empty"] := by
  kdecide

/-- Identical messages are reported once and parsing stops after the eleventh error: in
    collecting mode the error list never holds two equal messages and never exceeds `cap + 1`. -/
theorem C14_dedup_cap (D : List Dialect) (T : Table) (μ : MState) (ids : Nat) (src : Str)
    (es : List PErr) (comp : Bool) (h : (parseWith D T false μ ids src).1 = .rejected es comp) :
    (es.map PErr.message).Nodup ∧ es.length ≤ T.errorCap + 1 :=
  ⟨((Lemmas.parse_outcome D T false μ ids src es comp h).2 rfl).2.2.2,
   ((Lemmas.parse_outcome D T false μ ids src es comp h).2 rfl).2.2.1⟩

/-- A rejected document never yields an AST: the outcome is `rejected` or `ok`, never both —
    and the stream emits only parseError envelopes for it. -/
theorem C14_no_partial_output (D : List Dialect) (T : Table) (opts : Opts) (ids : Nat) (uri data : Str)
    (μ : MState) (hμ : MState.init D (lit "en") = some μ) (es : List PErr) (comp : Bool)
    (h : (parseWith D T false μ ids data).1 = .rejected es comp) :
    (streamEnum D T opts ids uri data).1 = es.map (Envelope.parseError uri) :=
  Lemmas.stream_rejected D T opts ids uri data μ hμ es comp h

end GV
