/-
  Props/C12.lean — property C12: table cells are split and unescaped as documented; tables
  are rectangular.  Property theorems only; helper lemmas live in Lemmas/Cells.lean.
-/
import GherkinVerif.Lemmas.Cells
import GherkinVerif.KDecide
namespace GV

/-- The single-pass loop of `split_table_cells` + `table_cells` computes exactly the documented
    two-phase reading (texts and columns), for every physical line. -/
theorem C12_split_eq_spec (line : Str) : tableCells line = Spec.cells line :=
  Lemmas.tableCells_eq_spec line

/-- Round trip: cell texts without blanks at their ends, written with the three escapes and any
    blank padding, are read back unchanged. -/
theorem C12_roundtrip (cells : List (Str × Str × Str))
    (h : ∀ x ∈ cells, (∀ c ∈ x.1, isBlank c = true) ∧ (∀ c ∈ x.2.2, isBlank c = true) ∧ Spec.Trimmed x.2.1) :
    Spec.cellTexts (Spec.renderRow cells) = cells.map (·.2.1) :=
  Lemmas.cellTexts_renderRow cells h

/-- … and through the model of the code on a whole physical line: any indentation, any trailing
    whitespace (including the line break). -/
theorem C12_roundtrip_line (ind tail : Str) (cells : List (Str × Str × Str))
    (hi : ∀ c ∈ ind, isSpace c = true) (ht : ∀ c ∈ tail, isSpace c = true)
    (h : ∀ x ∈ cells, (∀ c ∈ x.1, isBlank c = true) ∧ (∀ c ∈ x.2.2, isBlank c = true) ∧ Spec.Trimmed x.2.1) :
    (tableCells (ind ++ Spec.renderRow cells ++ tail)).map (·.2) = cells.map (·.2.1) :=
  Lemmas.tableCells_renderRow ind tail cells hi ht h

/-- `ensure_cell_count`: no row is reported iff all rows have the first row's cell count … -/
theorem C12_rectangular_iff (rows : List Row) :
    raggedRow rows = none ↔ ∀ r ∈ rows, ∀ r0, rows.head? = some r0 → r.cells.length = r0.cells.length :=
  Lemmas.raggedRow_none_iff rows

/-- … and the row reported is the first deviating one. -/
theorem C12_ragged_first (rows : List Row) (r : Row) (h : raggedRow rows = some r) :
    ∃ pre post r0, rows = pre ++ r :: post ∧ rows.head? = some r0 ∧
      r.cells.length ≠ r0.cells.length ∧ ∀ x ∈ pre, x.cells.length = r0.cells.length :=
  Lemmas.raggedRow_some_first rows r h

/-- non-vacuity: a concrete row with an escaped pipe, an escaped newline preceded by a blank
    (the case the unrepaired code got wrong), and an empty cell. -/
example : tableCells (lit "  | a \\n| b\\|c |  |\n") = [(5, lit "a \n"), (11, lit "b|c"), (19, [])] := by
  kdecide

end GV
