/-
  Props/C01Linear.lean — property C01, the linear work bound: the number of line-matching
  operations (`TokenMatcher.match_*` calls) of one parse is at most a constant, computed from the
  parser table, times the number of lines plus one.

  The bound is false for arbitrary tables (a guarded test that fires on every line makes its
  look-ahead rescan the rest of the queue: quadratic; see Lemmas/Glue.lean).  What rules this out
  for the generated table are the facts of Spec/QueueFacts.lean: a token waits in the look-ahead
  queue only while the state is a tag state, where no look-ahead starts; so each token is tested
  by at most one state (`maxTests`) and visited by the look-aheads of at most one state
  (`maxGuards` passes of at most `maxLookaheadTests` calls each).
-/
import GherkinVerif.Lemmas.QueueLoop
import GherkinVerif.Gen.ParserTable
import GherkinVerif.Gen.Dialects
import GherkinVerif.KDecide
namespace GV

theorem C01_fact_queue : Spec.queueFacts Gen.parserTable = true := by kdecide
theorem C01_fact_keywords : Spec.queueDialectFacts Gen.dialects = true := by kdecide

/-- the constant of the regenerated table: 12 tests in the largest state, at most 2 guarded tests
    per state, at most 4 matcher calls per token and look-ahead -/
theorem C01_work_per_token : Spec.workPerToken Gen.parserTable = 20 ∧
    Spec.maxTests Gen.parserTable = 12 ∧ Spec.maxGuards Gen.parserTable = 2 ∧
    Spec.maxLookaheadTests Gen.parserTable = 4 := by kdecide

/-- Linear matching work, for any table and dialect table passing the checks: at most
    `workPerToken T` matcher calls per line (and for the end-of-file token), whatever the outcome. -/
theorem C01_match_calls_linear_generic (D : List Dialect) (T : Table)
    (hD : Spec.queueDialectFacts D = true) (hT : Spec.queueFacts T = true)
    (stop : Bool) (μ : MState) (ids : Nat) (src : Str) (hμ : (μ.reset D).dialect ∈ D) :
    (parseWith D T stop μ ids src).2.calls ≤ Spec.workPerToken T * ((splitLines src).length + 1) :=
  Lemmas.calls_linear D T hD hT stop μ ids src hμ

/-- Linear matching work of the generated parser: at most 20 line-matching operations per line of
    the source text (plus 20 for the end of file), for every source text, in both error modes,
    accepted or rejected. -/
theorem C01_match_calls_linear (stop : Bool) (μ : MState) (ids : Nat) (src : Str)
    (hμ : (μ.reset Gen.dialects).dialect ∈ Gen.dialects) :
    (parseWith Gen.dialects Gen.parserTable stop μ ids src).2.calls ≤
      Spec.workPerToken Gen.parserTable * ((splitLines src).length + 1) :=
  Lemmas.calls_linear _ _ C01_fact_keywords C01_fact_queue stop μ ids src hμ

theorem C01_match_calls_linear_20 (stop : Bool) (μ : MState) (ids : Nat) (src : Str)
    (hμ : (μ.reset Gen.dialects).dialect ∈ Gen.dialects) :
    (parseWith Gen.dialects Gen.parserTable stop μ ids src).2.calls ≤ 20 * ((splitLines src).length + 1) := by
  have h := C01_match_calls_linear stop μ ids src hμ
  rw [C01_work_per_token.1] at h
  exact h

/-- non-vacuity: the counter counts — 99 calls for a 16-line document with nested look-ahead
    (bound: 20 · 17 = 340) -/
example : (MState.init Gen.dialects (lit "en")).map
      (fun μ => (parseWith Gen.dialects Gen.parserTable false μ 0
        (lit "Feature: f\nScenario: s\nGiven x\n@a\n\n#c\n@b\nExamples:\n|a|\n@t\n\n@u\nScenario: z\n@x\n@y\nRule: r\n")).2.calls) =
    some 99 := by kdecide

end GV
