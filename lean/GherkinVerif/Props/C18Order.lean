/-
  Props/C18Order.lean — property C18, the order part: the main loop reads the tokens of lines
  1, 2, 3, … in this order, without gap, repeat or swap, however often a look-ahead has moved
  tokens through the queue; for an accepted document the builder therefore receives each physical
  line exactly once, in source order, with its own text and line number, followed by exactly one
  end-of-file token.

  Proved for every source text, both error modes, every matcher state whose dialect is one of the
  dialect table, for every table and dialect table that pass the Boolean checks of
  Spec/QueueFacts.lean; the checks are evaluated by the kernel on the tables regenerated from the
  current parser.py and gherkin-languages.json.  (The remaining parts of C18 — built/unexpected
  partition — are in Props/C18.lean.)
-/
import GherkinVerif.Lemmas.QueueLoop
import GherkinVerif.Gen.ParserTable
import GherkinVerif.Gen.Dialects
import GherkinVerif.KDecide
namespace GV

/-! facts about the regenerated tables -/

/-- all look-aheads step over the same kinds (`Empty`, `Comment`, `TagLine`) and wait for title
    kinds; tag states are closed under stepped-over lines; every guarded test is a `TagLine` test
    into a tag state and is followed by another `TagLine` test into a tag state -/
theorem C18_fact_queue : Spec.queueFacts Gen.parserTable = true := by kdecide

/-- no keyword of any dialect starts like a comment, tag, table, doc-string or blank line -/
theorem C18_fact_keywords : Spec.queueDialectFacts Gen.dialects = true := by kdecide

/-- every test hands its token to the builder exactly once -/
theorem C18_fact_builds : Spec.oneBuildLast Gen.parserTable = true := by kdecide

/-! the statements, for any table and dialect table passing the checks -/

/-- The line numbers of the tokens the main loop reads are 1, 2, 3, …, n in this order: the
    look-ahead queue never drops, repeats or reorders a line, whatever the outcome of the parse. -/
theorem C18_reads_in_order_generic (D : List Dialect) (T : Table)
    (hD : Spec.queueDialectFacts D = true) (hT : Spec.queueFacts T = true)
    (stop : Bool) (μ : MState) (ids : Nat) (src : Str) (hμ : (μ.reset D).dialect ∈ D) :
    let ctx := (parseWith D T stop μ ids src).2
    ctx.reads = List.range' 1 ctx.reads.length :=
  Lemmas.reads_in_order D T hD hT stop μ ids src hμ

/-- For an accepted document the builder receives one token per physical line, in source order,
    each with its own line number and its own text, then exactly one end-of-file token. -/
theorem C18_accepted_sequence_generic (D : List Dialect) (T : Table)
    (hD : Spec.queueDialectFacts D = true) (hT : Spec.queueFacts T = true) (hB : Spec.oneBuildLast T = true)
    (stop : Bool) (μ : MState) (ids : Nat) (src : Str) (hμ : (μ.reset D).dialect ∈ D) (d : Doc)
    (h : (parseWith D T stop μ ids src).1 = .ok d) :
    let ctx := (parseWith D T stop μ ids src).2
    ctx.builds.map (·.lineNo) = List.range' 1 ((splitLines src).length + 1) ∧
    ctx.builds.map (·.line) = (splitLines src).map some ++ [none] :=
  Lemmas.accepted_sequence D T hD hT hB stop μ ids src hμ d h

/-! the statements for the regenerated parser table and dialect table -/

/-- The main loop of the generated parser reads the tokens of lines 1, 2, 3, … in order, with
    no gap, repeat or swap — for every source text, in both error modes, whatever the outcome. -/
theorem C18_reads_in_order (stop : Bool) (μ : MState) (ids : Nat) (src : Str)
    (hμ : (μ.reset Gen.dialects).dialect ∈ Gen.dialects) :
    let ctx := (parseWith Gen.dialects Gen.parserTable stop μ ids src).2
    ctx.reads = List.range' 1 ctx.reads.length :=
  Lemmas.reads_in_order _ _ C18_fact_keywords C18_fact_queue stop μ ids src hμ

/-- For every accepted document the builder sees each physical line exactly once, in order, with
    that line's number and text, followed by exactly one end-of-file token. -/
theorem C18_accepted_sequence (stop : Bool) (μ : MState) (ids : Nat) (src : Str)
    (hμ : (μ.reset Gen.dialects).dialect ∈ Gen.dialects) (d : Doc)
    (h : (parseWith Gen.dialects Gen.parserTable stop μ ids src).1 = .ok d) :
    let ctx := (parseWith Gen.dialects Gen.parserTable stop μ ids src).2
    ctx.builds.map (·.lineNo) = List.range' 1 ((splitLines src).length + 1) ∧
    ctx.builds.map (·.line) = (splitLines src).map some ++ [none] :=
  Lemmas.accepted_sequence _ _ C18_fact_keywords C18_fact_queue C18_fact_builds stop μ ids src hμ d h

/-- The dialect hypothesis holds for every matcher state made by the constructor
    (`TokenMatcher(name)` looks the dialect up in the table) … -/
theorem C18_dialect_of_init (name : Str) (μ : MState) (h : MState.init Gen.dialects name = some μ) :
    (μ.reset Gen.dialects).dialect ∈ Gen.dialects :=
  Lemmas.reset_dialect_mem _ _ (Lemmas.init_dialect_mem _ _ _ h)

/-- … and is kept by `reset()`. -/
theorem C18_dialect_of_mem (μ : MState) (h : μ.dialect ∈ Gen.dialects) :
    (μ.reset Gen.dialects).dialect ∈ Gen.dialects :=
  Lemmas.reset_dialect_mem _ _ h

/-! non-vacuity: a document whose tag / blank / comment runs make both look-aheads fire, the second
    one on the queue the first one left (lines 10–13: the `Examples` look-ahead fails, the
    `Scenario` look-ahead re-reads the queue) -/

def C18_demoSrc : Str :=
  lit "Feature: f\nScenario: s\nGiven x\n@a\n\n#c\n@b\nExamples:\n|a|\n@t\n\n@u\nScenario: z\n@x\n@y\nRule: r\n"

example : (MState.init Gen.dialects (lit "en")).map
      (fun μ => (parseWith Gen.dialects Gen.parserTable false μ 0 C18_demoSrc).2.reads) =
    some [1, 2, 3, 4, 5, 6, 7, 8, 9, 10, 11, 12, 13, 14, 15, 16, 17] := by kdecide

example : (MState.init Gen.dialects (lit "en")).map
      (fun μ => (parseWith Gen.dialects Gen.parserTable false μ 0 C18_demoSrc).2.builds.map (·.lineNo)) =
    some [1, 2, 3, 4, 5, 6, 7, 8, 9, 10, 11, 12, 13, 14, 15, 16, 17] := by kdecide

/-- a rejected document (a tag with whitespace ends the first look-ahead, `foo` is unexpected):
    the lines are still read in order -/
example : (MState.init Gen.dialects (lit "en")).map
      (fun μ => (parseWith Gen.dialects Gen.parserTable false μ 0
        (lit "Feature: f\nScenario: s\nGiven x\n@a\n\n@b c\nExamples:\nfoo\n")).2.reads) =
    some [1, 2, 3, 4, 5, 6, 7, 8, 9] := by kdecide

end GV
