/-
  Props/C01NoCrashAll.lean — property C01, last sentence: "For every source text, parsing either
  returns a Gherkin document or raises the library's parser error … No other exception type
  ever escapes."

  In the model every Python run-time error of the parser — `AttributeError` on a token that
  `get_token` did not find, `IndexError` on an empty stack or an empty row list, a `None` field,
  `RuntimeError: Unknown state`, a look-ahead that does not exist, `get_result()` returning
  `None` — is the explicit outcome `Outcome.crash w` of `parseWith` (Model/Parser.lean), produced
  by `BErr.crash` in the builder (Model/Builder.lean) or by `throw (.crash …)` in the glue.

  `C01_no_crash`: that outcome is unreachable — for EVERY source text (accepted or rejected, with
  ragged tables, unexpected lines, unexpected end of file, bad tags, unknown languages, more
  errors than the limit), every matcher state, every id counter, in BOTH error modes.
  (Props/C01NoCrash.lean proved the builder side for the trees of accepted documents only, under
  the explicit hypotheses `Complete`, `WellMatched`, `DocStringsOpened`; here they are established
  along the run, for all runs, and the glue's own crash sites are covered too.)

  How.  `Spec.noCrashCheck T fuel` (Lemmas/NoCrashRun.lean) is a Boolean check of the transition
  table alone.  It computes, by exploration from the start state, for every state the rule types
  of the nodes open on the builder's stack, per node the children required by the builder
  (`Spec.required`) that are certainly present, and whether the matcher is inside a doc string;
  and it checks, for every branch of every state, that the productions of the branch
    * never pop a node whose required children are not certainly present (a finished child counts
      as certainly present only if its rule type is in `Spec.sureRules`, i.e. its `transform_node`
      cannot raise: a node that raises the ragged-table error is dropped in collecting mode —
      recorded, popped, not added to its parent; no rule REQUIRES such a child),
    * never build onto / pop from a too short stack,
    * never make a closing doc-string separator the first separator of a `DocString` node,
    * lead to a state with a row (or, on end of file, to the state where only the document node
      is open), with a typing at least as informative as the one recorded for the target,
  that guards refer to existing look-aheads which do not test doc-string separators, that
  error tails return their own state, and that in EVERY state the node on top has its required
  children (the `end_rule` after the loop pops it, also after an unexpected end of file).
  The kernel evaluates the check on the regenerated table (`C01_fact_no_crash`);
  `Lemmas.NC.parseWith_no_crash` lifts it to all runs: the typing is an invariant of the parse
  loop (Lemmas/NoCrashLoop.lean).  Nothing is specific to today's table: `C01_no_crash_generic`.

  Corollaries: the outcome is a document or a parser error (`C01_parse_outcome_total`, with
  `C01_parse_terminates`), and the text-level acceptance theorems of Props/C02Text.lean without
  their crash alternative / no-crash hypothesis.
-/
import GherkinVerif.Lemmas.NoCrashLoop
import GherkinVerif.Lemmas.TextMain
import GherkinVerif.Gen.ParserTable
import GherkinVerif.Gen.Dialects
import GherkinVerif.KDecide
namespace GV

/-! ### facts about the regenerated tables -/

/-- the crash-freedom check of the transition table (typing computed, then checked) -/
theorem C01_fact_no_crash : Spec.noCrashCheck Gen.parserTable 100000 = true := by kdecide

/-- no look-ahead expects or skips `EOF` / `Other` (termination) -/
theorem C01A_fact_lookaheads : Spec.lookaheadsStopAtEOF Gen.parserTable = true := by kdecide
/-- the C05 keyword facts, and: no keyword starts with `"` or a backtick
    (= `C02T_fact_dialects`; Props/C02Text.lean cannot be imported together with the typed-stack
    lemmas, so the facts it uses are evaluated again here) -/
theorem C01A_fact_dialects : Spec.textDialectFacts Gen.dialects = true := by kdecide
/-- look-aheads uniform, tag states closed, guarded tests followed by tag-line tests -/
theorem C01A_fact_queue : Spec.queueFacts Gen.parserTable = true := by kdecide
/-- comment and blank lines are accepted by some test of every state -/
theorem C01A_fact_comment_blank : Spec.commentBlankTested Gen.parserTable = true := by kdecide

/-! ### no crash -/

/-- Generic form: for every transition table `T` that passes the Boolean check, every dialect
    table `D`, both error modes, every matcher state, id counter and source text: the parse does
    not end in the crash outcome. -/
theorem C01_no_crash_generic (D : List Dialect) (T : Table) (fuel : Nat) (hT : Spec.noCrashCheck T fuel = true)
    (stop : Bool) (μ : MState) (ids : Nat) (src : Str) :
    ∀ w, (parseWith D T stop μ ids src).1 ≠ .crash w :=
  fun w => Lemmas.NC.parseWith_no_crash D T fuel hT stop μ ids src w

/-- **No other exception type ever escapes.**  For the regenerated parser table and dialect
    table, every source text, every matcher state and id counter, stop-at-first-error or
    collecting mode: `parseWith` never returns `Outcome.crash`.  (The hypothesis on the matcher's
    dialect — what the other C01/C02 text-level theorems assume — is not used.) -/
theorem C01_no_crash (stop : Bool) (μ : MState) (ids : Nat) (src : Str)
    (_hμ : (μ.reset Gen.dialects).dialect ∈ Gen.dialects) :
    ∀ w, (parseWith Gen.dialects Gen.parserTable stop μ ids src).1 ≠ .crash w :=
  C01_no_crash_generic Gen.dialects Gen.parserTable 100000 C01_fact_no_crash stop μ ids src

/-- … without the unused hypothesis -/
theorem C01_no_crash_any (stop : Bool) (μ : MState) (ids : Nat) (src : Str) :
    ∀ w, (parseWith Gen.dialects Gen.parserTable stop μ ids src).1 ≠ .crash w :=
  C01_no_crash_generic Gen.dialects Gen.parserTable 100000 C01_fact_no_crash stop μ ids src

/-- The outcome of a parse is total: a Gherkin document, or the library's parser error
    (`composite = false`: a bare `ParserException`, stop mode; `true`: a
    `CompositeParserException`).  The model's two other outcomes — a crash, running out of fuel —
    never occur (`C01_no_crash`, `Lemmas.parse_terminates`). -/
theorem C01_parse_outcome_total (stop : Bool) (μ : MState) (ids : Nat) (src : Str) :
    (∃ d, (parseWith Gen.dialects Gen.parserTable stop μ ids src).1 = .ok d) ∨
    (∃ es comp, (parseWith Gen.dialects Gen.parserTable stop μ ids src).1 = .rejected es comp) := by
  have hnc := C01_no_crash_any stop μ ids src
  have hnf := Lemmas.parse_terminates Gen.dialects Gen.parserTable C01A_fact_lookaheads stop μ ids src
  cases h : (parseWith Gen.dialects Gen.parserTable stop μ ids src).1 with
  | ok d => exact Or.inl ⟨d, rfl⟩
  | rejected es comp => exact Or.inr ⟨es, comp, rfl⟩
  | crash w => exact absurd h (hnc w)
  | fuel => exact absurd h hnf

/-- generic form -/
theorem C01_parse_outcome_total_generic (D : List Dialect) (T : Table) (fuel : Nat)
    (hT : Spec.noCrashCheck T fuel = true) (hE : Spec.lookaheadsStopAtEOF T = true)
    (stop : Bool) (μ : MState) (ids : Nat) (src : Str) :
    (∃ d, (parseWith D T stop μ ids src).1 = .ok d) ∨
    (∃ es comp, (parseWith D T stop μ ids src).1 = .rejected es comp) := by
  have hnc := C01_no_crash_generic D T fuel hT stop μ ids src
  have hnf := Lemmas.parse_terminates D T hE stop μ ids src
  cases h : (parseWith D T stop μ ids src).1 with
  | ok d => exact Or.inl ⟨d, rfl⟩
  | rejected es comp => exact Or.inr ⟨es, comp, rfl⟩
  | crash w => exact absurd h (hnc w)
  | fuel => exact absurd h hnf

/-! ### the text-level acceptance theorems without the crash alternative -/

/-- `C02_text_accepted` (Props/C02Text.lean) without its third alternative: accepted at text
    level ⇒ the parser accepts the document, or rejects it with ragged-table errors only. -/
theorem C02_text_accepted_nc (μ : MState) (ids : Nat) (src : Str) (hμ : (μ.reset Gen.dialects).dialect ∈ Gen.dialects)
    (h : Spec.textAccepts Gen.dialects Gen.parserTable 0 (μ.reset Gen.dialects) (splitLines src) = true) :
    (∃ d, (parseWith Gen.dialects Gen.parserTable false μ ids src).1 = .ok d) ∨
    (∃ es, (parseWith Gen.dialects Gen.parserTable false μ ids src).1 = .rejected es true ∧
      ∀ e ∈ es, e.kind = .raggedTable) := by
  rcases Lemmas.text_accept_A C01A_fact_dialects C01A_fact_queue C01A_fact_comment_blank C01A_fact_lookaheads
    μ ids src hμ h with h | h | ⟨w, hw⟩
  · exact Or.inl h
  · exact Or.inr h
  · exact absurd hw (C01_no_crash_any false μ ids src w)

/-- `C14_text_rejected` without its crash alternative: rejected at text level ⇒ the parser
    rejects the document with an error that is not a ragged-table error, or is cut short by the
    error limit. -/
theorem C14_text_rejected_nc (μ : MState) (ids : Nat) (src : Str) (hμ : (μ.reset Gen.dialects).dialect ∈ Gen.dialects)
    (h : Spec.textAccepts Gen.dialects Gen.parserTable 0 (μ.reset Gen.dialects) (splitLines src) = false) :
    ∃ es, (parseWith Gen.dialects Gen.parserTable false μ ids src).1 = .rejected es true ∧
      ((∃ e ∈ es, e.kind ≠ .raggedTable) ∨ Gen.parserTable.errorCap < es.length) := by
  rcases Lemmas.text_accept_B C01A_fact_dialects C01A_fact_queue C01A_fact_comment_blank C01A_fact_lookaheads
    μ ids src hμ h with h | ⟨w, hw⟩
  · exact h
  · exact absurd hw (C01_no_crash_any false μ ids src w)

/-- The acceptance theorem `C02_text_accept_iff` without its hypothesis `hnc`: when the error
    limit is not hit, the document is accepted, or rejected with ragged-table errors only, iff the
    text-level acceptor accepts it. -/
theorem C02_text_accept_iff_nc (μ : MState) (ids : Nat) (src : Str) (hμ : (μ.reset Gen.dialects).dialect ∈ Gen.dialects)
    (hcap : ∀ es comp, (parseWith Gen.dialects Gen.parserTable false μ ids src).1 = .rejected es comp →
      es.length ≤ Gen.parserTable.errorCap) :
    ((∃ d, (parseWith Gen.dialects Gen.parserTable false μ ids src).1 = .ok d) ∨
     (∃ es comp, (parseWith Gen.dialects Gen.parserTable false μ ids src).1 = .rejected es comp ∧
        ∀ e ∈ es, e.kind = .raggedTable)) ↔
    Spec.textAccepts Gen.dialects Gen.parserTable 0 (μ.reset Gen.dialects) (splitLines src) = true :=
  Lemmas.text_accept_iff C01A_fact_dialects C01A_fact_queue C01A_fact_comment_blank C01A_fact_lookaheads
    μ ids src hμ (C01_no_crash_any false μ ids src) hcap

/-- the generic form, for any table and dialect table passing the checks -/
theorem C02_text_accept_iff_nc_generic (D : List Dialect) (T : Table) (fuel : Nat)
    (hN : Spec.noCrashCheck T fuel = true) (hf : Spec.textDialectFacts D = true)
    (hT : Spec.queueFacts T = true) (hCB : Spec.commentBlankTested T = true)
    (hE : Spec.lookaheadsStopAtEOF T = true) (μ : MState) (ids : Nat) (src : Str) (hμ : (μ.reset D).dialect ∈ D)
    (hcap : ∀ es comp, (parseWith D T false μ ids src).1 = .rejected es comp → es.length ≤ T.errorCap) :
    ((∃ d, (parseWith D T false μ ids src).1 = .ok d) ∨
     (∃ es comp, (parseWith D T false μ ids src).1 = .rejected es comp ∧ ∀ e ∈ es, e.kind = .raggedTable)) ↔
    Spec.textAccepts D T 0 (μ.reset D) (splitLines src) = true :=
  Lemmas.text_accept_iff hf hT hCB hE μ ids src hμ (C01_no_crash_generic D T fuel hN false μ ids src) hcap

/-! ### non-vacuity -/
section examples

/-- the typing computed for the regenerated table has an entry for each of the 42 states with a
    row and for the end state -/
example : (Spec.ncompute Gen.parserTable 100000).length = 43 := by kdecide

/-- … e.g. in state 12 (a step line of a scenario has been read) the open nodes are, innermost
    first, `Step` holding its `StepLine`, `Scenario` holding its `ScenarioLine`,
    `ScenarioDefinition` (its `Scenario` child is still open), `Feature`, `GherkinDocument`, the
    builder's root; the matcher is outside a doc string -/
example : Spec.nlookup (Spec.ncompute Gen.parserTable 100000) 12 =
    some ([(.Step, [.tok .StepLine]), (.Scenario, [.tok .ScenarioLine]), (.ScenarioDefinition, []),
      (.Feature, []), (.GherkinDocument, []), (.None_, [])], false) := by kdecide

/-- the outcome of a parse, flattened for comparison: `ok`, or the number of errors and whether
    they come as a `CompositeParserException`, or the message of a crash -/
def outcomeTag : Outcome → String × Nat
  | .ok _ => ("ok", 0)
  | .rejected es c => (if c then "composite" else "single", es.length)
  | .crash w => ("crash: " ++ w, 0)
  | .fuel => ("fuel", 0)

def tryDoc (stop : Bool) (s : String) : Option (String × Nat) :=
  (MState.init Gen.dialects (lit "en")).map fun μ =>
    outcomeTag (parseWith Gen.dialects Gen.parserTable stop μ 0 (lit s)).1

/-- adversarial documents, collecting mode: a ragged table then end of file; a ragged table then
    an unexpected line; tags then end of file; an open doc string then end of file; `Examples:`
    without a table; a ragged examples table, a bad tag and an unexpected line; more errors than the
    limit; an unknown language; a ragged table in a background and doc-string delimiters out of
    step; the empty document -/
example : [
    "Feature: f\nScenario: s\nGiven x\n|a|\n|a|b|",
    "Feature: f\nScenario: s\nGiven x\n|a|\n|a|b|\n\"\"\"\n",
    "Feature: f\n@t\n",
    "Feature: f\nScenario: s\nGiven x\n\"\"\"\nabc\n",
    "Feature: f\nScenario Outline: s\nGiven x\nExamples:\n",
    "Feature: f\nScenario Outline: s\nGiven x\nExamples:\n|a|\n|b|c|\n@x y\nfoo",
    "foo\nbar\n1\n2\n3\n4\n5\n6\n7\n8\n9\n10\n11\n12",
    "# language: xx\nFeature: f",
    "Feature: f\nBackground:\nGiven x\n|a|\n|b|c|\nScenario: s\nGiven y\n\"\"\"\n\"\"\"\n\"\"\"\n",
    ""].map (tryDoc false) =
    [some ("composite", 1), some ("composite", 2), some ("composite", 1), some ("composite", 1),
     some ("ok", 0), some ("composite", 4), some ("composite", 11), some ("composite", 1),
     some ("composite", 2), some ("ok", 0)] := by kdecide

/-- the same in stop mode: the first error, bare -/
example : [
    "Feature: f\nScenario: s\nGiven x\n|a|\n|a|b|",
    "Feature: f\n@t\n",
    "Feature: f\nScenario: s\nGiven x\n\"\"\"\nabc\n",
    "foo\nbar\n1\n2\n3\n4\n5\n6\n7\n8\n9\n10\n11\n12",
    ""].map (tryDoc true) =
    [some ("single", 1), some ("single", 1), some ("single", 1), some ("single", 1), some ("ok", 0)] := by
  kdecide

/-- The check is not vacuous, and the crash outcome is not unreachable by construction: a table
    whose free-text branch opens a `Step` node and closes it at once (without its step line) fails
    the check — and the model does crash on it, with the builder's `AttributeError`. -/
def badTable : Table :=
  { rows := [{ id := 0, comment := "", expected := [], errTarget := 0,
               branches := [⟨.EOF, none, [.build], 1⟩, ⟨.Other, none, [.start .Step, .end_ .Step, .build], 0⟩] }],
    lookaheads := [], startRule := .GherkinDocument, errorCap := 10 }

example :
    let μ : MState := { defaultName := lit "en", name := lit "en", dialect := default }
    Spec.noCrashCheck badTable 100 = false ∧
    outcomeTag (parseWith [] badTable false μ 0 (lit "x\n")).1 =
      ("crash: AttributeError: get_token(StepLine) is None", 0) := by kdecide

/-- … and so does a table with a branch into a state without row (`RuntimeError: Unknown state`) -/
def badTable2 : Table :=
  { rows := [{ id := 0, comment := "", expected := [], errTarget := 0,
               branches := [⟨.EOF, none, [.build], 1⟩, ⟨.Other, none, [.build], 7⟩] }],
    lookaheads := [], startRule := .GherkinDocument, errorCap := 10 }

example :
    let μ : MState := { defaultName := lit "en", name := lit "en", dialect := default }
    Spec.noCrashCheck badTable2 100 = false ∧
    outcomeTag (parseWith [] badTable2 false μ 0 (lit "x\ny\n")).1 =
      ("crash: RuntimeError: Unknown state: 7", 0) := by kdecide

end examples
end GV
