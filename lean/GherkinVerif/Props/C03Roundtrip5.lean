/-
  Props/C03Roundtrip5.lean — property C03 "from the document outwards", fifth model: the model of
  Props/C03Roundtrip4.lean plus RULES after the feature-level scenarios (extension 5).

  Model (Spec/Render5.lean): `MRule = (tags, kw, name, background : Option MBackground, scenarios :
  List MScenario4)`, `MFeature5 = MFeature4 + rules`.  `render5` writes each rule after the feature-level
  scenarios: optional tag line at column 1, `<rule kw>: <name>` at column 1, then the rule's optional
  background and scenarios exactly as at feature level.  `WF5 d m` = `WF4` plus, per rule, `ruleOK`:
  tags `tagOK`, keyword in `d.rule`, name `cleanText`, background / scenarios as at feature level.
  `expectedDoc5`: feature children = background?, scenarios, then rules; per rule the children
  (background, scenarios) draw their ids first, then the rule's tags, then the rule.

  STATUS: **`C03_roundtrip5` and `C03_roundtrip5_counter` ARE PROVED** (every matcher state whose default
  dialect is in the table, every `WF5` model, both error modes, every incoming id counter).
  In the generated parser every state inside a rule is a separate copy of the feature-level state
  (background 21 / 23 / 24, scenario 25 / 26 / 28 / 29, examples 30 / 31 / 33) and the builder stack
  carries an extra `Rule` node; the block lemmas were re-instantiated for the rule level by renaming
  (Lemmas/Roundtrip5Blocks.lean, table facts `C03R5_fact_rule`).  Lemmas/Roundtrip5Doc.lean: the builder
  on a feature with rules (`Lemmas.endRule_feature5`), entering a rule from a feature-level state
  (`Lemmas.REntry.ofG`, from the table-wide fact `Lemmas.rt5EntryAll` = `C03R5_fact_entry_all`: every row
  whose scenario branch closes with `cl` enters a rule with the same `cl`) or from a rule-level state
  (`Lemmas.REntry.ofR`, closing the previous rule with `Lemmas.endRule_rule`), `Lemmas.rule_head` (tag
  line through `try_tagU` and state 18, rule line → 19), `Lemmas.rule_block`, `Lemmas.rules_loop`,
  `Lemmas.finish5` (end of file from any such state), `Lemmas.roundtrip5_pure`.

  WHAT IS HERE, all fully proved / kernel-checked:
  * `C03R5_fact_entry` (kernel): `Lemmas.rt5EntryFacts` — from every feature-level state a scenario can
    follow (3; 5 / 7 / 8; 10 / 12 / 13; 15 / 17) and from the rule header (19) the `RuleLine` branch
    closes what is open and opens `Rule`, `RuleHeader` (→ 19), and the UNGUARDED `TagLine` branch — the
    one reached after both look-aheads answer no — additionally opens `Tags` (→ 18); state 18 takes the
    rule line (→ 19).
  * `Lemmas.peek0_false_rule`, `Lemmas.peek1_false_rule`, `Lemmas.try_tagU`: a tag line followed by a
    rule line takes the unguarded `TagLine` branch (each guarded branch before it matches the tag
    line, peeks at the rule line, and is answered no).
  * `C03_roundtrip5_model4`: the fourth model embeds (`MFeature4.toModel5`) with the same rendering and
    the same well-formedness — so `C03_roundtrip4` IS the round trip of the rule-free part of model 5.
  * the round-trip EQUATION for model 5, checked by the kernel on concrete models (both error modes,
    counter): a feature with a scenario and three rules — one tagged with two scenarios (one an
    outline with a tagged examples block), one with its own background, one without children; and two
    necessity counterexamples for `ruleOK`.
-/
import GherkinVerif.Lemmas.Roundtrip5Doc
import GherkinVerif.Props.C03Roundtrip4
namespace GV
open Spec

/-- the parser-table facts for entering a rule -/
theorem C03R5_fact_entry : Lemmas.rt5EntryFacts Gen.parserTable = true := by kdecide

/-- the parser-table facts for the rule-level states (background 21 / 23 / 24, scenario 25 / 26 / 28 / 29,
    examples 30 / 31 / 33, rule header 19): step, table-row, examples, scenario / tag / rule / EOF branches -/
theorem C03R5_fact_rule : Lemmas.rt5RuleFacts Gen.parserTable = true := by kdecide

/-- the rule-level facts in the form the block lemmas of Lemmas/Roundtrip5Blocks.lean take -/
theorem C03R5_rule_table : Lemmas.RtR Gen.parserTable :=
  Lemmas.RtR.of_facts (by kdecide) C03R5_fact_rule

/-- table-wide: every row whose scenario branch is `cl ++ [start ScenarioDefinition, start Scenario, build]
    → 10` has the rule-line branch `cl ++ [start Rule, start RuleHeader, build] → 19` and the unguarded
    tag-line branch `cl ++ [start Rule, start RuleHeader, start Tags, build] → 18`; state 18 takes the rule line -/
theorem C03R5_fact_entry_all : Lemmas.rt5EntryAll Gen.parserTable = true := by kdecide

/-- **C03, round trip, rules** (with everything of the fourth model: examples blocks, backgrounds,
    data tables, tags). -/
theorem C03_roundtrip5 (stop : Bool) (μ : MState)
    (hμ : (μ.reset Gen.dialects).dialect ∈ Gen.dialects) (ids : Nat) (m : MFeature5)
    (hwf : WF5 (μ.reset Gen.dialects).dialect m = true) :
    (parseWith Gen.dialects Gen.parserTable stop μ ids (render5 m)).1 =
      .ok (expectedDoc5 (μ.reset Gen.dialects).dialect (μ.reset Gen.dialects).name m ids) := by
  obtain ⟨ho, -⟩ := C18_queue_refines_peek_fields stop μ ids (render5 m) hμ
  rw [ho]
  exact (Lemmas.roundtrip5_pure C03R_fact_keywords C03R_fact_render Gen.dialects Gen.parserTable
    (Lemmas.RtTable4.of_facts C03R4_fact_table) C03R5_rule_table C03R5_fact_entry_all stop μ hμ ids m hwf).1

/-- … and the id counter afterwards: one id per table row, step, background, examples block, tag,
    scenario and rule. -/
theorem C03_roundtrip5_counter (stop : Bool) (μ : MState)
    (hμ : (μ.reset Gen.dialects).dialect ∈ Gen.dialects) (ids : Nat) (m : MFeature5)
    (hwf : WF5 (μ.reset Gen.dialects).dialect m = true) :
    (parseWith Gen.dialects Gen.parserTable stop μ ids (render5 m)).2.ids = idsAfter5 m ids := by
  obtain ⟨-, -, -, -, -, -, hi, -⟩ := C18_queue_refines_peek_fields stop μ ids (render5 m) hμ
  rw [hi]
  exact (Lemmas.roundtrip5_pure C03R_fact_keywords C03R_fact_render Gen.dialects Gen.parserTable
    (Lemmas.RtTable4.of_facts C03R4_fact_table) C03R5_rule_table C03R5_fact_entry_all stop μ hμ ids m hwf).2

/-- the fourth model is the rule-free part of the fifth: same text, same well-formedness, same
    expected document and counter -/
theorem C03_roundtrip5_model4 (d : Dialect) (lang : Str) (m : MFeature4) (i : Nat) :
    render5 m.toModel5 = render4 m ∧ WF5 d m.toModel5 = WF4 d m ∧
    expectedDoc5 d lang m.toModel5 i = expectedDoc4 d lang m i ∧ idsAfter5 m.toModel5 i = idsAfter4 m i := by
  refine ⟨?_, ?_, ?_, ?_⟩
  · simp [render5, render4, lineBodies5, MFeature4.toModel5, MFeature5.core]
  · simp [WF5, MFeature4.toModel5, MFeature5.core]
  · simp [expectedDoc5, expectedDoc4, MFeature4.toModel5, expRules, idsOfRules]
  · simp [idsAfter5, idsAfter4, MFeature4.toModel5, idsOfRules]

/-- hence the round trip of every rule-free model 5 (from `C03_roundtrip4`) -/
theorem C03_roundtrip5_rule_free (stop : Bool) (μ : MState)
    (hμ : (μ.reset Gen.dialects).dialect ∈ Gen.dialects) (ids : Nat) (m : MFeature4)
    (hwf : WF5 (μ.reset Gen.dialects).dialect m.toModel5 = true) :
    (parseWith Gen.dialects Gen.parserTable stop μ ids (render5 m.toModel5)).1 =
      .ok (expectedDoc5 (μ.reset Gen.dialects).dialect (μ.reset Gen.dialects).name m.toModel5 ids) := by
  obtain ⟨h1, h2, h3, -⟩ := C03_roundtrip5_model4 (μ.reset Gen.dialects).dialect (μ.reset Gen.dialects).name m ids
  rw [h1, h3]
  exact C03_roundtrip4 stop μ hμ ids m (h2 ▸ hwf)

/-! ### the equation on concrete models (kernel evaluation) -/
section examples

def C03R5_demo : MFeature5 := MFeature5.ofStrings ["@f"] "Feature" "F" []
  [([], "Scenario", "top", [("Given ", "a", [])], [])]
  [(["@r1", "@r2"], "Rule", "first", [],
      [([], "Example", "e1", [("When ", "b", [["x"]])], []),
       (["@s"], "Scenario Outline", "o", [("Then ", "<v>", [])], [(["@ex"], "Examples", "", [["v"], ["1"]])])]),
   ([], "Rule", "second", [("Background", "rb", [("Given ", "c", [["t"]])])],
      [([], "Scenario", "e2", [("* ", "d", [])], [])]),
   ([], "Rule", "empty", [], [])]

example : (MState.init Gen.dialects (lit "en")).map (fun μ =>
    (WF5 μ.dialect C03R5_demo,
     render5 C03R5_demo == lit "@f\nFeature: F\nScenario: top\n  Given a\n@r1 @r2\nRule: first\nExample: e1\n  When b\n    | x |\n@s\nScenario Outline: o\n  Then <v>\n@ex\nExamples: \n    | v |\n    | 1 |\nRule: second\nBackground: rb\n  Given c\n    | t |\nScenario: e2\n  * d\nRule: empty\n",
     decide (C03R_okDoc (parseWith Gen.dialects Gen.parserTable false μ 7 (render5 C03R5_demo)).1 =
       some (expectedDoc5 μ.dialect μ.name C03R5_demo 7)),
     decide (C03R_okDoc (parseWith Gen.dialects Gen.parserTable true μ 7 (render5 C03R5_demo)).1 =
       some (expectedDoc5 μ.dialect μ.name C03R5_demo 7)),
     (parseWith Gen.dialects Gen.parserTable true μ 7 (render5 C03R5_demo)).2.ids == idsAfter5 C03R5_demo 7)) =
    some (true, true, true, true, true) := by kdecide

def C03R5_variant (tags : List String) (kw name : String) : Option (Bool × Bool) :=
  (MState.init Gen.dialects (lit "en")).map fun μ =>
    let m := MFeature5.ofStrings [] "Feature" "f" [] [([], "Scenario", "s", [("Given ", "x", [])], [])]
      [(tags, kw, name, [], [([], "Scenario", "t", [("Given ", "y", [])], [])])]
    (WF5 μ.dialect m,
     decide (C03R_okDoc (parseWith Gen.dialects Gen.parserTable false μ 0 (render5 m)).1 =
       some (expectedDoc5 μ.dialect μ.name m 0)))

example : C03R5_variant ["@a"] "Rule" "r" = some (true, true) := by kdecide
/-- necessity of `ruleOK`: a keyword that is no rule keyword; a name with a trailing blank -/
example : C03R5_variant [] "Regel" "r" = some (false, false) := by kdecide
example : C03R5_variant [] "Rule" "r " = some (false, false) := by kdecide

end examples

end GV
