/-
  Props/C09.lean — property C09: example values replace `<header>` placeholders literally.
  Property theorems only; helper lemmas live in Lemmas/Replace.lean.
-/
import GherkinVerif.Lemmas.Replace
import GherkinVerif.Spec.Compile
namespace GV

/-- Text with no occurrence of the pattern is left unchanged. -/
theorem C09_no_occurrence (p v t : Str) (h : ∀ k, ¬ OccursAt p t k) : replaceAll p v t = t :=
  Lemmas.replaceAll_no_occurrence p v t h

/-- At the first occurrence the value is inserted verbatim — whatever characters it contains —
    and replacement continues *after* the occurrence (leftmost, non-overlapping; the inserted
    value is never rescanned). -/
theorem C09_first_occurrence (p v a b : Str) (hp : p ≠ [])
    (hfirst : ∀ k, k < a.length → ¬ OccursAt p (a ++ p ++ b) k) :
    replaceAll p v (a ++ p ++ b) = a ++ v ++ replaceAll p v b :=
  Lemmas.replaceAll_first_occurrence p v a b hp hfirst

/-- Columns are applied in header order: one literal replacement per header cell. -/
theorem C09_interp_fold (t h v : Str) (hs vs : List Str) :
    interp t (h :: hs) (v :: vs) = interp (replaceAll (placeholder h) v t) hs vs := by
  simp [interp, placeholder]

/-- A short value row is an `IndexError`, never a silent default. -/
theorem C09_short_row (t : Str) (hs vs : List Str) (h : vs.length < hs.length) : interp t hs vs = none :=
  Lemmas.interp_short t hs vs h

/-- Text with no placeholder of any header is left unchanged; in particular `<x>` for an `x`
    that is not a header stays as written. -/
theorem C09_no_placeholder (t : Str) (hs vs : List Str) (hl : hs.length ≤ vs.length)
    (h : ∀ hd ∈ hs, ∀ k, ¬ OccursAt (placeholder hd) t k) : interp t hs vs = some t :=
  Lemmas.interp_no_placeholder t hs vs hl h

/-- Background steps are not substituted: interpolation with no columns is the identity. -/
theorem C09_background_not_substituted (t : Str) : interp t [] [] = some t := by
  simp [interp]

/-- non-vacuity / regression for defect F1: regular-expression metacharacters in a header are
    literal; a value with a backslash and a group reference is inserted verbatim. -/
example : interp (lit "<a.b> <axb> <a(b>") [lit "a.b", lit "a(b"] [lit "\\1$", lit "v"] = some (lit "\\1$ <axb> v") := by
  decide

end GV
