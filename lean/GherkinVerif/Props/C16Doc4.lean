/-
  Props/C16Doc4.lean — property C16, whole-document part, the stretch goals.

  ## G3  `C16_comment_line_document` — inserting a comment line

  "… inserting a comment line directly before a keyword, step, tag, table-row or opening-delimiter
  line additionally adds that comment."

  `src` has the physical lines `pre ++ post`, `src'` the lines `pre ++ c :: post`, `c` a comment
  line (`lineStartsWith c "#"`: `#` after optional blanks).  Hypothesis on the ORIGINAL run (prefix
  run `Spec.stateAfter`, as for blank lines): the state `s` in which it stands after the first
  `pre.length` lines — if it has not aborted before —
    * reads a comment as `Comment` first, unguarded, only hands it to the builder and comes back to
      `s` (`Spec.commentSelfLoop`), and
    * does not read `c` as a language header (`Spec.languageTested T s → languageRe c = none`;
      only the start state tests `Language`).
  Then, in both error modes, for accepted and rejected documents:

      (parseWith … src').1 =
        insertComment k ⟨⟨k+1, some 1⟩, rstripCRLF c⟩ (mapOutcome (insertMap k) (parseWith … src).1)

  with `k = pre.length` (`Spec.insertComment`: into `Doc.comments` behind the comments of the lines
  `≤ k`; a rejection carries no comments), and the final error lists / matcher states / id
  counters / reported lines correspond (`C16_comment_line_document_context`).

  WHAT IS PROVED AND WHAT IS NOT (`_partial` in the sense of the brief).  In the states with
  `commentSelfLoop` NO condition on the following line is needed (the brief's "directly before a
  structural line" is not needed there: found with `#eval`, then proved).  NOT covered: the eight
  states directly after a keyword line (`Feature:`, `Background:`, `Scenario:`, `Examples:`,
  `Rule:` — states 3, 5, 10, 15, 19, 21, 26, 31 of the generated table), where a comment opens the
  description (`start Description; build`).  There the true statement (evaluated with `#eval` at
  every position of several documents) is: the same conclusion holds iff additionally the line
  `k+1` is not read as `Empty` in `s` (a blank line after the comment would become description
  text); the run then closes an EMPTY `Description` node, which yields the description `""` as no
  node does.  Proving it needs (i) a copy of the builder relation with one more kind of extra item
  (`(.rule .Description, .descr "")`) and (ii) the invariant that a node with such an item never
  receives a second `Description` — see the report.  Counterexample and examples below.

  ## G2b (i)  `C16_indent_closing_delimiter_document` — the closing delimiter may move alone

  `C16_indent_document` (Props/C16Doc3.lean) with a weaker hypothesis on the original run's `builds`:
  a moved line may also have been built as a `DocStringSeparator` that CLOSES a doc string (in
  `builds` that token has no text; the opening one carries the media type, possibly empty).  The
  closing delimiter does not look at the recorded indentation, resets the matcher alike and is
  never part of the content; only its own column — which the AST does not record — moves.
  G2b (ii) (a doc string moving as one block) is NOT proved; see the report.
-/
import GherkinVerif.Props.C16Doc3
import GherkinVerif.Lemmas.LayoutDoc4
import GherkinVerif.Lemmas.LayoutDoc4IndentSim
import GherkinVerif.KDecide
namespace GV
open Lemmas Layout3 Layout4

/-! ## facts about the regenerated table -/

theorem C16_fact_prods : Spec.prodsOk Gen.parserTable C16_depths = true := by kdecide
theorem C16_fact_lookaheads_comment : Spec.lookaheadsCommentOk Gen.parserTable = true := by kdecide

theorem tableOkC_of_facts {T : Table} {ds : List (Nat × Nat)} (hL : Spec.lookaheadsCommentOk T = true)
    (hd : Spec.depthsOk T ds = true) (hp : Spec.prodsOk T ds = true) : TableOkC T ds := by
  refine ⟨fun i la hla => ?_, hd, hp⟩
  have hmem : la ∈ T.lookaheads := List.mem_of_getElem? hla
  unfold Spec.lookaheadsCommentOk at hL
  rw [List.all_eq_true] at hL
  have h0 := hL la hmem
  simp only [Bool.and_eq_true, Bool.not_eq_true', List.contains_eq_mem, decide_eq_true_eq,
    decide_eq_false_iff_not] at h0
  obtain ⟨⟨⟨⟨⟨h1, h2⟩, h3⟩, h4⟩, h5⟩, h6⟩ := h0
  refine ⟨?_, ?_, h4, h5⟩
  · rw [List.any_eq_false]
    intro K hK hKe
    unfold commentTestK at hKe
    simp only [Bool.or_eq_true, beq_iff_eq] at hKe
    rcases hKe with rfl | rfl
    · exact h2 hK
    · exact h3 hK
  · rw [List.any_eq_true]
    exact ⟨.Comment, h1, rfl⟩

/-! ## G3: inserting a comment line -/

/-- Generic form, for every dialect table and transition table passing the Boolean checks. -/
theorem C16_comment_line_document_generic (D : List Dialect) (T : Table)
    (hD : Spec.stepKeywordsOk D = true) (hQD : Spec.queueDialectFacts D = true)
    (hQT : Spec.queueFacts T = true) (hCB : Spec.commentBlankTested T = true)
    (hLA : Spec.lookaheadsCommentOk T = true) (ds : List (Nat × Nat)) (hds : Spec.depthsOk T ds = true)
    (hps : Spec.prodsOk T ds = true)
    (stop : Bool) (μ : MState) (ids : Nat) (src src' : Str) (pre post : List Str) (c : Str)
    (hc : lineStartsWith c [35] = true)
    (h1 : splitLines src = pre ++ post) (h2 : splitLines src' = pre ++ c :: post)
    (hμ : (μ.reset D).dialect ∈ D)
    (hst : ∀ s, Spec.stateAfter D T stop μ ids src pre.length = some s →
      Spec.commentSelfLoop T s = true ∧ (Spec.languageTested T s = true → languageRe (lineText c none) = none)) :
    (parseWith D T stop μ ids src').1 =
      Spec.insertComment pre.length ⟨⟨pre.length + 1, some 1⟩, rstripCRLF c⟩
        (Spec.mapOutcome (Spec.insertMap pre.length) (parseWith D T stop μ ids src).1) ∧
    C16_MappedContext (Spec.insertMap pre.length) (parseWith D T stop μ ids src).2 (parseWith D T stop μ ids src').2 := by
  obtain ⟨h, hc'⟩ := comment_line_parseWith hD hQD hQT hCB (tableOkC_of_facts hLA hds hps) hc stop μ ids pre post
    h1 h2 hμ hst
  exact ⟨h, hc'.errors, hc'.μ, hc'.ids, hc'.unexpected⟩

/-- **Inserting a comment line adds that comment and changes only line numbers**, at every
    position where the original run stands in a state that builds a comment and stays. -/
theorem C16_comment_line_document (stop : Bool) (μ : MState) (ids : Nat) (src src' : Str)
    (pre post : List Str) (c : Str) (hc : lineStartsWith c [35] = true)
    (h1 : splitLines src = pre ++ post) (h2 : splitLines src' = pre ++ c :: post)
    (hμ : (μ.reset Gen.dialects).dialect ∈ Gen.dialects)
    (hst : ∀ s, Spec.stateAfter Gen.dialects Gen.parserTable stop μ ids src pre.length = some s →
      Spec.commentSelfLoop Gen.parserTable s = true ∧
      (Spec.languageTested Gen.parserTable s = true → languageRe (lineText c none) = none)) :
    (parseWith Gen.dialects Gen.parserTable stop μ ids src').1 =
      Spec.insertComment pre.length ⟨⟨pre.length + 1, some 1⟩, rstripCRLF c⟩
        (Spec.mapOutcome (Spec.insertMap pre.length) (parseWith Gen.dialects Gen.parserTable stop μ ids src).1) :=
  (C16_comment_line_document_generic _ _ C16_step_keywords_ok C18_fact_keywords C18_fact_queue
    C18_fact_comment_blank C16_fact_lookaheads_comment _ C16_fact_depths C16_fact_prods
    stop μ ids src src' pre post c hc h1 h2 hμ hst).1

/-- … and the final contexts: renamed error list and reported lines, same matcher state and id counter -/
theorem C16_comment_line_document_context (stop : Bool) (μ : MState) (ids : Nat) (src src' : Str)
    (pre post : List Str) (c : Str) (hc : lineStartsWith c [35] = true)
    (h1 : splitLines src = pre ++ post) (h2 : splitLines src' = pre ++ c :: post)
    (hμ : (μ.reset Gen.dialects).dialect ∈ Gen.dialects)
    (hst : ∀ s, Spec.stateAfter Gen.dialects Gen.parserTable stop μ ids src pre.length = some s →
      Spec.commentSelfLoop Gen.parserTable s = true ∧
      (Spec.languageTested Gen.parserTable s = true → languageRe (lineText c none) = none)) :
    C16_MappedContext (Spec.insertMap pre.length) (parseWith Gen.dialects Gen.parserTable stop μ ids src).2
      (parseWith Gen.dialects Gen.parserTable stop μ ids src').2 :=
  (C16_comment_line_document_generic _ _ C16_step_keywords_ok C18_fact_keywords C18_fact_queue
    C18_fact_comment_blank C16_fact_lookaheads_comment _ C16_fact_depths C16_fact_prods
    stop μ ids src src' pre post c hc h1 h2 hμ hst).2

/-- **The text form**, with the hypotheses as the Boolean `Spec.commentLineOkB` (it runs the prefix of
    the queue-free parse): the line `c ++ "\n"` (`c` without a line feed) inserted at the start of a
    line, i.e. after a prefix `s1` of the text that is empty or ends in a line feed. -/
theorem C16_comment_line_text (stop : Bool) (μ : MState) (ids : Nat) (s1 s2 c : Str)
    (hs1 : s1 = [] ∨ s1.getLast? = some 10) (hlf : 10 ∉ c)
    (hμ : (μ.reset Gen.dialects).dialect ∈ Gen.dialects)
    (hok : Spec.commentLineOkB Gen.dialects Gen.parserTable stop μ ids (s1 ++ s2) (splitLines s1).length
      (c ++ [10]) = true) :
    (parseWith Gen.dialects Gen.parserTable stop μ ids (s1 ++ (c ++ [10]) ++ s2)).1 =
      Spec.insertComment (splitLines s1).length ⟨⟨(splitLines s1).length + 1, some 1⟩, rstripCRLF (c ++ [10])⟩
        (Spec.mapOutcome (Spec.insertMap (splitLines s1).length)
          (parseWith Gen.dialects Gen.parserTable stop μ ids (s1 ++ s2)).1) := by
  unfold Spec.commentLineOkB at hok
  simp only [Bool.and_eq_true] at hok
  obtain ⟨hc, hst⟩ := hok
  refine C16_comment_line_document stop μ ids (s1 ++ s2) (s1 ++ (c ++ [10]) ++ s2) (splitLines s1) (splitLines s2)
    (c ++ [10]) hc (splitLines_append_of_lf s1 s2 hs1) ?_ hμ fun s hs => ?_
  · rw [List.append_assoc, splitLines_append_of_lf s1 _ hs1,
      splitLines_append_of_lf (c ++ [10]) s2 (.inr (by simp)), splitLines_one_line c hlf]
    rfl
  · rw [hs] at hst
    simp only [Bool.and_eq_true, Bool.or_eq_true, Bool.not_eq_true', Option.isNone_iff_eq_none] at hst
    refine ⟨hst.1, fun hl => ?_⟩
    rcases hst.2 with h | h
    · rw [h] at hl; cases hl
    · exact h

/-! ### non-vacuity and the counterexamples (G3) -/

/-- comments (position, text) of an accepted document -/
def C16_commentsOf : Outcome → List (Loc × Str)
  | .ok d => d.comments.map fun c => (c.loc, c.text)
  | _ => []

/-- a document with two comments, a tag, a step with a data table … -/
def C16_comDoc : Str := lit "# c1\nFeature: f\n@t\nScenario: s\n  Given x\n  # c2\n  | a |\n  When y\n"

/-- … and the same with the comment line `"   # new \r\n"` inserted after line 5 (before the old
    comment and the table row) -/
def C16_comDoc' : Str :=
  lit "# c1\nFeature: f\n@t\nScenario: s\n  Given x\n   # new \r\n  # c2\n  | a |\n  When y\n"

/-- the positions at which the hypotheses hold (both error modes agree): everywhere except directly
    after the feature line (state 3) and the scenario line (state 10), where a comment opens the
    description -/
example : (MState.init Gen.dialects (lit "en")).map (fun μ =>
      (List.range 9).map fun k =>
        Spec.commentLineOkB Gen.dialects Gen.parserTable false μ 0 C16_comDoc k (lit "   # new \r\n")) =
    some [true, true, false, true, false, true, true, true, true] := by kdecide

/-- the conclusion at position 5 is not trivial: the new comment has column 1 and keeps its blanks
    (not its line ending), the old comment and everything behind moves down -/
example : (MState.init Gen.dialects (lit "en")).map (fun μ =>
      (C16_commentsOf (parseWith Gen.dialects Gen.parserTable false μ 0 C16_comDoc).1,
       C16_commentsOf (parseWith Gen.dialects Gen.parserTable false μ 0 C16_comDoc').1)) =
    some ([(⟨1, some 1⟩, lit "# c1"), (⟨6, some 1⟩, lit "  # c2")],
          [(⟨1, some 1⟩, lit "# c1"), (⟨6, some 1⟩, lit "   # new "), (⟨7, some 1⟩, lit "  # c2")]) := by
  kdecide

example : (MState.init Gen.dialects (lit "en")).map (fun μ =>
      (C16_someLocs (parseWith Gen.dialects Gen.parserTable false μ 0 C16_comDoc).1,
       C16_someLocs (parseWith Gen.dialects Gen.parserTable false μ 0 C16_comDoc').1)) =
    some ([⟨4, some 1⟩, ⟨5, some 3⟩, ⟨7, some 3⟩, ⟨8, some 3⟩],
          [⟨4, some 1⟩, ⟨5, some 3⟩, ⟨8, some 3⟩, ⟨9, some 3⟩]) := by kdecide

/-- a rejected document (tag with whitespace, unexpected line): a comment inserted after line 4; the
    hypotheses hold in collecting mode; in stop mode the run has aborted at line 2 and nothing is
    required; the errors behind the comment move down -/
example : (MState.init Gen.dialects (lit "en")).map (fun μ =>
      let b := lit "Feature: f\n@t1 @t 2\nScenario: s\n  Given x\nnonsense\n"
      let b' := lit "Feature: f\n@t1 @t 2\nScenario: s\n  Given x\n#n\nnonsense\n"
      (Spec.commentLineOkB Gen.dialects Gen.parserTable false μ 0 b 4 (lit "#n\n"),
       Spec.commentLineOkB Gen.dialects Gen.parserTable true μ 0 b 4 (lit "#n\n"),
       C16_someLocs (parseWith Gen.dialects Gen.parserTable false μ 0 b).1,
       C16_someLocs (parseWith Gen.dialects Gen.parserTable false μ 0 b').1)) =
    some (true, true, [⟨2, some 5⟩, ⟨5, some 1⟩], [⟨2, some 5⟩, ⟨6, some 1⟩]) := by kdecide

/-- COUNTEREXAMPLES (the hypotheses are needed): inside a doc string a `#` line is content; in the
    start state `# language: fr` is a language header -/
example : (MState.init Gen.dialects (lit "en")).map (fun μ =>
      let a := lit "Feature: f\nScenario: s\nGiven x\n\"\"\"\nc1\n\"\"\"\n"
      let a' := lit "Feature: f\nScenario: s\nGiven x\n\"\"\"\n#n\nc1\n\"\"\"\n"
      (Spec.commentLineOkB Gen.dialects Gen.parserTable false μ 0 a 4 (lit "#n\n"),
       C16_texts (parseWith Gen.dialects Gen.parserTable false μ 0 a).1,
       C16_texts (parseWith Gen.dialects Gen.parserTable false μ 0 a').1)) =
    some (false, [[], [[]], [lit "c1"]], [[], [[]], [lit "#n\nc1"]]) := by kdecide

example : (MState.init Gen.dialects (lit "en")).map (fun μ =>
      let a := lit "Feature: f\n"
      let a' := lit "# language: fr\nFeature: f\n"
      (Spec.commentLineOkB Gen.dialects Gen.parserTable false μ 0 a 0 (lit "# language: fr\n"),
       Spec.commentLineOkB Gen.dialects Gen.parserTable false μ 0 a 0 (lit "# language fr\n"),
       C16_someLocs (parseWith Gen.dialects Gen.parserTable false μ 0 a).1,
       C16_someLocs (parseWith Gen.dialects Gen.parserTable false μ 0 a').1)) =
    some (false, true, [], [⟨2, some 1⟩, ⟨3, none⟩]) := by kdecide

/-- NOT COVERED (see the header): directly after a keyword line the check answers `false`.  There the
    conclusion holds when the next line is not blank (first pair: the scenario's description stays
    `""` although the run opens and closes an empty `Description` node) and fails when it is blank
    (second pair: the blank line becomes description text) -/
def C16_scenarioDescr : Outcome → List Str
  | .ok d => (d.feature.map fun x => x.children.filterMap fun c => match c with
      | .scenario s => some s.description | _ => none).getD []
  | _ => []

example : (MState.init Gen.dialects (lit "en")).map (fun μ =>
      Spec.commentLineOkB Gen.dialects Gen.parserTable false μ 0 (lit "Feature: f\nScenario: s\nGiven x\n") 2 (lit "#n\n")) =
    some false := by kdecide

example : (MState.init Gen.dialects (lit "en")).map (fun μ =>
      [C16_scenarioDescr (parseWith Gen.dialects Gen.parserTable false μ 0 (lit "Feature: f\nScenario: s\nGiven x\n")).1,
       C16_scenarioDescr (parseWith Gen.dialects Gen.parserTable false μ 0 (lit "Feature: f\nScenario: s\n#n\nGiven x\n")).1,
       C16_scenarioDescr (parseWith Gen.dialects Gen.parserTable false μ 0 (lit "Feature: f\nScenario: s\n\n d\nGiven x\n")).1,
       C16_scenarioDescr (parseWith Gen.dialects Gen.parserTable false μ 0 (lit "Feature: f\nScenario: s\n#n\n\n d\nGiven x\n")).1]) =
    some [[[]], [[]], [lit " d"], [lit "\n d"]] := by kdecide

/-! ## G2b (i): the closing delimiter of a doc string may be indented alone -/

theorem C16_indentableTok_eq (t : Token) : Spec.indentableTokB t = indentOkTok t := by
  unfold Spec.indentableTokB indentOkTok
  cases t.mtype with
  | none => rfl
  | some K => cases K <;> rfl

/-- Generic form. -/
theorem C16_indent_closing_delimiter_document_generic (D : List Dialect) (T : Table)
    (hQD : Spec.queueDialectFacts D = true) (hQT : Spec.queueFacts T = true)
    (hCB : Spec.commentBlankTested T = true) (hI : indentFacts T = true)
    (w : Nat → Nat) (stop : Bool) (μ : MState) (ids : Nat) (src src' : Str)
    (hlen : (splitLines src').length = (splitLines src).length)
    (hlines : ∀ (i : Nat) (l l' : Str), (splitLines src)[i]? = some l → (splitLines src')[i]? = some l' →
      ∃ ws, l' = ws ++ l ∧ AllSpace ws ∧ ws.length = w i)
    (hμ : (μ.reset D).dialect ∈ D)
    (hbuilt : ∀ t ∈ (parseWith D T stop μ ids src).2.builds, 0 < w (t.lineNo - 1) →
      Spec.indentableTokB t = true) :
    (parseWith D T stop μ ids src').1 = Spec.mapOutcome (Spec.indentMap w) (parseWith D T stop μ ids src).1 ∧
    (parseWith D T stop μ ids src').2.errors =
      (parseWith D T stop μ ids src).2.errors.map (Spec.mapErr (Spec.indentMap w)) ∧
    (parseWith D T stop μ ids src').2.ids = (parseWith D T stop μ ids src).2.ids ∧
    (parseWith D T stop μ ids src').2.unexpected = (parseWith D T stop μ ids src).2.unexpected :=
  indent_parseWith2 hQD hQT hCB (tableOkInd_of_facts hI) w stop μ ids
    (linesInd_of_index 0 _ _ hlen.symm fun i l1 l2 h1 h2 => by
      obtain ⟨ws, e, hws, hl⟩ := hlines i l1 l2 h1 h2
      exact ⟨ws, e, hws, by rw [Nat.zero_add]; exact hl⟩) hμ
    (fun t ht hpos => by rw [← C16_indentableTok_eq]; exact hbuilt t ht hpos)

/-- **Indenting changes only columns — also for the closing delimiter of a doc string.** -/
theorem C16_indent_closing_delimiter_document (w : Nat → Nat) (stop : Bool) (μ : MState) (ids : Nat)
    (src src' : Str)
    (hlen : (splitLines src').length = (splitLines src).length)
    (hlines : ∀ (i : Nat) (l l' : Str), (splitLines src)[i]? = some l → (splitLines src')[i]? = some l' →
      ∃ ws, l' = ws ++ l ∧ AllSpace ws ∧ ws.length = w i)
    (hμ : (μ.reset Gen.dialects).dialect ∈ Gen.dialects)
    (hbuilt : ∀ t ∈ (parseWith Gen.dialects Gen.parserTable stop μ ids src).2.builds, 0 < w (t.lineNo - 1) →
      Spec.indentableTokB t = true) :
    (parseWith Gen.dialects Gen.parserTable stop μ ids src').1 =
      Spec.mapOutcome (Spec.indentMap w) (parseWith Gen.dialects Gen.parserTable stop μ ids src).1 :=
  (C16_indent_closing_delimiter_document_generic _ _ C18_fact_keywords C18_fact_queue C18_fact_comment_blank
    C16_fact_indent w stop μ ids src src' hlen hlines hμ hbuilt).1

/-- the Boolean form: `Spec.indentOk2B` implies the conclusion with `w := Spec.shiftB src' src` -/
theorem C16_indent_closing_delimiter_document_check (stop : Bool) (μ : MState) (ids : Nat) (src src' : Str)
    (h : Spec.indentOk2B Gen.dialects Gen.parserTable stop μ ids src' src = true)
    (hμ : (μ.reset Gen.dialects).dialect ∈ Gen.dialects) :
    (parseWith Gen.dialects Gen.parserTable stop μ ids src').1 =
      Spec.mapOutcome (Spec.indentMap (Spec.shiftB src' src))
        (parseWith Gen.dialects Gen.parserTable stop μ ids src).1 := by
  unfold Spec.indentOk2B at h
  simp only [Bool.and_eq_true, beq_iff_eq] at h
  obtain ⟨⟨hlen, hz⟩, hb⟩ := h
  refine C16_indent_closing_delimiter_document _ stop μ ids src src' hlen (fun i l l' h1 h2 => ?_) hμ
    (fun t ht hpos => ?_)
  · have hz' : ∀ (ls' ls : List Str), (ls'.zip ls).all (fun p =>
          decide (p.2.length ≤ p.1.length) && p.1.drop (p.1.length - p.2.length) == p.2 &&
            (p.1.take (p.1.length - p.2.length)).all isSpace) = true →
        ∀ (i : Nat) (l l' : Str), ls[i]? = some l → ls'[i]? = some l' →
          l.length ≤ l'.length ∧ l'.drop (l'.length - l.length) = l ∧
            (l'.take (l'.length - l.length)).all isSpace = true := by
      intro ls'
      induction ls' with
      | nil => intro ls _ i l l' _ h2; simp at h2
      | cons a as ih =>
        intro ls hall i l l' h1 h2
        cases ls with
        | nil => simp at h1
        | cons b bs =>
          simp only [List.zip_cons_cons, List.all_cons, Bool.and_eq_true, decide_eq_true_eq, beq_iff_eq] at hall
          cases i with
          | zero =>
            simp only [List.getElem?_cons_zero, Option.some.injEq] at h1 h2
            subst h1 h2
            exact ⟨hall.1.1.1, hall.1.1.2, hall.1.2⟩
          | succ i => exact ih bs hall.2 i l l' (by simpa using h1) (by simpa using h2)
    obtain ⟨g1, g2, g3⟩ := hz' _ _ hz i l l' h1 h2
    refine ⟨l'.take (l'.length - l.length), ?_, ?_, ?_⟩
    · conv => lhs; rw [← List.take_append_drop (l'.length - l.length) l']
      rw [g2]
    · intro c hc
      rw [List.all_eq_true] at g3
      exact g3 c hc
    · unfold Spec.shiftB
      rw [h2, h1]
      simp only [List.length_take]
      omega
  · rw [List.all_eq_true] at hb
    have := hb t ht
    simp only [Bool.or_eq_true, beq_iff_eq] at this
    rcases this with h0 | hk
    · omega
    · exact hk

/-! ### non-vacuity and the counterexample (G2b (i)) -/

/-- a doc string with media type in a step of an accepted document; the closing delimiter (line 6)
    moved right by four: the check of `C16_indent_document` fails, the new one holds, in both modes -/
example : (MState.init Gen.dialects (lit "en")).map (fun μ =>
      let a := lit "Feature: f\nScenario: s\n  Given x\n  \"\"\" xml\n  c1\n  \"\"\"\n  When y\n"
      let a' := lit "Feature: f\nScenario: s\n  Given x\n  \"\"\" xml\n  c1\n      \"\"\"\n    When y\n"
      (C16_indentOk false μ 0 a' a, Spec.indentOk2B Gen.dialects Gen.parserTable false μ 0 a' a,
       Spec.indentOk2B Gen.dialects Gen.parserTable true μ 0 a' a)) = some (false, true, true) := by
  kdecide

/-- … the doc string is the same (content, media type, position); the following step has moved -/
example : (MState.init Gen.dialects (lit "en")).map (fun μ =>
      let a := lit "Feature: f\nScenario: s\n  Given x\n  \"\"\" xml\n  c1\n  \"\"\"\n  When y\n"
      let a' := lit "Feature: f\nScenario: s\n  Given x\n  \"\"\" xml\n  c1\n      \"\"\"\n    When y\n"
      [(C16_texts (parseWith Gen.dialects Gen.parserTable false μ 0 a).1,
        C16_someLocs (parseWith Gen.dialects Gen.parserTable false μ 0 a).1),
       (C16_texts (parseWith Gen.dialects Gen.parserTable false μ 0 a').1,
        C16_someLocs (parseWith Gen.dialects Gen.parserTable false μ 0 a').1)]) =
    some [([[], [[]], [lit "c1"]], [⟨2, some 1⟩, ⟨3, some 3⟩, ⟨4, some 3⟩, ⟨7, some 3⟩]),
          ([[], [[]], [lit "c1"]], [⟨2, some 1⟩, ⟨3, some 3⟩, ⟨4, some 3⟩, ⟨7, some 5⟩])] := by kdecide

/-- COUNTEREXAMPLE: the OPENING delimiter moved alone fails the new check too, and the content
    changes (the content line keeps two blanks of its indentation less) -/
example : (MState.init Gen.dialects (lit "en")).map (fun μ =>
      let a := lit "Feature: f\nScenario: s\n  Given x\n    \"\"\"\n    c1\n  \"\"\"\n"
      let a' := lit "Feature: f\nScenario: s\n  Given x\n  \"\"\"\n    c1\n  \"\"\"\n"
      (Spec.indentOk2B Gen.dialects Gen.parserTable false μ 0 a a',
       C16_texts (parseWith Gen.dialects Gen.parserTable false μ 0 a').1,
       C16_texts (parseWith Gen.dialects Gen.parserTable false μ 0 a).1)) =
    some (false, [[], [[]], [lit "  c1"]], [[], [[]], [lit "c1"]]) := by kdecide

end GV
