/-
  Props/C18Listing.lean — property C18, the token listing: "The token listing printed for a
  document (position, kind, keyword, text and items per line) reflects exactly these tokens".

  Model: GherkinVerif/Model/Formatter.lean — `TokenFormatterBuilder` (`fmtBuilder`, `formatToken`,
  `formatListing`) and `Parser(TokenFormatterBuilder()).parse` (`parseWithF`).  The glue of
  `class Parser` is not transcribed twice: `parseWithF` is the builder-parametrised glue
  (`parseBodyG`) at the formatter builder, and `C18_generic_glue_is_parser` says that the same glue
  at the AST builder is the `parseWith` all other C18 theorems are about.  The builder's `_tokens`
  list is the context field `builds` (for this builder the list of tokens handed to `build` IS the
  builder's state), so `C18_listing_is_builds` is short: it says what `get_result` returns.

  Proved here, for every source text, both error modes, every matcher state, every table:
    * `C18_listing_is_builds`   the printed listing is the tokens handed to `build`, one line each,
                                in order, joined by LF;
    * `C18_format_eof`, `C18_format_line`   the shape of one printed line;
    * `C18_listing_lockstep`    the run with the formatter builder and the run with the AST builder
                                end with the same class of outcome (same errors) and the same
                                context (tokens built, lines read, unexpected lines, queue, matcher
                                state, calls, error list) — unless the AST builder failed in its run
                                (`BuilderFailed`: it crashed, or its "inconsistent cell count"
                                error is in the final error list or is the outcome);
    * `C18_listing_same_tokens` in particular every document the AST-builder parse accepts is
                                accepted with the formatter builder, with the same tokens built —
                                with `C18_accepted_sequence` (Props/C18Order.lean): the listing has
                                one line per physical line, in order, with that line's number, then
                                `EOF` (`C18_listing_accepted_lines`);
    * examples evaluated by the kernel on the regenerated tables: a listing equal to the literal
      the real formatter prints; a ragged table, which `parseWith` rejects and `parseWithF`
      accepts (the formatter builder raises nothing — why `C18_listing_same_tokens` has its
      hypothesis on the AST-builder run and not the converse).

  NOT proved here: that the listings equal the reference listings of the shared acceptance corpus
  (`testdata/good/*.feature.tokens`) — that is compared by the correspondence stream through the
  driver op `tokens`; the converse of `C18_listing_same_tokens` is false (ragged tables).
-/
import GherkinVerif.Lemmas.FormatterSim
import GherkinVerif.Props.C18Order
import GherkinVerif.Gen.ParserTable
import GherkinVerif.Gen.Dialects
import GherkinVerif.KDecide
namespace GV

/-- The builder-parametrised glue of Model/Formatter.lean at the AST builder is `parseWith`: the
    formatter run is the same parser with another builder plugged in. -/
theorem C18_generic_glue_is_parser (D : List Dialect) (T : Table) (stop : Bool) (n : Nat) :
    parseBodyG (astBuilder T.errorCap stop) D T stop n = parseBody D T stop n :=
  Lemmas.parseBodyG_ast D T stop n

/-- The printed listing is exactly the tokens handed to `build`: one formatted line per token, in
    the order built, joined by line feeds. -/
theorem C18_listing_is_builds (D : List Dialect) (T : Table) (stop : Bool) (μ : MState) (src : Str) (s : Str)
    (h : (parseWithF D T stop μ src).1 = .ok s) :
    s = joinWith [10] ((parseWithF D T stop μ src).2.builds.map formatToken) :=
  Lemmas.listing_is_builds D T stop μ src s h

/-! ### the shape of one printed line -/

/-- The end-of-file token, and only it, prints as `EOF`. -/
theorem C18_format_eof (t : Token) : formatToken t = lit "EOF" ↔ t.line = none := by
  constructor
  · intro h
    cases hl : t.line with
    | none => rfl
    | some l =>
      unfold formatToken at h
      rw [hl] at h
      have h1 : (lit "EOF").head? = some 69 := by decide
      rw [← h] at h1
      simp at h1
  · intro h
    unfold formatToken
    rw [h]

/-- `(line:column)Kind:` + `(KeywordType)keyword` if there is a keyword + `/text/` + the items
    `column:text` separated by commas. -/
theorem C18_format_line (t : Token) (l : Str) (h : t.line = some l) :
    formatToken t =
      lit "(" ++ natToStr t.lineNo ++ lit ":" ++ natToStr (t.col.getD 0) ++ lit ")" ++
      lit ((t.mtype.map Kind.name).getD "None") ++ lit ":" ++
      (match t.keyword with
       | some kw => if kw = [] then [] else lit "(" ++ lit ((t.ktype.map KType.name).getD "") ++ lit ")" ++ kw
       | none => []) ++
      lit "/" ++ t.text.getD [] ++ lit "/" ++
      joinWith (lit ",") (t.items.map fun it => natToStr it.1 ++ lit ":" ++ it.2) := by
  have e1 : lit "(" = [40] := by decide
  have e2 : lit ":" = [58] := by decide
  have e3 : lit ")" = [41] := by decide
  have e4 : lit "/" = [47] := by decide
  have e5 : lit "," = [44] := by decide
  unfold formatToken
  rw [h, e1, e2, e3, e4, e5]
  cases t.keyword with
  | none => rfl
  | some kw => cases kw <;> rfl

/-! ### the formatter run against the AST-builder run -/

/-- same class of outcome: both accept, or both reject with the same errors in the same way, or
    both crash the same way -/
abbrev C18_SameClass : Outcome → OutcomeF → Prop := Lemmas.Fmt.SameClass

/-- the AST builder failed in a run with outcome `o` and final context `c`: the run crashed, or
    the final error list contains an error with the builder's message body ("inconsistent cell
    count within the table"), or (stop mode) that error is the outcome -/
abbrev C18_BuilderFailed (o : Outcome) (c : Ctx) : Prop := Lemmas.Fmt.BuilderFailed o c

theorem C18_SameClass_def (o : Outcome) (f : OutcomeF) : C18_SameClass o f ↔
    match o, f with
    | .ok _, .ok _ => True
    | .rejected es comp, .rejected es' comp' => es = es' ∧ comp = comp'
    | .crash w, .crash w' => w = w'
    | .fuel, .fuel => True
    | _, _ => False := by
  cases o <;> cases f <;> exact Iff.rfl

theorem C18_BuilderFailed_def (o : Outcome) (c : Ctx) : C18_BuilderFailed o c ↔
    ((∃ w, o = .crash w) ∨
     (∃ e ∈ c.errors, e.body = lit "inconsistent cell count within the table") ∨
     (∃ e, o = .rejected [e] false ∧ e.body = lit "inconsistent cell count within the table")) := Iff.rfl

/-- Lock step: the parse with the formatter builder ends with the same class of outcome and the
    same context — tokens built, lines read, unexpected lines, queue, unread lines, matcher state,
    matcher calls, error list — as the parse with the AST builder, unless the AST builder failed. -/
theorem C18_listing_lockstep (D : List Dialect) (T : Table) (stop : Bool) (μ : MState) (ids : Nat) (src : Str) :
    (C18_SameClass (parseWith D T stop μ ids src).1 (parseWithF D T stop μ src).1 ∧
      (parseWithF D T stop μ src).2 = CtxF.ofCtx (parseWith D T stop μ ids src).2) ∨
    C18_BuilderFailed (parseWith D T stop μ ids src).1 (parseWith D T stop μ ids src).2 := by
  rcases Lemmas.Fmt.parse_lockstep D T stop μ ids src with ⟨h1, h2⟩ | h
  · exact .inl ⟨h1, h2.symm⟩
  · exact .inr h

/-- Every document the AST-builder parse accepts is accepted with the formatter builder, and the
    builder received the same tokens (the whole final context is the same). -/
theorem C18_listing_same_tokens (D : List Dialect) (T : Table) (stop : Bool) (μ : MState) (ids : Nat) (src : Str)
    (d : Doc) (h : (parseWith D T stop μ ids src).1 = .ok d) :
    (∃ s, (parseWithF D T stop μ src).1 = .ok s) ∧
    (parseWithF D T stop μ src).2.builds = (parseWith D T stop μ ids src).2.builds ∧
    (parseWithF D T stop μ src).2 = CtxF.ofCtx (parseWith D T stop μ ids src).2 := by
  obtain ⟨h1, h2⟩ := Lemmas.Fmt.accepted_same_tokens D T stop μ ids src d h
  exact ⟨h1, by rw [h2]; rfl, h2⟩

/-- The listing of an accepted document, for the regenerated tables: it is printed (the formatter
    run accepts), and it consists of one formatted token per physical line, in source order, each
    with its line's number and text, followed by the line `EOF`. -/
theorem C18_listing_accepted_lines (stop : Bool) (μ : MState) (ids : Nat) (src : Str)
    (hμ : (μ.reset Gen.dialects).dialect ∈ Gen.dialects) (d : Doc)
    (h : (parseWith Gen.dialects Gen.parserTable stop μ ids src).1 = .ok d) :
    ∃ ts : List Token,
      (parseWithF Gen.dialects Gen.parserTable stop μ src).1 = .ok (joinWith [10] (ts.map formatToken)) ∧
      ts.map (·.lineNo) = List.range' 1 ((splitLines src).length + 1) ∧
      ts.map (·.line) = (splitLines src).map some ++ [none] := by
  obtain ⟨⟨s, hs⟩, hb, -⟩ := C18_listing_same_tokens Gen.dialects Gen.parserTable stop μ ids src d h
  have hseq := C18_accepted_sequence stop μ ids src hμ d h
  refine ⟨(parseWith Gen.dialects Gen.parserTable stop μ ids src).2.builds, ?_, hseq.1, hseq.2⟩
  rw [hs, C18_listing_is_builds _ _ _ _ _ s hs, hb]

/-! ### non-vacuity, on the regenerated tables -/

/-- tag line, feature, blank line, indented scenario, step with a data-table row, comment: the
    literal is what the real `TokenFormatterBuilder` prints for this text -/
def C18_listingSrc : Str := lit "@t\nFeature: f\n\n  Scenario: s\n    Given x\n      | a | bc |\n# c\n"

example : (MState.init Gen.dialects (lit "en")).map
      (fun μ => (parseWithF Gen.dialects Gen.parserTable false μ C18_listingSrc).1) =
    some (.ok (lit ("(1:1)TagLine://1:@t\n(2:1)FeatureLine:()Feature/f/\n(3:1)Empty://\n" ++
      "(4:3)ScenarioLine:()Scenario/s/\n(5:5)StepLine:(Context)Given /x/\n" ++
      "(6:7)TableRow://9:a,13:bc\n(7:1)Comment:/# c/\nEOF"))) := by kdecide

/-- the same document through the AST builder: accepted, the same tokens built -/
example : (MState.init Gen.dialects (lit "en")).map
      (fun μ => ((parseWith Gen.dialects Gen.parserTable false μ 0 C18_listingSrc).2.builds.map formatToken,
        match (parseWith Gen.dialects Gen.parserTable false μ 0 C18_listingSrc).1 with | .ok _ => true | _ => false)) =
    (MState.init Gen.dialects (lit "en")).map
      (fun μ => ((parseWithF Gen.dialects Gen.parserTable false μ C18_listingSrc).2.builds.map formatToken, true)) := by
  kdecide

/-- a ragged table: the AST-builder parse rejects it (the builder's error) … -/
def C18_raggedSrc : Str := lit "Feature: f\nScenario: s\nGiven x\n|a|b|\n|c|\n"

example : (MState.init Gen.dialects (lit "en")).map
      (fun μ => match (parseWith Gen.dialects Gen.parserTable false μ 0 C18_raggedSrc).1 with
        | .rejected es true => es.map PErr.message
        | _ => []) =
    some [lit "(5:1): inconsistent cell count within the table"] := by kdecide

/-- … and the formatter-builder parse accepts it and prints all six lines -/
example : (MState.init Gen.dialects (lit "en")).map
      (fun μ => (parseWithF Gen.dialects Gen.parserTable false μ C18_raggedSrc).1) =
    some (.ok (lit ("(1:1)FeatureLine:()Feature/f/\n(2:1)ScenarioLine:()Scenario/s/\n" ++
      "(3:1)StepLine:(Context)Given /x/\n(4:1)TableRow://2:a,4:b\n(5:1)TableRow://2:c\nEOF"))) := by kdecide

/-- a rejected document (no builder error): the formatter run reports the same error as the
    AST-builder run, three lines and the end of file were built, line 4 was unexpected -/
def C18_rejectedSrc : Str := lit "Feature: f\nScenario: s\nGiven x\nFeature: g\n"

example : (MState.init Gen.dialects (lit "en")).map
      (fun μ =>
        let r := parseWithF Gen.dialects Gen.parserTable false μ C18_rejectedSrc
        (match r.1 with | .rejected es true => es | _ => [], r.2.builds.map (·.lineNo), r.2.unexpected)) =
    (MState.init Gen.dialects (lit "en")).map
      (fun μ =>
        let r := parseWith Gen.dialects Gen.parserTable false μ 0 C18_rejectedSrc
        (match r.1 with | .rejected es true => es | _ => [default], [1, 2, 3, 5], [4])) := by kdecide

end GV
