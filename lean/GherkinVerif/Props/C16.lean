/-
  Props/C16.lean — property C16: layout is meaning-neutral (line endings, indentation, padding,
  blank lines, a comment before a structural line, final line break).

  Property theorems only; helper lemmas live in Lemmas/Layout.lean, Boolean facts in
  Spec/LayoutFacts.lean.  The property decomposes into

    * per-line invariance of the matcher (`C16_crlf_line`, `C16_final_newline_line`,
      `C16_trailing_blanks_line`, `C16_indent_line`) and of the unexpected-line error,
    * the shape of the physical lines under the edit (`C16_crlf_lines`, `C16_final_newline_lines`),
    * kind-level invariance of the table run (`C16_blank_lines_abs`, `C16_comment_before_abs`),
      generic in the table under Boolean facts kernel-checked on the regenerated table.

  The matcher is always called on the token the scanner made of the line (`matchTok` passes
  `t.line`), so every per-line theorem is about `matchLine D k μ (withLine t l) l` where
  `withLine t l` is `t` carrying the physical line `l`; `SameMatch` compares verdict (with a raised
  error), matcher state and every token field except that physical line.

  FINDING (trailing blanks on a step line are NOT always neutral): where one step keyword is
  another followed by more text ending in a blank — French "Etant donné " / "Etant donné que " —
  the line "Etant donné que" reads as keyword "Etant donné " + text "que", but with one trailing
  blank it reads as keyword "Etant donné que " + empty text (see the `example` below).  Likewise a
  line that is exactly "Given" is not a step, "Given " is.  `C16_trailing_blanks_line` therefore
  carries the hypothesis `StepTailFree` for `StepLine`; all other kinds need nothing.
-/
import GherkinVerif.Lemmas.Layout
import GherkinVerif.Gen.ParserTable
import GherkinVerif.Gen.Dialects
import GherkinVerif.KDecide
namespace GV
open Lemmas

/-! ## which matcher states are covered -/

/-- fact about the regenerated dialect table: no step keyword is empty or ends in CR or LF -/
theorem C16_step_keywords_ok : Spec.stepKeywordsOk Gen.dialects = true := by kdecide

/-- Every matcher state the parser can be in is covered by the per-line theorems: the state
    `TokenMatcher(name)` makes has no active separator and a dialect of the table … -/
theorem C16_sane_init (D : List Dialect) (name : Str) (μ : MState) (h : MState.init D name = some μ) :
    SepOk μ ∧ μ.dialect ∈ D := sane_init h

/-- … `reset()` and every `match_<k>` keep it so (the active separator is only ever `"""` or
    three backticks) … -/
theorem C16_sane_step (D : List Dialect) (k : Kind) (μ : MState) (t : Token) (l : Str)
    (h : SepOk μ ∧ μ.dialect ∈ D) :
    (SepOk (μ.reset D) ∧ (μ.reset D).dialect ∈ D) ∧
    (SepOk (matchLine D k μ t l).μ ∧ (matchLine D k μ t l).μ.dialect ∈ D) :=
  ⟨sane_reset h.2, sane_matchLine D k μ t l h⟩

/-- … and a dialect of a table whose step keywords are well-formed has well-formed step keywords. -/
theorem C16_sane_keywords (D : List Dialect) (hD : Spec.stepKeywordsOk D = true) (μ : MState)
    (h : μ.dialect ∈ D) : StepKwOk μ := stepKwOk_of_mem hD h

/-! ## CRLF line endings -/

/-- A line ending in CRLF is matched exactly like the same line ending in LF: for every kind,
    every token and every line content `s` (nothing is assumed about `s`), in every matcher state
    whose step keywords do not end in CR/LF and whose active separator is a delimiter. -/
theorem C16_crlf_line (D : List Dialect) (k : Kind) (μ : MState) (t : Token) (s : Str)
    (hkw : StepKwOk μ) (hsep : SepOk μ) :
    SameMatch (matchLine D k μ (withLine t (s ++ [13, 10])) (s ++ [13, 10]))
      (matchLine D k μ (withLine t (s ++ [10])) (s ++ [10])) :=
  sameMatch_eol2 D k μ t s [13, 10] [10] allEol_crlf allEol_lf hkw hsep

/-- The error for an unexpected line is the same (kind, position, expected list, quoted line) for
    a CRLF and an LF ending.  (A whitespace-only line is never unexpected in the generated table;
    for such a line only message body and line number agree, `Lemmas.unexpectedErr_tail_body`.) -/
theorem C16_crlf_unexpected (row : StateRow) (t : Token) (s : Str) (hs : lstrip s ≠ []) :
    unexpectedErr row (withLine t (s ++ [13, 10])) = unexpectedErr row (withLine t (s ++ [10])) :=
  (unexpectedErr_tail row t s [13, 10] allEol_crlf.allSpace hs).trans
    (unexpectedErr_tail row t s [10] allEol_lf.allSpace hs).symm

/-- Writing a text with CRLF for every LF gives the same physical lines, each line's own LF
    replaced by CRLF (lines are split at line feeds only). -/
theorem C16_crlf_lines (src : Str) :
    splitLines (toCRLF src) = (splitLines src).map toCRLF ∧
    ∀ l ∈ splitLines src, ∃ b, (l = b ++ [10] ∧ toCRLF l = b ++ [13, 10]) ∨ (l = b ∧ toCRLF l = b) := by
  refine ⟨splitLines_toCRLF src, fun l hl => ?_⟩
  obtain ⟨b, hb, h | h⟩ := splitLines_line_shape hl
  · subst h; exact ⟨b, Or.inl ⟨rfl, toCRLF_line hb⟩⟩
  · subst h; exact ⟨l, Or.inr ⟨rfl, toCRLF_noLF hb⟩⟩

/-! ## final line break -/

/-- A line is matched the same with and without its line feed: every kind, every `s` (it is not
    needed that `s` does not itself end in LF). -/
theorem C16_final_newline_line (D : List Dialect) (k : Kind) (μ : MState) (t : Token) (s : Str)
    (hkw : StepKwOk μ) (hsep : SepOk μ) :
    SameMatch (matchLine D k μ (withLine t (s ++ [10])) (s ++ [10])) (matchLine D k μ (withLine t s) s) :=
  (sameMatch_eol D k μ t s [10] allEol_lf hkw hsep).symm

/-- Adding a final line break to a non-empty text that does not end in one: same physical lines,
    the last one gets the LF. -/
theorem C16_final_newline_lines (src : Str) (hne : src ≠ []) (hlast : src.getLast? ≠ some 10) :
    ∃ init last, splitLines src = init ++ [last] ∧ splitLines (src ++ [10]) = init ++ [last ++ [10]] :=
  splitLines_append_lf hne hlast

/-- (Both hypotheses are needed: after a line break, or in the empty text, one more line break
    adds a blank physical line — which `C16_blank_lines_abs` then covers.) -/
theorem C16_final_newline_adds_blank (src : Str) (h : src = [] ∨ src.getLast? = some 10) :
    splitLines (src ++ [10]) = splitLines src ++ [[10]] :=
  splitLines_append_lf_after_lf h

/-! ## trailing blanks -/

/-- Whitespace `ws` added at the end of a line, before its line ending `eol` (empty, LF or CRLF —
    any whitespace), changes nothing in the match: for every kind except `Comment` and `Other`
    (whose text is the line itself) — in particular title, step, tag, table-row and delimiter
    lines.  For `StepLine` the trimmed line must not be a step keyword minus trailing whitespace
    (`StepTailFree`; see the finding at the top); neither `ws` nor `s` is otherwise restricted. -/
theorem C16_trailing_blanks_line (D : List Dialect) (k : Kind) (μ : MState) (t : Token) (s ws eol : Str)
    (hk : k ≠ .Comment ∧ k ≠ .Other) (hws : AllSpace ws) (heol : AllSpace eol)
    (hstep : k = .StepLine → StepTailFree μ s) (hsep : SepOk μ) :
    SameMatch (matchLine D k μ (withLine t (s ++ ws ++ eol)) (s ++ ws ++ eol))
      (matchLine D k μ (withLine t (s ++ eol)) (s ++ eol)) := by
  rw [List.append_assoc]
  exact sameMatch_blanks D k μ t s (ws ++ eol) eol (hws.append heol) heol hk hstep hsep

/-- … the three line endings of the property are whitespace … -/
theorem C16_eols_are_space : AllSpace [] ∧ AllSpace [10] ∧ AllSpace [13, 10] :=
  ⟨AllSpace.nil, allEol_lf.allSpace, allEol_crlf.allSpace⟩

/-- … a Boolean test for the step-line hypothesis … -/
theorem C16_stepTailFree_test (μ : MState) (s : Str) (h : stepTailFreeB μ.dialect.stepKeywords s = true) :
    StepTailFree μ s := stepTailFree_of_B h

/-- … and the unexpected-line error does not see trailing blanks either. -/
theorem C16_trailing_blanks_unexpected (row : StateRow) (t : Token) (s ws eol : Str)
    (hws : AllSpace ws) (heol : AllSpace eol) (hs : lstrip s ≠ []) :
    unexpectedErr row (withLine t (s ++ ws ++ eol)) = unexpectedErr row (withLine t (s ++ eol)) := by
  rw [List.append_assoc]
  exact (unexpectedErr_tail row t s (ws ++ eol) (hws.append heol) hs).trans
    (unexpectedErr_tail row t s eol heol hs).symm

/-! ## indentation -/

/-- Whitespace `ws` put in front of a title, step, tag, table-row or delimiter line (`s` may
    itself start with whitespace; no hypothesis on `s` or the matcher state): same verdict, and on
    a match the token's column, indent and every item column grow by `ws.length` while type,
    text, keyword, keyword type and item texts are unchanged; an opening doc-string delimiter
    records an indentation `ws.length` larger and nothing else in the matcher state changes;
    the column of a "tag may not contain whitespace" error grows by `ws.length`. -/
theorem C16_indent_line (D : List Dialect) (k : Kind) (μ : MState) (t : Token) (ws s : Str)
    (hws : AllSpace ws) (hk : k ∈ Spec.structural) :
    ShiftMatch ws.length k (matchLine D k μ (withLine t s) s)
      (matchLine D k μ (withLine t (ws ++ s)) (ws ++ s)) :=
  shiftMatch_indent D k μ t ws s hws hk

/-- A doc string moving as one block, content lines: after the opening delimiter was indented by
    `ws` (so `C16_indent_line` made the recorded indentation `ws.length` larger), a content line
    indented by the same `ws` yields the same token — same text, column 1 — and leaves both
    matcher states as they were. -/
theorem C16_indent_docstring_content (D : List Dialect) (μ : MState) (t : Token) (ws s : Str)
    (hws : AllSpace ws) :
    let μ' : MState := { μ with indentToRemove := μ.indentToRemove + ws.length }
    let a := matchLine D .Other μ (withLine t s) s
    let b := matchLine D .Other μ' (withLine t (ws ++ s)) (ws ++ s)
    a.res = b.res ∧ TokSame a.tok b.tok ∧ a.μ = μ ∧ b.μ = μ' :=
  other_indent D μ t ws s hws

/-- … and the closing delimiter: it does not look at the recorded indentation and resets it, so
    from there on both matcher states agree again (`C16_indent_line` with the same state then
    gives the moved columns). -/
theorem C16_indent_docstring_close (D : List Dialect) (μ : MState) (t : Token) (l sep : Str) (i : Nat)
    (hsep : μ.activeSep = some sep) (hne : sep.isEmpty = false) :
    let a := matchLine D .DocStringSeparator μ t l
    let b := matchLine D .DocStringSeparator { μ with indentToRemove := i } t l
    a.res = b.res ∧ a.tok = b.tok ∧ (isMatched a.res = true → a.μ = b.μ) :=
  docsep_close_indent_free D μ t l sep i hsep hne

/-- the unexpected-line error of an indented line: same message body, same line number (the
    column is the line's own indentation when no matcher set one, so it may move) -/
theorem C16_indent_unexpected (row : StateRow) (t : Token) (ws s : Str) (hws : AllSpace ws) :
    (unexpectedErr row (withLine t (ws ++ s))).body = (unexpectedErr row (withLine t s)).body ∧
    (unexpectedErr row (withLine t (ws ++ s))).loc.line = (unexpectedErr row (withLine t s)).loc.line :=
  unexpectedErr_indent row t ws s hws

/-! ## blank lines (kind level) -/

/-- facts about the regenerated table: an `Empty` test is always an unguarded build-only
    self-loop; every look-ahead skips `Empty` and expects neither `Empty` nor `Other`; a state
    that tests `Empty` at all tests it before `Other`. -/
theorem C16_empty_self_loop : Spec.emptySelfLoop Gen.parserTable = true := by kdecide
theorem C16_lookaheads_skip_empty : Spec.lookaheadsSkipEmpty Gen.parserTable = true := by kdecide
theorem C16_empty_before_other : Spec.emptyBeforeOther Gen.parserTable = true := by kdecide

/-- One step: in a state where the first test a blank line passes is `Empty`, it is consumed by
    a branch that only builds and returns to the same state, whatever follows. -/
theorem C16_blank_line_step (T : Table) (hE : Spec.emptySelfLoop T = true) (s : Nat)
    (hs : Spec.emptyFirst T s = true) (future : List Kind) :
    ∃ b, stepAbs T s .Empty future = some b ∧ b.kind = .Empty ∧ b.target = s ∧ b.prods = [.build] :=
  stepAbs_empty hE hs future

/-- Look-ahead: a blank line anywhere in the future is invisible to every guard. -/
theorem C16_blank_line_peek (la : LookAhead) (h : Skips .Empty la) (ks1 ks2 : List Kind) :
    peekAbs la (ks1 ++ .Empty :: ks2) = peekAbs la (ks1 ++ ks2) := peekAbs_insert_empty h ks1 ks2

/-- Whole run: insert a blank line between `pre` and `post`.  If the run over `pre` (with `post`
    in view) fails, both runs fail.  If it reaches state `s'` with events `e1` and `s'` reads a
    blank line as `Empty` first (every state outside descriptions and doc strings), then both
    runs continue from `s'` over `post` identically: same acceptance, same final state, and the
    events differ by exactly one `build Empty` at the insertion point. -/
theorem C16_blank_lines_abs (T : Table) (hE : Spec.emptySelfLoop T = true)
    (hL : Spec.lookaheadsSkipEmpty T = true) (s : Nat) (pre post : List Kind) :
    (runPrefix T s pre post = none →
      runAbs T s (pre ++ .Empty :: post) = none ∧ runAbs T s (pre ++ post) = none) ∧
    (∀ s' e1, runPrefix T s pre post = some (s', e1) → Spec.emptyFirst T s' = true →
      runAbs T s (pre ++ .Empty :: post) =
        (runAbs T s' post).map (fun r => (r.1, e1 ++ .build .Empty :: r.2)) ∧
      runAbs T s (pre ++ post) = (runAbs T s' post).map (fun r => (r.1, e1 ++ r.2))) :=
  ⟨runAbs_insert_empty_none hL s pre post, fun s' e1 hp hs => runAbs_insert_empty hE hL s pre post s' e1 hp hs⟩

/-- `runPrefix` is the run over `pre`: the whole run is the run over `pre` then over `post`. -/
theorem C16_run_prefix (T : Table) (s : Nat) (pre post : List Kind) :
    runAbs T s (pre ++ post) =
      match runPrefix T s pre post with
      | none => none
      | some (s', e1) =>
        match runAbs T s' post with
        | none => none
        | some (s'', e2) => some (s'', e1 ++ e2) := runAbs_append T s pre post

/-- A state that tests `Empty` at all reads a blank line as `Empty` first. -/
theorem C16_blank_line_states (T : Table) (hB : Spec.emptyBeforeOther T = true) (s : Nat) (row : StateRow)
    (hrow : T.row? s = some row) (ht : row.branches.any (·.kind == .Empty) = true) :
    Spec.emptyFirst T s = true := emptyFirst_of_tests hB hrow ht

/-! ## a comment line directly before a structural line (kind level) -/

/-- facts about the regenerated table: every look-ahead skips `Comment` and expects neither
    `Comment` nor `Other`; in every state that reads a `#` line as a comment, the comment branch is
    unguarded and only builds (possibly opening a `Description`), and the state it leads to offers
    a title, step, tag, table-row or delimiter line the same tests with the same guards, targets
    and productions up to `Description` start/end. -/
theorem C16_lookaheads_skip_comment : Spec.lookaheadsSkipComment Gen.parserTable = true := by kdecide
theorem C16_comment_before_fact : Spec.commentBefore Gen.parserTable = true := by kdecide

/-- Whole run: insert a comment line directly before a structural line `k`, at a point where the
    run (over `pre`, reaching `s'` with events `e1`) reads a comment as a comment (every state
    but doc-string content).  Either `k` is unexpected with and without the comment, or both runs
    succeed or fail together, end in the same state, and — `Description` start/end brackets
    aside — the run with the comment has exactly one more event, `build Comment`, at the
    insertion point. -/
theorem C16_comment_before_abs (T : Table) (hC : Spec.commentBefore T = true)
    (hL : Spec.lookaheadsSkipComment T = true) (s : Nat) (pre : List Kind) (k : Kind) (post : List Kind)
    (hk : k ∈ Spec.structural) (s' : Nat) (e1 : List Ev)
    (hp : runPrefix T s pre (k :: post) = some (s', e1)) (hs : Spec.commentFirst T s' = true) :
    (runAbs T s (pre ++ k :: post) = none ∧ runAbs T s (pre ++ .Comment :: k :: post) = none) ∨
    ∃ sf evs evs' rest, runAbs T s (pre ++ k :: post) = some (sf, evs) ∧
      runAbs T s (pre ++ .Comment :: k :: post) = some (sf, evs') ∧
      dropDescrEv evs = dropDescrEv e1 ++ rest ∧
      dropDescrEv evs' = dropDescrEv e1 ++ .build .Comment :: rest :=
  runAbs_insert_comment_events hC hL s pre k post hk s' e1 hp hs

/-- … with the branches named: the comment is consumed by `c`, the line `k` by `b` without and
    by `b'` with the comment, and `b'` has the test, guard, target and productions of `b` up to
    `Description` brackets. -/
theorem C16_comment_before_branches (T : Table) (hC : Spec.commentBefore T = true)
    (hL : Spec.lookaheadsSkipComment T = true) (s : Nat) (pre : List Kind) (k : Kind) (post : List Kind)
    (hk : k ∈ Spec.structural) (s' : Nat) (e1 : List Ev)
    (hp : runPrefix T s pre (k :: post) = some (s', e1)) (hs : Spec.commentFirst T s' = true) :
    (runAbs T s (pre ++ k :: post) = none ∧ runAbs T s (pre ++ .Comment :: k :: post) = none) ∨
    ∃ c b b' : Branch, c.kind = .Comment ∧ Spec.dropDescr c.prods = [.build] ∧
      Spec.branchView b' = Spec.branchView b ∧
      runAbs T s (pre ++ k :: post) =
        (runAbs T b.target post).map (fun r => (r.1, e1 ++ (prodEvents b.kind b.prods ++ r.2))) ∧
      runAbs T s (pre ++ .Comment :: k :: post) =
        (runAbs T b.target post).map
          (fun r => (r.1, e1 ++ (prodEvents .Comment c.prods ++ (prodEvents b.kind b'.prods ++ r.2)))) :=
  runAbs_insert_comment hC hL s pre k post hk s' e1 hp hs

/-! ## non-vacuity and the counterexample -/

/-- the English and French matcher states used below -/
def C16_en : MState := { defaultName := lit "en", name := lit "en", dialect := Gen.d_en }
def C16_fr : MState := { defaultName := lit "fr", name := lit "fr", dialect := Gen.d_fr }

/-- the hypotheses of the per-line theorems hold of an ordinary step line … -/
example : stepTailFreeB C16_en.dialect.stepKeywords (lit "  Given a step") = true := by decide

/-- … and the conclusion is not trivial: CRLF line, indented, matched with column 3, text "a step" -/
example :
    let l := lit "  Given a step  \r\n"
    let o := matchLine [] .StepLine C16_en (withLine { line := none, lineNo := 7 } l) l
    isMatched o.res = true ∧ o.tok.col = some 3 ∧ o.tok.text = some (lit "a step") ∧
      o.tok.keyword = some (lit "Given ") := by decide

/-- COUNTEREXAMPLE to unconditional trailing-blank invariance of step lines (French):
    "Etant donné que" is the step "Etant donné " + "que"; with one trailing blank it is the step
    "Etant donné que " + "" … -/
example :
    let l1 := lit "Etant donné que\n"
    let l2 := lit "Etant donné que \n"
    let o1 := matchLine [] .StepLine C16_fr (withLine { line := none, lineNo := 1 } l1) l1
    let o2 := matchLine [] .StepLine C16_fr (withLine { line := none, lineNo := 1 } l2) l2
    (o1.tok.keyword, o1.tok.text) = (some (lit "Etant donné "), some (lit "que")) ∧
    (o2.tok.keyword, o2.tok.text) = (some (lit "Etant donné que "), some []) := by decide

/-- … and the hypothesis `StepTailFree` excludes exactly this line. -/
example : stepTailFreeB C16_fr.dialect.stepKeywords (lit "Etant donné que") = false := by decide

/-- a line that is exactly a keyword without its blank is not a step; with the blank it is -/
example :
    isMatched (matchLine [] .StepLine C16_en (withLine { line := none, lineNo := 1 } (lit "Given\n")) (lit "Given\n")).res = false ∧
    isMatched (matchLine [] .StepLine C16_en (withLine { line := none, lineNo := 1 } (lit "Given \n")) (lit "Given \n")).res = true := by
  decide

/-- indentation: a tag line moved right by two columns -/
example :
    let o1 := matchLine [] .TagLine C16_en (withLine { line := none, lineNo := 1 } (lit "@a @b\n")) (lit "@a @b\n")
    let o2 := matchLine [] .TagLine C16_en (withLine { line := none, lineNo := 1 } (lit "  @a @b\n")) (lit "  @a @b\n")
    o1.tok.items = [(1, lit "@a"), (4, lit "@b")] ∧ o2.tok.items = [(3, lit "@a"), (6, lit "@b")] ∧
      o1.tok.col = some 1 ∧ o2.tok.col = some 3 := by kdecide

/-- kind level: after a feature line (state 3) a blank line is read as `Empty` first and a comment
    as a comment; in a description (state 4) a blank line is description text -/
example : Spec.emptyFirst Gen.parserTable 3 = true ∧ Spec.commentFirst Gen.parserTable 3 = true ∧
    Spec.emptyFirst Gen.parserTable 4 = false := by kdecide

/-- a concrete accepted run and the same run with a blank line inserted after the feature line -/
example :
    (runAbs Gen.parserTable 0 [.FeatureLine, .ScenarioLine, .StepLine, .EOF]).isSome = true ∧
    (runAbs Gen.parserTable 0 [.FeatureLine, .Empty, .ScenarioLine, .StepLine, .EOF]).isSome = true := by
  kdecide

end GV
