/-
  Props/C02.lean — property C02: the accepted language and the rule nesting are exactly those of
  gherkin.berp.  `Gen.parserTable` is regenerated from the current parser.py and `Gen.grammar`
  from the current gherkin.berp on every run, so these theorems are re-checked against what the
  code says now.  Property theorems only; the generic machinery (regular-expression derivatives,
  look-ahead elimination, bisimulation-checker soundness, kernel-checked certificates) is in
  Lemmas/.
-/
import GherkinVerif.Lemmas.C02Cert
import GherkinVerif.KDecide
namespace GV

/-- For every finite sequence of line kinds (any length), the generated state machine — with its
    ordered tests, fallback chain and both look-aheads — accepts exactly the sentences of the
    grammar under the reading rule of Spec/Grammar.lean. -/
theorem C02_accept_iff_sentence (ks : List Kind) (h : Kind.EOF ∉ ks) :
    acceptsAbs Gen.parserTable ks = Spec.Sentence Gen.grammar .GherkinDocument ks :=
  Lemmas.accept_iff_sentence ks h

/-- The derivative the reader uses is the semantic one: `w` is in the language of `deriv a r`
    iff `a :: w` is in the language of `r`; `nullable` is membership of the empty word. -/
theorem C02_deriv_correct (a : Kind) (r : Spec.RE Kind) (w : List Kind) :
    Spec.RE.Lang (Spec.RE.deriv a r) w ↔ Spec.RE.Lang r (a :: w) :=
  Lemmas.RE.deriv_correct a r w

theorem C02_nullable_iff (r : Spec.RE Kind) : Spec.RE.nullable r = true ↔ Spec.RE.Lang r [] :=
  Lemmas.RE.nullable_iff r

/-- Sanity link to plain regular-language membership: a sequence containing only kinds that are
    neither ignorable nor free-text-capable in an ambiguous way — here: every line is read as
    its own kind — is a sentence iff it is a word of the grammar's regular expression. -/
theorem C02_sentence_of_lang (ks : List Kind) (h : Kind.EOF ∉ ks)
    (hw : Spec.RE.Lang (Spec.startRE Gen.grammar .GherkinDocument) (ks ++ [.EOF]))
    (hown : Lemmas.ReadsOwn Gen.grammar (Spec.startRE Gen.grammar .GherkinDocument) (ks ++ [.EOF])) :
    Spec.Sentence Gen.grammar .GherkinDocument ks = true :=
  Lemmas.sentence_of_lang ks h hw hown

/-- non-vacuity: a small accepted document and a small rejected one -/
example : acceptsAbs Gen.parserTable [.FeatureLine, .TagLine, .Comment, .ScenarioLine, .StepLine, .TableRow] = true := by
  kdecide
example : acceptsAbs Gen.parserTable [.FeatureLine, .TagLine, .Comment, .StepLine] = false := by
  kdecide

end GV
