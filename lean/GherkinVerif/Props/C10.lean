/-
  Props/C10.lean — property C10: every pickle step has a definite type derived from its keyword.
-/
import GherkinVerif.Lemmas.Compile
namespace GV

/-- The types of a pickle's steps are the scan of the steps' keyword types across background and
    own steps, starting from Unknown. -/
theorem C10_type_spec (sc : Spec.Scope) (s : Scenario) (sub : Option (Nat × List Str × List Str))
    (st : List PickleStep) (hne : s.steps ≠ []) (h : Spec.steps sc s sub = some st) :
    st.map (·.type) = Spec.scanTypes .Unknown ((sc.bg ++ s.steps).map (·.ktype)) :=
  Lemmas.spec_steps_types sc s sub st hne h

/-- The scan never yields `Conjunction` (and the type is a total function: never absent). -/
theorem C10_type_total (last : KType) (ks : List KType) (hl : last ≠ .Conjunction) :
    ∀ t ∈ Spec.scanTypes last ks, t ≠ .Conjunction :=
  Lemmas.scanTypes_no_conjunction last ks hl

/-- A non-conjunction keyword gives its own category; a conjunction the previous step's type;
    first in the pickle: Unknown. -/
theorem C10_scan_cons (last k : KType) (ks : List KType) :
    Spec.scanTypes last (k :: ks) =
      (if k = .Conjunction then last else k) :: Spec.scanTypes (if k = .Conjunction then last else k) ks := by
  simp [Spec.scanTypes]

/-- Same types whether the scenario is plain or an outline. -/
theorem C10_plain_eq_outline (sc : Spec.Scope) (s : Scenario) (sub : Option (Nat × List Str × List Str))
    (a b : List PickleStep) (ha : Spec.steps sc s none = some a) (hb : Spec.steps sc s sub = some b) :
    a.map (·.type) = b.map (·.type) :=
  Lemmas.spec_steps_types_indep sc s sub a b ha hb

end GV
