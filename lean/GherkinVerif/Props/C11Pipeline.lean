/-
  Props/C11Pipeline.lean — property C11 closed over the whole pipeline (parser + AST builder +
  pickle compiler + stream sharing ONE id counter):

  > All ids handed out for one id generator — AST nodes and pickles of one document, and of all
  > documents of one stream — are pairwise distinct; for an accepted document processed with a
  > fresh incrementing generator they are 0,1,2,… without gaps, assigned in the canonical order
  > (children before their parent; table rows, then steps, then examples, then tags, then the
  > owning node; pickle steps before their pickle), so equal input gives equal ids.  Every id a
  > pickle mentions resolves to an AST node of the right kind.

  Statements and one-line proofs only; the proofs are in Lemmas/IdsPipeline.lean (P1),
  Lemmas/IdsPipelineRefs.lean (P2), Lemmas/IdsPipelineStream.lean (P3); the new vocabulary is in
  Spec/Refs.lean and Spec/StreamIds.lean.  Everything is for the regenerated tables
  `Gen.dialects` / `Gen.parserTable` (collecting mode `stop = false`, which is what the stream
  uses) unless stated otherwise.

  Common hypotheses.
  * `hμ : (μ.reset Gen.dialects).dialect ∈ Gen.dialects` — the matcher the parse starts from
    holds a dialect of the dialect table (true for every matcher made by the constructor,
    `C11_stream_matcher`; same hypothesis as `C11_parse_ids_canonical` / `C03_parse_is_astOf`).
  * `h : (parseWith … false μ ids src).1 = .ok d` — the source is accepted from counter `ids`
    and `d` is the returned document; `ctx := (parseWith … ).2` is the final context and
    `ctx.ids` the counter the parser leaves, which is the counter the compiler starts from.
  * `hc : compile uri d ctx.ids = some (ps, n')` — the compiler returns the pickles `ps` and the
    counter `n'`.  NOT an assumption: `C11_pipeline_compile_total` shows it always holds for a
    parsed document (rows of a parsed examples table have the header's cell count); the
    `…_total` forms below have no such hypothesis.

  P1 (one document).
  * `C11_pipeline_ids`: `canonicalIds d ++ Spec.idOrder ps = List.range' ids (n' - ids)` — the
    ids of the AST in canonical order followed by the ids of the pickles in the compiler's order
    (each pickle's steps, then the pickle) are exactly `ids, ids+1, …, n'-1`.
  * `C11_pipeline_ids_distinct`: hence all of them are pairwise distinct, and every AST id is
    smaller than every pickle / pickle-step id.
  * `C11_pipeline_ids_fresh`: from a fresh counter they are `0, 1, 2, …, n'-1`.
  * `C11_pipeline_ids_total`: the same without the hypothesis on `compile`.
  * `C11_pipeline_ids_determined`: "equal input gives equal ids" in the strong form: the whole
    id assignment is determined by the canonical order and the number of ids alone — any two
    accepted runs (any matcher states, texts, uris) that draw equally many ids from the same
    counter hand out the same ids in the same canonical positions.

  P2 (references).  `Spec.PickleResolves f p` (Spec/Refs.lean): there is a scenario `s` of the
  feature (`Spec.ScenarioIn f ro s`: at feature level, `ro = none`, or in rule `r`, `ro = some r`)
  with `p.astNodeIds = [s.id]` (`s` without examples) or `[s.id, r.id]` for a body row `r` of an
  examples block `e` of `s` that has a header; every pickle step's `astNodeIds` is `[x.id]` for an
  own step or an in-scope background step `x` (plain), resp. `[x.id, r.id]` for an own step and
  THE SAME row `r`, or `[x.id]` for an in-scope background step (outline); every pickle tag's
  `astNodeId` is the id of a tag — with the same name — of the feature, the enclosing rule, `s`,
  or the examples block `e` of `r`.  `Spec.pickleRefs p` = all ids `p` mentions.
  * `C11_refs_resolve_compile`: for ANY document: every pickle the compiler returns resolves
    and every id it mentions occurs in `canonicalIds d`.
  * `C11_refs_resolve`: for an accepted document additionally every mentioned id occurs EXACTLY
    once in `canonicalIds d` — it identifies that node and no other node of any kind — and lies
    in `[ids, ctx.ids)`, so it is never the id of a pickle or pickle step.
  (The exact positions of the in-scope backgrounds — those BEFORE the scenario — are
  `C07_scopes`; the order of steps and tags `C07_steps_sources`, `C08_tags_*`.)

  P3 (stream).  `Spec.envelopeIds` / `Spec.shownIds` / `Spec.streamIds` (Spec/StreamIds.lean):
  the ids of gherkinDocument envelopes (canonical order) and pickle envelopes (steps, then the
  pickle), read in output order.  `counterAfter … srcs n` = the counter after the sources.

  CORRECTION of the statement suggested in the brief.  "The ids of all envelopes form
  `List.range' 0 n` where `n` is the final counter" is FALSE for streams with rejected sources
  and for streams with `printAst` off: a rejected source shows no id but may have drawn some
  (rows, steps, scenarios built before / after an error in collecting mode), and with
  `printAst = false`, `printPickles = true` the document's ids are drawn and not shown.
  Counterexample (kernel-checked below): `[demo, ragged, small]`, all options on, from 0: shown
  ids are 0…46 and 51…55, the final counter is 56 — ids 47…50 were drawn for the rejected
  source.  What is true, and proved:
  * `C11_parse_counter_monotone`: a parse never decreases the counter, whatever its outcome (any
    tables, any mode).
  * `C11_stream_source_ids`: accepted source, any options: the shown ids are the AST block
    `[ids, ctx.ids)` if `printAst`, followed by the pickle block `[ctx.ids, counter after)` if
    `printPickles`; `ids ≤ ctx.ids ≤ counter after`; without pickles the counter is `ctx.ids`.
  * `C11_stream_source_rejected`: a source that is not accepted shows no ids and leaves the
    counter `≥ ids` (any tables).
  * `C11_stream_source_block`: every source, any options: the shown ids are a contiguous block
    `a, …, a+b-1` with `ids ≤ a` and `a + b ≤ counter after`.
  * `C11_stream_ids`: every sequence of sources (accepted and rejected mixed), any options, any
    start counter `n`: the shown ids are STRICTLY INCREASING in output order, hence pairwise
    distinct, and all lie in `[n, counterAfter)`.  (With `C17_locality` /
    `C17_sequence_split`: the block of the source at position `k` is that of
    `C11_stream_source_block` from the counter the earlier sources left.)
  * `C11_stream_ids_dense`: with `printAst` and `printPickles` on, if every source is accepted
    or leaves the counter unchanged (a property of the source alone, stated at counter 0:
    `C15_stream_id_offset`), the shown ids are exactly `n, n+1, …, counterAfter - 1`;
    `C11_stream_ids_fresh`: from 0 they are `0, 1, 2, …`.
-/
import GherkinVerif.Lemmas.IdsPipeline
import GherkinVerif.Lemmas.IdsPipelineRefs
import GherkinVerif.Lemmas.IdsPipelineStream
import GherkinVerif.KDecide
namespace GV
open Spec

/-! ### P1: one document, one counter -/

/-- **AST ids, then pickle ids, are consecutive from the incoming counter.** -/
theorem C11_pipeline_ids (μ : MState) (ids : Nat) (src : Str)
    (hμ : (μ.reset Gen.dialects).dialect ∈ Gen.dialects) (d : Doc)
    (h : (parseWith Gen.dialects Gen.parserTable false μ ids src).1 = .ok d)
    (uri : Str) (ps : List Pickle) (n' : Nat)
    (hc : compile uri d (parseWith Gen.dialects Gen.parserTable false μ ids src).2.ids = some (ps, n')) :
    canonicalIds d ++ idOrder ps = List.range' ids (n' - ids) ∧
    ids ≤ (parseWith Gen.dialects Gen.parserTable false μ ids src).2.ids ∧
    (parseWith Gen.dialects Gen.parserTable false μ ids src).2.ids ≤ n' :=
  Lemmas.IdsP.pipeline_ids μ ids src hμ d h uri ps n' hc

/-- Compiling a parsed document never fails (no `IndexError`): the hypothesis `hc` above is
    always satisfiable, with the counter the parse left. -/
theorem C11_pipeline_compile_total (μ : MState) (ids : Nat) (src : Str) (d : Doc)
    (h : (parseWith Gen.dialects Gen.parserTable false μ ids src).1 = .ok d) (uri : Str) :
    ∃ ps n', compile uri d (parseWith Gen.dialects Gen.parserTable false μ ids src).2.ids = some (ps, n') :=
  C01_compile_parsed_total false μ ids src d h uri

/-- … so: every accepted document compiles, and its ids are consecutive. -/
theorem C11_pipeline_ids_total (μ : MState) (ids : Nat) (src : Str)
    (hμ : (μ.reset Gen.dialects).dialect ∈ Gen.dialects) (d : Doc)
    (h : (parseWith Gen.dialects Gen.parserTable false μ ids src).1 = .ok d) (uri : Str) :
    ∃ ps n', compile uri d (parseWith Gen.dialects Gen.parserTable false μ ids src).2.ids = some (ps, n') ∧
      canonicalIds d ++ idOrder ps = List.range' ids (n' - ids) :=
  Lemmas.IdsP.pipeline_ids_total μ ids src hμ d h uri

/-- Pairwise distinct, and AST ids before pickle ids. -/
theorem C11_pipeline_ids_distinct (μ : MState) (ids : Nat) (src : Str)
    (hμ : (μ.reset Gen.dialects).dialect ∈ Gen.dialects) (d : Doc)
    (h : (parseWith Gen.dialects Gen.parserTable false μ ids src).1 = .ok d)
    (uri : Str) (ps : List Pickle) (n' : Nat)
    (hc : compile uri d (parseWith Gen.dialects Gen.parserTable false μ ids src).2.ids = some (ps, n')) :
    (canonicalIds d ++ idOrder ps).Nodup ∧ ∀ a ∈ canonicalIds d, ∀ b ∈ idOrder ps, a < b :=
  Lemmas.IdsP.pipeline_ids_distinct μ ids src hμ d h uri ps n' hc

/-- Fresh generator: the ids are 0, 1, 2, …, n'-1. -/
theorem C11_pipeline_ids_fresh (μ : MState) (src : Str)
    (hμ : (μ.reset Gen.dialects).dialect ∈ Gen.dialects) (d : Doc)
    (h : (parseWith Gen.dialects Gen.parserTable false μ 0 src).1 = .ok d)
    (uri : Str) (ps : List Pickle) (n' : Nat)
    (hc : compile uri d (parseWith Gen.dialects Gen.parserTable false μ 0 src).2.ids = some (ps, n')) :
    canonicalIds d ++ idOrder ps = List.range n' :=
  Lemmas.IdsP.pipeline_ids_fresh μ src hμ d h uri ps n' hc

/-- Equal input gives equal ids — and more: the id assignment is determined by the canonical
    order and the number of ids. -/
theorem C11_pipeline_ids_determined (μ₁ μ₂ : MState) (ids : Nat) (src₁ src₂ : Str)
    (hμ₁ : (μ₁.reset Gen.dialects).dialect ∈ Gen.dialects) (hμ₂ : (μ₂.reset Gen.dialects).dialect ∈ Gen.dialects)
    (d₁ d₂ : Doc)
    (h₁ : (parseWith Gen.dialects Gen.parserTable false μ₁ ids src₁).1 = .ok d₁)
    (h₂ : (parseWith Gen.dialects Gen.parserTable false μ₂ ids src₂).1 = .ok d₂)
    (uri₁ uri₂ : Str) (ps₁ ps₂ : List Pickle) (n' : Nat)
    (hc₁ : compile uri₁ d₁ (parseWith Gen.dialects Gen.parserTable false μ₁ ids src₁).2.ids = some (ps₁, n'))
    (hc₂ : compile uri₂ d₂ (parseWith Gen.dialects Gen.parserTable false μ₂ ids src₂).2.ids = some (ps₂, n')) :
    canonicalIds d₁ ++ idOrder ps₁ = canonicalIds d₂ ++ idOrder ps₂ :=
  (C11_pipeline_ids μ₁ ids src₁ hμ₁ d₁ h₁ uri₁ ps₁ n' hc₁).1.trans
    (C11_pipeline_ids μ₂ ids src₂ hμ₂ d₂ h₂ uri₂ ps₂ n' hc₂).1.symm

/-! ### P2: every id a pickle mentions resolves -/

/-- Any document (parsed or not): the compiler's pickles resolve into the document's feature,
    and every id they mention is an id of the document. -/
theorem C11_refs_resolve_compile (uri : Str) (d : Doc) (n : Nat) (ps : List Pickle) (n' : Nat)
    (h : compile uri d n = some (ps, n')) :
    ∀ p ∈ ps, ∃ f, d.feature = some f ∧ PickleResolves f p ∧ ∀ i ∈ pickleRefs p, i ∈ canonicalIds d :=
  Lemmas.IdsP.compile_refs uri d n ps n' h

/-- **Referential integrity for accepted documents**: every pickle resolves; every id it
    mentions occurs exactly once among all ids of the AST (it identifies one node, of the kind
    `PickleResolves` names, and no other node of any kind), and is an AST id, not a pickle id. -/
theorem C11_refs_resolve (μ : MState) (ids : Nat) (src : Str)
    (hμ : (μ.reset Gen.dialects).dialect ∈ Gen.dialects) (d : Doc)
    (h : (parseWith Gen.dialects Gen.parserTable false μ ids src).1 = .ok d)
    (uri : Str) (ps : List Pickle) (n' : Nat)
    (hc : compile uri d (parseWith Gen.dialects Gen.parserTable false μ ids src).2.ids = some (ps, n')) :
    ∀ p ∈ ps, ∃ f, d.feature = some f ∧ PickleResolves f p ∧
      ∀ i ∈ pickleRefs p, (canonicalIds d).count i = 1 ∧ i ∉ idOrder ps ∧
        ids ≤ i ∧ i < (parseWith Gen.dialects Gen.parserTable false μ ids src).2.ids :=
  Lemmas.IdsP.pipeline_refs μ ids src hμ d h uri ps n' hc

/-! ### P3: a stream -/

/-- every matcher the stream makes satisfies the hypothesis `hμ` of the theorems above -/
theorem C11_stream_matcher (μ : MState) (h : MState.init Gen.dialects (lit "en") = some μ) :
    (μ.reset Gen.dialects).dialect ∈ Gen.dialects :=
  Lemmas.IdsP.init_reset_mem Gen.dialects (lit "en") μ h

/-- The id counter never decreases, whatever the outcome of the parse. -/
theorem C11_parse_counter_monotone (D : List Dialect) (T : Table) (stop : Bool) (μ : MState) (ids : Nat) (src : Str) :
    ids ≤ (parseWith D T stop μ ids src).2.ids :=
  Lemmas.IdsP.parseWith_ids_mono D T stop μ ids src

/-- Accepted source, any option set: what is shown, and where the counter ends. -/
theorem C11_stream_source_ids (opts : Opts) (ids : Nat) (uri data : Str) (μ : MState)
    (hμ : MState.init Gen.dialects (lit "en") = some μ) (d : Doc)
    (h : (parseWith Gen.dialects Gen.parserTable false μ ids data).1 = .ok d) :
    shownIds (streamEnum Gen.dialects Gen.parserTable opts ids uri data).1 =
      (if opts.printAst then
         List.range' ids ((parseWith Gen.dialects Gen.parserTable false μ ids data).2.ids - ids) else []) ++
      (if opts.printPickles then
         List.range' (parseWith Gen.dialects Gen.parserTable false μ ids data).2.ids
           ((streamEnum Gen.dialects Gen.parserTable opts ids uri data).2 -
             (parseWith Gen.dialects Gen.parserTable false μ ids data).2.ids) else []) ∧
    ids ≤ (parseWith Gen.dialects Gen.parserTable false μ ids data).2.ids ∧
    (parseWith Gen.dialects Gen.parserTable false μ ids data).2.ids ≤
      (streamEnum Gen.dialects Gen.parserTable opts ids uri data).2 ∧
    (opts.printPickles = false → (streamEnum Gen.dialects Gen.parserTable opts ids uri data).2 =
      (parseWith Gen.dialects Gen.parserTable false μ ids data).2.ids) :=
  Lemmas.IdsP.streamEnum_ids_ok opts ids uri data μ hμ d h

/-- A source that is not accepted shows no ids; the counter does not decrease (it may increase:
    ids drawn before / after an error stay consumed). -/
theorem C11_stream_source_rejected (D : List Dialect) (T : Table) (opts : Opts) (ids : Nat) (uri data : Str)
    (h : ∀ μ d, MState.init D (lit "en") = some μ → (parseWith D T false μ ids data).1 ≠ .ok d) :
    shownIds (streamEnum D T opts ids uri data).1 = [] ∧ ids ≤ (streamEnum D T opts ids uri data).2 :=
  Lemmas.IdsP.streamEnum_ids_not_ok D T opts ids uri data h

/-- Every source, any option set: the shown ids are a contiguous block inside the interval from
    the counter the source was given to the counter it left. -/
theorem C11_stream_source_block (opts : Opts) (ids : Nat) (uri data : Str) :
    ∃ a b, shownIds (streamEnum Gen.dialects Gen.parserTable opts ids uri data).1 = List.range' a b ∧
      ids ≤ a ∧ a + b ≤ (streamEnum Gen.dialects Gen.parserTable opts ids uri data).2 :=
  Lemmas.IdsP.streamEnum_block opts ids uri data

/-- **All ids shown by a stream are strictly increasing in output order** — for every sequence
    of sources (accepted and rejected mixed), every option set and every start counter — hence
    pairwise distinct; all lie between the first counter and the last. -/
theorem C11_stream_ids (opts : Opts) (srcs : List (Str × Str)) (n : Nat) :
    (streamIds (streamAll Gen.dialects Gen.parserTable opts srcs n)).Pairwise (· < ·) ∧
    (streamIds (streamAll Gen.dialects Gen.parserTable opts srcs n)).Nodup ∧
    (∀ i ∈ streamIds (streamAll Gen.dialects Gen.parserTable opts srcs n),
      n ≤ i ∧ i < counterAfter Gen.dialects Gen.parserTable opts srcs n) ∧
    n ≤ counterAfter Gen.dialects Gen.parserTable opts srcs n :=
  Lemmas.IdsP.streamAll_ids opts srcs n

/-- **Dense**: document and pickles printed, every source accepted or leaving the counter
    unchanged: the shown ids are exactly all ids from the first counter to the last. -/
theorem C11_stream_ids_dense (opts : Opts) (hA : opts.printAst = true) (hP : opts.printPickles = true)
    (srcs : List (Str × Str)) (n : Nat)
    (h : ∀ x ∈ srcs, Lemmas.IdsP.StreamAccepts x.2 ∨
      (streamEnum Gen.dialects Gen.parserTable opts 0 x.1 x.2).2 = 0) :
    streamIds (streamAll Gen.dialects Gen.parserTable opts srcs n) =
      List.range' n (counterAfter Gen.dialects Gen.parserTable opts srcs n - n) :=
  Lemmas.IdsP.streamAll_ids_dense opts hA hP srcs n h

/-- … from a fresh generator: 0, 1, 2, … -/
theorem C11_stream_ids_fresh (opts : Opts) (hA : opts.printAst = true) (hP : opts.printPickles = true)
    (srcs : List (Str × Str))
    (h : ∀ x ∈ srcs, Lemmas.IdsP.StreamAccepts x.2 ∨
      (streamEnum Gen.dialects Gen.parserTable opts 0 x.1 x.2).2 = 0) :
    streamIds (streamAll Gen.dialects Gen.parserTable opts srcs 0) =
      List.range (counterAfter Gen.dialects Gen.parserTable opts srcs 0) := by
  rw [C11_stream_ids_dense opts hA hP srcs 0 h, Nat.sub_zero, List.range_eq_range']

/-! ### non-vacuity -/
section examples

/-- feature tags `@f1 @f2`; a background with a step with a one-row data table; a plain scenario
    (tag, two steps); an outline (two tags, one step) with two examples blocks (tags `@e1`,
    resp. `@e2 @e3`; two rows, resp. one row); a tagged rule with a background of its own and a
    tagged scenario -/
def C11P_demo : Str :=
  lit "@f1 @f2\nFeature: f\n  Background:\n    Given b\n      | t |\n  @s1\n  Scenario: plain\n    Given x\n    And y\n  @o1 @o2\n  Scenario Outline: out\n    Given <a>\n    @e1\n    Examples:\n      | a |\n      | 1 |\n      | 2 |\n    @e2 @e3\n    Examples: second\n      | a |\n      | 3 |\n  @r1\n  Rule: r\n    Background:\n      Given rb\n    @rs\n    Scenario: inrule\n      When z\n"

/-- rejected (ragged data table): its rows, step and scenario draw four ids that are never shown -/
def C11P_ragged : Str := lit "Feature: g\n  Scenario: s\n    Given x\n      | a | b |\n      | c |\n"
/-- rejected at its first line: draws nothing -/
def C11P_garbage : Str := lit "Oops\n"
def C11P_small : Str := lit "@t\nFeature: h\n  Scenario: s\n    Given x\n"

/-- P1 on the demo, from counter 0 and from counter 100: 30 AST ids, then 17 pickle ids
    (5 pickles with 3 + 2 + 2 + 2 + 3 steps), no gap between them. -/
example : (MState.init Gen.dialects (lit "en")).bind (fun μ =>
      let r := parseWith Gen.dialects Gen.parserTable false μ 0 C11P_demo
      match r.1 with
      | .ok d => (compile (lit "u") d r.2.ids).map fun (x : List Pickle × Nat) =>
          [[canonicalIds d], [[r.2.ids, x.2]], x.1.map (fun p => p.steps.map (·.id) ++ [p.id])]
      | _ => none) =
    some [[List.range' 0 30], [[30, 47]],
      [[30, 31, 32, 33], [34, 35, 36], [37, 38, 39], [40, 41, 42], [43, 44, 45, 46]]] := by
  kdecide

example : (MState.init Gen.dialects (lit "en")).map (fun μ =>
      let r := parseWith Gen.dialects Gen.parserTable false μ 100 C11P_demo
      match r.1 with
      | .ok d => (compile (lit "u") d r.2.ids).map fun (x : List Pickle × Nat) =>
          (decide (canonicalIds d ++ idOrder x.1 = List.range' 100 47), r.2.ids, x.2)
      | _ => none) = some (some (true, 130, 147)) := by
  kdecide

/-- P2 on the demo.  The AST: feature tags 28 29; background 2 with step 1 (table row 0); plain
    scenario 6 with steps 3 4 and tag 5; outline 20 with step 7, tags 18 19, examples 12 (tag 11,
    header 8, rows 9 10) and 17 (tags 15 16, header 13, row 14); rule 27 with tag 26, background
    22 with step 21, scenario 25 with step 23 and tag 24.  The five pickles mention:
    [pickle refs, step refs …, tag refs] — e.g. the third: scenario 20 and row 10; background
    step 1 alone, own step 7 with row 10; tags of the feature, the outline and the FIRST examples
    block; the last: scenario 25; feature background step 1, rule background step 21, own step 23;
    tags of the feature, the rule and the scenario.  Every mentioned id occurs once in the AST. -/
example : (MState.init Gen.dialects (lit "en")).bind (fun μ =>
      let r := parseWith Gen.dialects Gen.parserTable false μ 0 C11P_demo
      match r.1 with
      | .ok d => (compile (lit "u") d r.2.ids).map fun (x : List Pickle × Nat) =>
          x.1.map (fun p => [p.astNodeIds] ++ p.steps.map (·.astNodeIds) ++ [p.tags.map (·.astNodeId)])
      | _ => none) =
    some [[[6], [1], [3], [4], [28, 29, 5]],
          [[20, 9], [1], [7, 9], [28, 29, 18, 19, 11]],
          [[20, 10], [1], [7, 10], [28, 29, 18, 19, 11]],
          [[20, 14], [1], [7, 14], [28, 29, 18, 19, 15, 16]],
          [[25], [1], [21], [23], [28, 29, 26, 24]]] := by
  kdecide

example : (MState.init Gen.dialects (lit "en")).bind (fun μ =>
      let r := parseWith Gen.dialects Gen.parserTable false μ 0 C11P_demo
      match r.1 with
      | .ok d => (compile (lit "u") d r.2.ids).map fun (x : List Pickle × Nat) =>
          x.1.all fun p => (pickleRefs p).all fun i => (canonicalIds d).count i == 1
      | _ => none) = some true := by
  kdecide

/-- the theorems apply to the demo: all hypotheses are met (the stream's matcher, an accepted
    parse, the compiler's result), so every pickle of the demo resolves -/
example (μ : MState) (hμ : MState.init Gen.dialects (lit "en") = some μ) (d : Doc)
    (h : (parseWith Gen.dialects Gen.parserTable false μ 0 C11P_demo).1 = .ok d) :
    ∃ ps n', compile (lit "u") d (parseWith Gen.dialects Gen.parserTable false μ 0 C11P_demo).2.ids = some (ps, n') ∧
      canonicalIds d ++ idOrder ps = List.range n' ∧
      ∀ p ∈ ps, ∃ f, d.feature = some f ∧ PickleResolves f p := by
  obtain ⟨ps, n', hc⟩ := C11_pipeline_compile_total μ 0 C11P_demo d h (lit "u")
  refine ⟨ps, n', hc, C11_pipeline_ids_fresh μ C11P_demo (C11_stream_matcher μ hμ) d h _ ps n' hc, ?_⟩
  intro p hp
  obtain ⟨f, hf, hr, -⟩ := C11_refs_resolve μ 0 C11P_demo (C11_stream_matcher μ hμ) d h _ ps n' hc p hp
  exact ⟨f, hf, hr⟩

/-- P3, the counterexample to "dense for every stream": demo, a rejected ragged source, a small
    document; all options on.  Shown: 0…46, nothing, 51…55; the final counter is 56: the ids
    47…50 were drawn for the rejected source and never shown.  Still strictly increasing. -/
example :
    (streamAll Gen.dialects Gen.parserTable ⟨true, true, true⟩
      [(lit "a", C11P_demo), (lit "b", C11P_ragged), (lit "c", C11P_small)] 0).map shownIds =
      [List.range' 0 47, [], List.range' 51 5] ∧
    counterAfter Gen.dialects Gen.parserTable ⟨true, true, true⟩
      [(lit "a", C11P_demo), (lit "b", C11P_ragged), (lit "c", C11P_small)] 0 = 56 := by
  kdecide

/-- per envelope: the document's 30 ids, then each pickle's step ids and its own -/
example :
    (streamAll Gen.dialects Gen.parserTable ⟨true, true, true⟩
      [(lit "c", C11P_small), (lit "b", C11P_ragged), (lit "c", C11P_small)] 0).map (·.map envelopeIds) =
      [[[], [0, 1, 2], [3, 4]], [[]], [[], [9, 10, 11], [12, 13]]] := by
  kdecide

/-- with the document not printed its ids are drawn but not shown: blocks with gaps, increasing -/
example :
    streamIds (streamAll Gen.dialects Gen.parserTable ⟨true, false, true⟩
      [(lit "a", C11P_small), (lit "b", C11P_ragged), (lit "c", C11P_small)] 0) = [3, 4, 12, 13] := by
  kdecide

/-- the dense case: two accepted sources and one rejected source that draws nothing; the
    hypotheses of `C11_stream_ids_dense` hold for these sources, and the ids are 0 … 56 -/
example :
    streamIds (streamAll Gen.dialects Gen.parserTable ⟨true, true, true⟩
      [(lit "a", C11P_demo), (lit "b", C11P_garbage), (lit "c", C11P_small), (lit "d", C11P_small)] 0) =
      List.range 57 ∧
    (streamEnum Gen.dialects Gen.parserTable ⟨true, true, true⟩ 0 (lit "b") C11P_garbage).2 = 0 ∧
    ((MState.init Gen.dialects (lit "en")).map fun μ =>
      [C11P_demo, C11P_small].map fun s =>
        match (parseWith Gen.dialects Gen.parserTable false μ 0 s).1 with
        | .ok _ => true
        | _ => false) = some [true, true] := by
  kdecide

end examples
end GV
