/-
  Props/C14ErrorsDoc.lean — properties C14 / C04 at DOCUMENT level: ONE theorem that classifies
  EVERY error of EVERY rejected parse by its source line.

  "A document is rejected exactly when some line (or the end of file) cannot continue a sentence of
  the grammar, a tag line outside a doc string contains a tag with whitespace, a language header
  names an unknown dialect, or a table is ragged; each such fault is reported at its own line — a
  ragged table at its first deviating row, the end of file one line past the last — with a message
  that starts with its own '(line:column): ' position, and every error lies within the document."

  For every source text, both error modes, every incoming matcher state whose dialect after
  `reset()` is one of the dialect table, every id counter:

  * `C14_errors_classified`: if the parse is rejected with the errors `es` (the single error of stop
    mode, the list of collecting mode — cut by the error cap or not), every `e ∈ es` lies within
    `1 … lines + 1`, its message is `"(line:column): " ++ body`, and `e` is one of
      (a) UNEXPECTED LINE: `e = unexpectedErr row (freshTok l i)` for the physical line `l` numbered
          `i`, a state `row` of the table; kind `unexpectedToken`, location (i, indent l + 1), body
          `expected: <the state's list>, got '<strip (trimmed l)>'`; `i` is in the run's ghost list
          `unexpected`; `l` is not whitespace-only;
      (b) UNEXPECTED END OF FILE: `e = unexpectedErr row <end-of-file token numbered lines + 1>`; kind
          `unexpectedEOF`, location (lines + 1, no column — printed as `0`), body
          `unexpected end of file, expected: <list>`; `lines + 1` is in `unexpected`;
      (c) TAG WITH WHITESPACE: line `i` starts (after indentation) with `@`, `lineTags l = .error c`;
          kind `tagWhitespace`, location (i, c) = the column of the offending tag
          (`C04_tag_error_col`: an `@` is there), body `A tag may not contain whitespace`;
      (d) UNKNOWN LANGUAGE: line `i` matches the language-header pattern with a name that is no
          dialect of the table; kind `noSuchLanguage`, location (i, indent l + 1), body
          `Language not supported: <name>`;
      (e) RAGGED TABLE: kind `raggedTable`, body `inconsistent cell count within the table`, and the
          conclusion of `C12_ragged_error_sound` — `e` is at the first deviating row token `t` of a
          table of `builds`, (t.lineNo, indent l + 1) — where now (through `C18_built_tokens_are_lines`)
          `l` IS the physical line numbered `t.lineNo` of the source and starts with `|`.
    The classes are mutually exclusive (each fixes a different `kind`): `C14_error_class_by_kind`.
    `C14_unexpected_messages`: the full message texts of (a) and (b), `(i:c): expected: …, got '…'` and
    `(n+1:0): unexpected end of file, expected: …`.  `C14_ragged_in_source`: clause (e) alone.
  * The column of an unexpected-line error.  `unexpectedErr` reads `t.col`, which an earlier test may
    have written.  In the queue-free parse the token in hand holds no column or indent + 1 on its
    whole way through the tests of a state: tests that do not match leave the token alone, except
    `Language` (unknown name), which writes indent + 1; a test that matches but whose look-ahead
    guard fails is a `TagLine` test (`C14E_fact_guards`), which writes indent + 1.  Tokens that come
    back from the look-ahead queue of parser.py may carry column 1 (a matched `Comment` / `Empty`),
    but such lines never reach an error tail (`C18_fact_comment_blank`); this is part of
    `C18_queue_refines_peek`, through which the result is transferred.  So there is NO corner where
    the column differs from indent + 1; the end-of-file error never has a column.
  * `C04_error_locations_in_source`: an error has no column exactly when it is the end-of-file
    error; otherwise the column `c` satisfies `1 ≤ c ≤ |l|` for the physical line `l` of the error,
    the code point at column `c` is not whitespace, it is `@` / `#` / `|` for (c) / (d) / (e), and for
    (a) the message quotes `strip` of the line from column `c` on.

  Method: a run invariant on the queue-free parse (Lemmas/ErrorsDocRun.lean) — every error in
  `ctx.errors`, the single error of a stop-mode abort and every error of a composite abort is
  classified — transferred by `C18_queue_refines_peek`.  Generic form (`…_generic`): every table
  and dialect table passing the Boolean checks.

  Everything planned is proved; nothing is left open in this file.
-/
import GherkinVerif.Lemmas.ErrorsDocRun
import GherkinVerif.Props.C12Doc
import GherkinVerif.Props.C18AnyRun
import GherkinVerif.KDecide
namespace GV
open Spec

/-- table fact: a test with a look-ahead guard is a `TagLine` test -/
theorem C14E_fact_guards : guardsOnTagLine Gen.parserTable = true := by kdecide

/-- table fact: every state has an unguarded `Empty` or `Other` test -/
theorem C14E_fact_blank : blankTaken Gen.parserTable = true := by kdecide

/-- generic form, in the vocabulary of Lemmas/ErrorsDocBase.lean -/
theorem C14_errors_classified_generic (D : List Dialect) (T : Table)
    (hD : queueDialectFacts D = true) (hQ : queueFacts T = true) (hCB : commentBlankTested T = true)
    (hG : guardsOnTagLine T = true) (hB : blankTaken T = true)
    (stop : Bool) (μ : MState) (ids : Nat) (src : Str) (hμ : (μ.reset D).dialect ∈ D)
    (es : List PErr) (comp : Bool) (h : (parseWith D T stop μ ids src).1 = .rejected es comp) :
    ∀ e ∈ es, ErrClass D T (splitLines src) (parseWith D T stop μ ids src).2.unexpected e := by
  have hobs := Lemmas.queue_refines_peek D T hD hQ hCB stop μ ids src hμ
  have ho : (parseWith D T stop μ ids src).1 = (parseWithPure D T stop μ ids src).1 := congrArg Observed.outcome hobs
  have hun : (parseWith D T stop μ ids src).2.unexpected = (parseWithPure D T stop μ ids src).2.unexpected :=
    congrArg Observed.unexpected hobs
  rw [hun]
  exact ErrorsDoc.errors_pure hG hB stop μ ids src es comp (ho ▸ h)

/-- … for the generated parser and the dialect table -/
theorem C14_errors_class (stop : Bool) (μ : MState) (ids : Nat) (src : Str)
    (hμ : (μ.reset Gen.dialects).dialect ∈ Gen.dialects) (es : List PErr) (comp : Bool)
    (h : (parseWith Gen.dialects Gen.parserTable stop μ ids src).1 = .rejected es comp) :
    ∀ e ∈ es, ErrClass Gen.dialects Gen.parserTable (splitLines src)
      (parseWith Gen.dialects Gen.parserTable stop μ ids src).2.unexpected e :=
  C14_errors_classified_generic _ _ C18_fact_keywords C18_fact_queue C18_fact_comment_blank C14E_fact_guards
    C14E_fact_blank stop μ ids src hμ es comp h

/-- The classes are mutually exclusive: which one an error of a rejected parse belongs to is decided
    by its kind. -/
theorem C14_error_class_by_kind (stop : Bool) (μ : MState) (ids : Nat) (src : Str)
    (hμ : (μ.reset Gen.dialects).dialect ∈ Gen.dialects) (es : List PErr) (comp : Bool)
    (h : (parseWith Gen.dialects Gen.parserTable stop μ ids src).1 = .rejected es comp) (e : PErr) (he : e ∈ es) :
    let L := splitLines src
    let un := (parseWith Gen.dialects Gen.parserTable stop μ ids src).2.unexpected
    (e.kind = .unexpectedToken ↔ IsUnexpectedLine Gen.parserTable L un e) ∧
    (e.kind = .unexpectedEOF ↔ IsUnexpectedEOF Gen.parserTable L un e) ∧
    (e.kind = .tagWhitespace ↔ IsTagWhitespace L e) ∧
    (e.kind = .noSuchLanguage ↔ IsUnknownLanguage Gen.dialects L e) ∧
    (e.kind = .raggedTable ↔ IsRagged e) :=
  (C14_errors_class stop μ ids src hμ es comp h e he).kind

/-- the ragged-table clause: `C12_ragged_error_sound`, with the row token's line linked to the source -/
theorem C14_ragged_in_source (stop : Bool) (μ : MState) (ids : Nat) (src : Str)
    (hμ : (μ.reset Gen.dialects).dialect ∈ Gen.dialects) (es : List PErr) (comp : Bool)
    (h : (parseWith Gen.dialects Gen.parserTable stop μ ids src).1 = .rejected es comp) (e : PErr) (he : e ∈ es)
    (hb : e.body = lit "inconsistent cell count within the table") :
    ∃ run t l, run ∈ tableRuns (parseWith Gen.dialects Gen.parserTable stop μ ids src).2.builds ∧
      firstDeviating run = some t ∧ e = raggedErrAt t ∧
      t ∈ (parseWith Gen.dialects Gen.parserTable stop μ ids src).2.builds ∧ t.mtype = some .TableRow ∧
      t.line = some l ∧ t.items = cells l ∧ e.loc = ⟨t.lineNo, some (lineIndent l + 1)⟩ ∧
      (splitLines src)[t.lineNo - 1]? = some l ∧ 1 ≤ t.lineNo ∧ lineStartsWith l [124] = true := by
  obtain ⟨run, t, l, h1, h2, h3, h4, h5, h6, h7, h8⟩ := C12_ragged_error_sound stop μ ids src es comp h e he hb
  refine ⟨run, t, l, h1, h2, h3, h4, h5, h6, h7, h8, ?_⟩
  rcases C18_built_tokens_are_lines stop μ ids src hμ t h4 with ⟨hn, -, -⟩ | ⟨l', hL, hi, hl', K, μi, -, hres, -, hK⟩
  · rw [hn] at h6; cases h6
  · rw [h6] at hl'; cases hl'
    rw [h5] at hK; cases hK
    refine ⟨hL, hi, ?_⟩
    have := (Lemmas.row_col Gen.dialects μi (freshTok l t.lineNo) l rfl hres).2.1
    rw [← Lemmas.trimmed_eq_drop] at this
    exact this

/-- **Every error of every rejected parse, classified by its source line.** -/
theorem C14_errors_classified (stop : Bool) (μ : MState) (ids : Nat) (src : Str)
    (hμ : (μ.reset Gen.dialects).dialect ∈ Gen.dialects) (es : List PErr) (comp : Bool)
    (h : (parseWith Gen.dialects Gen.parserTable stop μ ids src).1 = .rejected es comp) :
    let L := splitLines src
    let ctx := (parseWith Gen.dialects Gen.parserTable stop μ ids src).2
    ∀ e ∈ es,
      (1 ≤ e.loc.line ∧ e.loc.line ≤ L.length + 1) ∧
      e.message = [40] ++ natToStr e.loc.line ++ [58] ++ natToStr (e.loc.col.getD 0) ++ lit "): " ++ e.body ∧
      ( -- (a) unexpected line
        (∃ i l row, L[i - 1]? = some l ∧ 1 ≤ i ∧ i ∈ ctx.unexpected ∧ row ∈ Gen.parserTable.rows ∧
          lineIsEmpty l = false ∧ e = unexpectedErr row (freshTok l i) ∧
          e.kind = .unexpectedToken ∧ e.loc = ⟨i, some (lineIndent l + 1)⟩ ∧
          e.body = lit "expected: " ++ joinWith (lit ", ") (row.expected.map lit) ++ lit ", got '" ++
            strip (trimmed l) ++ lit "'") ∨
        -- (b) unexpected end of file
        (∃ row, row ∈ Gen.parserTable.rows ∧ (L.length + 1) ∈ ctx.unexpected ∧
          e = unexpectedErr row { line := none, lineNo := L.length + 1 } ∧
          e.kind = .unexpectedEOF ∧ e.loc = ⟨L.length + 1, none⟩ ∧
          e.body = lit "unexpected end of file, expected: " ++ joinWith (lit ", ") (row.expected.map lit)) ∨
        -- (c) tag with whitespace
        (∃ i l c, L[i - 1]? = some l ∧ 1 ≤ i ∧ lineStartsWith l [64] = true ∧ lineTags l = .error c ∧
          e.kind = .tagWhitespace ∧ e.loc = ⟨i, some c⟩ ∧ e.body = lit "A tag may not contain whitespace") ∨
        -- (d) unknown language
        (∃ i l name, L[i - 1]? = some l ∧ 1 ≤ i ∧ languageRe l = some name ∧
          findDialect Gen.dialects name = none ∧
          e.kind = .noSuchLanguage ∧ e.loc = ⟨i, some (lineIndent l + 1)⟩ ∧
          e.body = lit "Language not supported: " ++ name) ∨
        -- (e) ragged table
        (e.kind = .raggedTable ∧ e.body = lit "inconsistent cell count within the table" ∧
          ∃ run t l, run ∈ tableRuns ctx.builds ∧ firstDeviating run = some t ∧ e = raggedErrAt t ∧
            t ∈ ctx.builds ∧ t.mtype = some .TableRow ∧ t.line = some l ∧ t.items = cells l ∧
            e.loc = ⟨t.lineNo, some (lineIndent l + 1)⟩ ∧
            L[t.lineNo - 1]? = some l ∧ 1 ≤ t.lineNo ∧ lineStartsWith l [124] = true) ) := by
  intro L ctx e he
  have hcls := C14_errors_class stop μ ids src hμ es comp h e he
  have hrag : IsRagged e → ∃ run t l, run ∈ tableRuns ctx.builds ∧ firstDeviating run = some t ∧
      e = raggedErrAt t ∧ t ∈ ctx.builds ∧ t.mtype = some .TableRow ∧ t.line = some l ∧ t.items = cells l ∧
      e.loc = ⟨t.lineNo, some (lineIndent l + 1)⟩ ∧
      L[t.lineNo - 1]? = some l ∧ 1 ≤ t.lineNo ∧ lineStartsWith l [124] = true :=
    fun hr => C14_ragged_in_source stop μ ids src hμ es comp h e he hr.2
  refine ⟨?_, rfl, ?_⟩
  · by_cases hr : IsRagged e
    · obtain ⟨run, t, l, -, -, -, -, -, -, -, hloc, hL, hi, -⟩ := hrag hr
      rw [hloc]
      have := (List.getElem?_eq_some_iff.1 hL).1
      exact ⟨hi, by show t.lineNo ≤ _; omega⟩
    · exact hcls.line_range hr
  · rcases hcls with ⟨i, l, row, h1, h2, h3, h4, h5, rfl⟩ | ⟨row, h1, h2, rfl⟩ | ⟨i, l, c, h1, h2, h3, h4, rfl⟩ |
      ⟨i, l, name, h1, h2, h3, h4, rfl⟩ | hr
    · exact .inl ⟨i, l, row, h1, h2, h3, h4, h5, rfl, rfl, rfl, rfl⟩
    · exact .inr (.inl ⟨row, h1, h2, rfl, rfl, rfl, rfl⟩)
    · exact .inr (.inr (.inl ⟨i, l, c, h1, h2, h3, h4, rfl, rfl, rfl⟩))
    · exact .inr (.inr (.inr (.inl ⟨i, l, name, h1, h2, h3, h4, rfl, rfl, rfl⟩)))
    · exact .inr (.inr (.inr (.inr ⟨hr.1, hr.2, hrag hr⟩)))

/-- The full message texts of the two error-tail errors: `(i:c): expected: <list>, got '<text>'` with
    `c` = indent + 1, and `(n+1:0): unexpected end of file, expected: <list>` — an absent column is
    printed as `0`. -/
theorem C14_unexpected_messages (stop : Bool) (μ : MState) (ids : Nat) (src : Str)
    (hμ : (μ.reset Gen.dialects).dialect ∈ Gen.dialects) (es : List PErr) (comp : Bool)
    (h : (parseWith Gen.dialects Gen.parserTable stop μ ids src).1 = .rejected es comp) (e : PErr) (he : e ∈ es) :
    (e.kind = .unexpectedToken → ∃ i l row, (splitLines src)[i - 1]? = some l ∧ 1 ≤ i ∧
      row ∈ Gen.parserTable.rows ∧
      e.message = lit "(" ++ natToStr i ++ lit ":" ++ natToStr (lineIndent l + 1) ++ lit "): expected: " ++
        joinWith (lit ", ") (row.expected.map lit) ++ lit ", got '" ++ strip (trimmed l) ++ lit "'") ∧
    (e.kind = .unexpectedEOF → ∃ row, row ∈ Gen.parserTable.rows ∧
      e.message = lit "(" ++ natToStr ((splitLines src).length + 1) ++ lit ":0): unexpected end of file, expected: " ++
        joinWith (lit ", ") (row.expected.map lit)) := by
  obtain ⟨k1, k2, -⟩ := C14_error_class_by_kind stop μ ids src hμ es comp h e he
  have e1 : lit "): expected: " = lit "): " ++ lit "expected: " := by decide
  have e2 : lit ":0): unexpected end of file, expected: " =
      [58] ++ natToStr 0 ++ lit "): " ++ lit "unexpected end of file, expected: " := by decide
  have e3 : lit "(" = [40] := by decide
  have e4 : lit ":" = [58] := by decide
  constructor
  · intro hk
    obtain ⟨i, l, row, h1, h2, -, h4, -, rfl⟩ := k1.1 hk
    refine ⟨i, l, row, h1, h2, h4, ?_⟩
    rw [e1, e3, e4]
    simp only [PErr.message, expectedText, Option.getD_some, List.append_assoc]
  · intro hk
    obtain ⟨row, h1, -, rfl⟩ := k2.1 hk
    refine ⟨row, h1, ?_⟩
    rw [e2, e3]
    simp only [PErr.message, expectedText, Option.getD_none, List.append_assoc]

/-- Why the column needs an argument: `unexpectedErr` reports whatever column an earlier test left
    in the token.  On a token of an indented comment line that a look-ahead has matched as `Comment`
    (column 1) it would report column 1, not indent + 1 = 3.  No run reaches this: such a line is
    consumed by every state (`C18_fact_comment_blank`), and in the queue-free parse the token in hand
    holds no column or indent + 1 (`ErrorsDoc.colOK_match`). -/
example :
    (Gen.parserTable.row? 0).map (fun row =>
      ((unexpectedErr row { line := some (lit "  #c\n"), lineNo := 3, col := some 1 }).loc,
       (unexpectedErr row (freshTok (lit "  #c\n") 3)).loc)) =
    some (⟨3, some 1⟩, ⟨3, some 3⟩) := by
  kdecide

/-! ### C04: what is found in the source at the reported position -/

theorem C14E_getElem_of_drop {l : Str} {k a : Nat} {s : Str} (h : l.drop k = a :: s) : l[k]? = some a :=
  (ErrorsDoc.getElem?_of_drop_cons h).1

theorem C14E_head_of_startsWith {a : Nat} {s : Str} (h : startsWith [a] s = true) : ∃ r, s = a :: r := by
  cases s with
  | nil => simp [startsWith] at h
  | cons b r =>
    simp only [startsWith, Bool.and_true, beq_iff_eq] at h
    exact ⟨r, by rw [h]⟩

theorem C14E_languageRe_hash {l name : Str} (h : languageRe l = some name) : ∃ r, trimmed l = 35 :: r := by
  unfold languageRe at h
  split at h
  · rename_i s1 hs; exact ⟨s1, hs⟩
  · cases h

/-- **Every error location names a place in the source.**  An error of a rejected parse has no
    column exactly when it is the unexpected-end-of-file error.  Otherwise its column `c` is a column
    of the physical line `l` with the error's line number (`1 ≤ c ≤ |l|`), the code point there is not
    whitespace; for a tag with whitespace it is the `@` of the offending tag, for an unknown language
    the `#` of the header, for a ragged table the leading `|` of the first deviating row; for an
    unexpected line it is the first code point after the indentation and the message quotes the line
    from there on, stripped. -/
theorem C04_error_locations_in_source (stop : Bool) (μ : MState) (ids : Nat) (src : Str)
    (hμ : (μ.reset Gen.dialects).dialect ∈ Gen.dialects) (es : List PErr) (comp : Bool)
    (h : (parseWith Gen.dialects Gen.parserTable stop μ ids src).1 = .rejected es comp) :
    ∀ e ∈ es,
      (e.loc.col = none ↔ e.kind = .unexpectedEOF) ∧
      ∀ c, e.loc.col = some c →
        ∃ l ch, (splitLines src)[e.loc.line - 1]? = some l ∧ 1 ≤ c ∧ c ≤ l.length ∧
          l[c - 1]? = some ch ∧ isSpace ch = false ∧
          (e.kind = .unexpectedToken → c = lineIndent l + 1 ∧ ∃ row ∈ Gen.parserTable.rows,
            e.body = lit "expected: " ++ joinWith (lit ", ") (row.expected.map lit) ++ lit ", got '" ++
              strip (l.drop (c - 1)) ++ lit "'") ∧
          (e.kind = .tagWhitespace → ch = 64 ∧ lineIndent l + 1 ≤ c ∧
            ∃ item, (64 :: item) <+: l.drop (c - 1) ∧ (strip item).any isSpace = true) ∧
          (e.kind = .noSuchLanguage → ch = 35 ∧ c = lineIndent l + 1) ∧
          (e.kind = .raggedTable → ch = 124 ∧ c = lineIndent l + 1) := by
  intro e he
  have hlen : ∀ (l : Str) (k ch : Nat), l[k]? = some ch → k + 1 ≤ l.length := by
    intro l k ch hk
    have := (List.getElem?_eq_some_iff.1 hk).1
    omega
  obtain ⟨-, -, hc⟩ := C14_errors_classified stop μ ids src hμ es comp h e he
  rcases hc with ⟨i, l, row, h1, h2, h3, h4, h5, -, hk, hloc, hbody⟩ | ⟨row, h1, h2, -, hk, hloc, hbody⟩ |
    ⟨i, l, c, h1, h2, h3, h4, hk, hloc, hbody⟩ | ⟨i, l, name, h1, h2, h3, h4, hk, hloc, hbody⟩ |
    ⟨hk, hbody, run, t, l, -, -, -, -, -, -, -, hloc, hL, hi, hs⟩
  · -- (a)
    refine ⟨by rw [hloc, hk]; exact ⟨(fun x => by cases x), (fun x => by cases x)⟩, fun c hc => ?_⟩
    rw [hloc] at hc; cases hc
    have hne : l.drop (lineIndent l) ≠ [] := by
      rw [← Lemmas.trimmed_eq_drop]
      intro hnil
      simp [lineIsEmpty, hnil] at h5
    obtain ⟨ch, r, hdrop⟩ : ∃ ch r, l.drop (lineIndent l) = ch :: r := by
      cases hd : l.drop (lineIndent l) with
      | nil => exact absurd hd hne
      | cons ch r => exact ⟨ch, r, rfl⟩
    have hget := C14E_getElem_of_drop hdrop
    refine ⟨l, ch, (by rw [hloc]; exact h1), Nat.le_add_left _ _, hlen l _ ch hget, (by simpa using hget),
      Lemmas.indent_next_nonspace l ch hget, fun _ => ⟨rfl, row, h4, ?_⟩,
      (fun x => by rw [hk] at x; cases x), (fun x => by rw [hk] at x; cases x), (fun x => by rw [hk] at x; cases x)⟩
    rw [hbody, Lemmas.trimmed_eq_drop]
    rfl
  · -- (b)
    refine ⟨by rw [hloc, hk]; exact ⟨fun _ => rfl, fun _ => rfl⟩, fun c hc => ?_⟩
    rw [hloc] at hc; cases hc
  · -- (c)
    refine ⟨by rw [hloc, hk]; exact ⟨(fun x => by cases x), (fun x => by cases x)⟩, fun c' hc => ?_⟩
    rw [hloc] at hc; cases hc
    obtain ⟨t1, t2, t3⟩ := Lemmas.tag_error_col l h3 c h4
    refine ⟨l, 64, (by rw [hloc]; exact h1), (by omega), ?_, t2, (by decide),
      (fun x => by rw [hk] at x; cases x), fun _ => ⟨rfl, t1, t3⟩,
      (fun x => by rw [hk] at x; cases x), (fun x => by rw [hk] at x; cases x)⟩
    have := hlen l _ _ t2
    omega
  · -- (d)
    refine ⟨by rw [hloc, hk]; exact ⟨(fun x => by cases x), (fun x => by cases x)⟩, fun c hc => ?_⟩
    rw [hloc] at hc; cases hc
    obtain ⟨r, hr⟩ := C14E_languageRe_hash h3
    rw [Lemmas.trimmed_eq_drop] at hr
    have hget := C14E_getElem_of_drop hr
    exact ⟨l, 35, (by rw [hloc]; exact h1), Nat.le_add_left _ _, hlen l _ _ hget, (by simpa using hget), (by decide),
      (fun x => by rw [hk] at x; cases x), (fun x => by rw [hk] at x; cases x), fun _ => ⟨rfl, rfl⟩,
      (fun x => by rw [hk] at x; cases x)⟩
  · -- (e)
    refine ⟨by rw [hloc, hk]; exact ⟨(fun x => by cases x), (fun x => by cases x)⟩, fun c hc => ?_⟩
    rw [hloc] at hc; cases hc
    obtain ⟨r, hr⟩ := C14E_head_of_startsWith hs
    rw [Lemmas.trimmed_eq_drop] at hr
    have hget := C14E_getElem_of_drop hr
    exact ⟨l, 124, (by rw [hloc]; exact hL), Nat.le_add_left _ _, hlen l _ _ hget, (by simpa using hget), (by decide),
      (fun x => by rw [hk] at x; cases x), (fun x => by rw [hk] at x; cases x), (fun x => by rw [hk] at x; cases x),
      fun _ => ⟨rfl, rfl⟩⟩

/-! ### non-vacuity: one document with all five classes (collecting mode, six errors) -/

/-- line 1: a header naming no dialect (then taken as a comment); lines 5–6: a ragged table, reported
    when the table is closed; line 7: a tag with whitespace, which is then also an unexpected line;
    line 8: an unexpected line; line 9: a tag line, after which the end of file is unexpected -/
def C14E_demoSrc : Str :=
  lit "#language: xx\nFeature: f\nScenario: s\n  Given x\n  | a |\n  | b | c |\n @a b\n  foo\n@t\n"

example : (MState.init Gen.dialects (lit "en")).map
      (fun μ =>
        let r := parseWith Gen.dialects Gen.parserTable false μ 0 C14E_demoSrc
        (match r.1 with
         | .rejected es comp => (es.map fun (e : PErr) => (e.kind, e.loc), comp)
         | _ => ([], false), r.2.unexpected, (splitLines C14E_demoSrc).length)) =
    some (([(.noSuchLanguage, ⟨1, some 1⟩), (.tagWhitespace, ⟨7, some 2⟩), (.unexpectedToken, ⟨7, some 2⟩),
            (.unexpectedToken, ⟨8, some 3⟩), (.raggedTable, ⟨6, some 3⟩), (.unexpectedEOF, ⟨10, none⟩)], true),
          [7, 8, 10], 9) := by
  kdecide

/-- … and their message bodies -/
example : (MState.init Gen.dialects (lit "en")).map
      (fun μ =>
        match (parseWith Gen.dialects Gen.parserTable false μ 0 C14E_demoSrc).1 with
        | .rejected es _ => es.map fun (e : PErr) => e.body
        | _ => []) =
    some [lit "Language not supported: xx",
          lit "A tag may not contain whitespace",
          lit ("expected: #EOF, #TableRow, #StepLine, #TagLine, #ExamplesLine, #ScenarioLine, #RuleLine, " ++
               "#Comment, #Empty, got '@a b'"),
          lit ("expected: #EOF, #TableRow, #StepLine, #TagLine, #ExamplesLine, #ScenarioLine, #RuleLine, " ++
               "#Comment, #Empty, got 'foo'"),
          lit "inconsistent cell count within the table",
          lit "unexpected end of file, expected: #TagLine, #RuleLine, #Comment, #Empty"] := by
  kdecide

/-- the classification of each, against the source lines: (d) line 1 is a header naming `xx`;
    (c) line 7 starts with `@` and its first tag, at column 2, contains whitespace; (a) lines 7 and 8
    with indentation 1 and 2; (e) line 6 starts with `|` and has 2 cells where line 5 has 1;
    (b) the end of file is line 10 of a 9-line document -/
example :
    (((splitLines C14E_demoSrc)[0]?.map languageRe = some (some (lit "xx")) ∧
      findDialect Gen.dialects (lit "xx") = none) ∧
    ((splitLines C14E_demoSrc)[6]?.map (fun l =>
        (lineStartsWith l [64], (match lineTags l with | .error c => some c | .ok _ => none), lineIndent l)) =
      some (true, some 2, 1)) ∧
    ((splitLines C14E_demoSrc)[7]?.map (fun l => (lineIndent l, strip (trimmed l), lineIsEmpty l)) =
      some (2, lit "foo", false)) ∧
    ((splitLines C14E_demoSrc)[4]?.map (fun l => (cells l).length) = some 1 ∧
      (splitLines C14E_demoSrc)[5]?.map (fun l => (lineStartsWith l [124], (cells l).length, lineIndent l)) =
        some (true, 2, 2)) ∧
    (splitLines C14E_demoSrc).length + 1 = 10) := by
  kdecide

/-- stop mode reports the first of them only -/
example : (MState.init Gen.dialects (lit "en")).map
      (fun μ =>
        match (parseWith Gen.dialects Gen.parserTable true μ 0 C14E_demoSrc).1 with
        | .rejected es comp => some (es, comp)
        | _ => none) =
    some (some ([⟨.noSuchLanguage, ⟨1, some 1⟩, lit "Language not supported: xx"⟩], false)) := by
  kdecide

end GV
