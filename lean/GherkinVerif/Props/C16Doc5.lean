/-
  Props/C16Doc5.lean — property C16, goal G3, remainder (PARTIAL): a comment line inserted directly
  after a keyword line, where a comment OPENS THE DESCRIPTION.

  `C16_comment_line_document_all_partial`: the conclusion of `C16_comment_line_document`
  (Props/C16Doc4.lean) — outcome of `src'` = `insertComment k ⟨⟨k+1, 1⟩, rstripCRLF c⟩` of the renamed
  outcome of `src` — under the hypothesis that the state `s` in which the original run stands after
  `k` lines does not read `c` as a language header and
    (a) its comment test builds and stays (`Spec.commentSelfLoop`, as before), or
    (b) its comment test opens the description (`Spec.commentOpensDescription`: the eight states
        3, 5, 10, 15, 19, 21, 26, 31 of the generated table, directly after `Feature:`,
        `Background:`, `Scenario:`, `Examples:`, `Rule:`) AND the original run has a line `k+1` and
        goes on with it INTO THE DESCRIPTION STATE (`stateAfter (k+1) = descTarget s`), i.e. line
        `k+1` is itself description text or a comment.
  Boolean form `Spec.commentLineOk2B`; text form `C16_comment_line_text2`.

  WHAT IS MISSING (why `_partial`).  The TRUE hypothesis in the states (b), found with `#eval`, is
  weaker: line `k+1` is not read as `Empty` (or `k` is the end of the text).  Not covered here: line
  `k+1` is a keyword / step / tag / table-row line or the end of the text.  There the second run
  closes an EMPTY `Description` node, which leaves an item `(.rule .Description, .descr "")` in the
  open node (and, for header nodes, in the raw node handed on to the parent) that the first run does
  not have; `getDescription` yields `""` in both, but the builder relation of
  Lemmas/LayoutDoc3Builder.lean has to be re-proved with that extra item, plus the invariant that a
  node holding it never receives a second `Description` (a unary invariant of every run: in a
  description-opening state the top node has only token items).  What IS proved for (b) avoids both:
  when line `k+1` goes into the description state, the first run opens the `Description` node itself
  and the two builder states coincide again (Lemmas/LayoutDoc5.lean, `desc_step`).
-/
import GherkinVerif.KDecide
import GherkinVerif.Props.C16Doc4
import GherkinVerif.Lemmas.LayoutDoc5
namespace GV
open Lemmas Layout3 Layout4 Layout5

/-- Generic form. -/
theorem C16_comment_line_document_all_partial_generic (D : List Dialect) (T : Table)
    (hD : Spec.stepKeywordsOk D = true) (hQD : Spec.queueDialectFacts D = true)
    (hQT : Spec.queueFacts T = true) (hCB : Spec.commentBlankTested T = true)
    (hLA : Spec.lookaheadsCommentOk T = true) (ds : List (Nat × Nat)) (hds : Spec.depthsOk T ds = true)
    (hps : Spec.prodsOk T ds = true)
    (stop : Bool) (μ : MState) (ids : Nat) (src src' : Str) (pre post : List Str) (c : Str)
    (hc : lineStartsWith c [35] = true)
    (h1 : splitLines src = pre ++ post) (h2 : splitLines src' = pre ++ c :: post)
    (hμ : (μ.reset D).dialect ∈ D)
    (hst : ∀ s, Spec.stateAfter D T stop μ ids src pre.length = some s →
      (Spec.languageTested T s = true → languageRe (lineText c none) = none) ∧
      (Spec.commentSelfLoop T s = true ∨
        (Spec.commentOpensDescription T s = true ∧ Spec.moreLines D T stop μ ids src pre.length = true ∧
          Spec.stateAfter D T stop μ ids src (pre.length + 1) = some (Spec.descTarget T s)))) :
    (parseWith D T stop μ ids src').1 =
      Spec.insertComment pre.length ⟨⟨pre.length + 1, some 1⟩, rstripCRLF c⟩
        (Spec.mapOutcome (Spec.insertMap pre.length) (parseWith D T stop μ ids src).1) ∧
    C16_MappedContext (Spec.insertMap pre.length) (parseWith D T stop μ ids src).2 (parseWith D T stop μ ids src').2 := by
  obtain ⟨h, hc'⟩ := comment_line_parseWith2 hD hQD hQT hCB (tableOkC_of_facts hLA hds hps) hc stop μ ids pre post
    h1 h2 hμ hst
  exact ⟨h, hc'.errors, hc'.μ, hc'.ids, hc'.unexpected⟩

/-- **Inserting a comment line** where the original run builds a comment and stays, or — directly
    after a keyword line — where it opens the description and the next line goes into it. -/
theorem C16_comment_line_document_all_partial (stop : Bool) (μ : MState) (ids : Nat) (src src' : Str)
    (pre post : List Str) (c : Str) (hc : lineStartsWith c [35] = true)
    (h1 : splitLines src = pre ++ post) (h2 : splitLines src' = pre ++ c :: post)
    (hμ : (μ.reset Gen.dialects).dialect ∈ Gen.dialects)
    (hst : ∀ s, Spec.stateAfter Gen.dialects Gen.parserTable stop μ ids src pre.length = some s →
      (Spec.languageTested Gen.parserTable s = true → languageRe (lineText c none) = none) ∧
      (Spec.commentSelfLoop Gen.parserTable s = true ∨
        (Spec.commentOpensDescription Gen.parserTable s = true ∧
          Spec.moreLines Gen.dialects Gen.parserTable stop μ ids src pre.length = true ∧
          Spec.stateAfter Gen.dialects Gen.parserTable stop μ ids src (pre.length + 1) =
            some (Spec.descTarget Gen.parserTable s)))) :
    (parseWith Gen.dialects Gen.parserTable stop μ ids src').1 =
      Spec.insertComment pre.length ⟨⟨pre.length + 1, some 1⟩, rstripCRLF c⟩
        (Spec.mapOutcome (Spec.insertMap pre.length) (parseWith Gen.dialects Gen.parserTable stop μ ids src).1) :=
  (C16_comment_line_document_all_partial_generic _ _ C16_step_keywords_ok C18_fact_keywords C18_fact_queue
    C18_fact_comment_blank C16_fact_lookaheads_comment _ C16_fact_depths C16_fact_prods
    stop μ ids src src' pre post c hc h1 h2 hμ hst).1

/-- … and the final contexts -/
theorem C16_comment_line_document_all_partial_context (stop : Bool) (μ : MState) (ids : Nat) (src src' : Str)
    (pre post : List Str) (c : Str) (hc : lineStartsWith c [35] = true)
    (h1 : splitLines src = pre ++ post) (h2 : splitLines src' = pre ++ c :: post)
    (hμ : (μ.reset Gen.dialects).dialect ∈ Gen.dialects)
    (hst : ∀ s, Spec.stateAfter Gen.dialects Gen.parserTable stop μ ids src pre.length = some s →
      (Spec.languageTested Gen.parserTable s = true → languageRe (lineText c none) = none) ∧
      (Spec.commentSelfLoop Gen.parserTable s = true ∨
        (Spec.commentOpensDescription Gen.parserTable s = true ∧
          Spec.moreLines Gen.dialects Gen.parserTable stop μ ids src pre.length = true ∧
          Spec.stateAfter Gen.dialects Gen.parserTable stop μ ids src (pre.length + 1) =
            some (Spec.descTarget Gen.parserTable s)))) :
    C16_MappedContext (Spec.insertMap pre.length) (parseWith Gen.dialects Gen.parserTable stop μ ids src).2
      (parseWith Gen.dialects Gen.parserTable stop μ ids src').2 :=
  (C16_comment_line_document_all_partial_generic _ _ C16_step_keywords_ok C18_fact_keywords C18_fact_queue
    C18_fact_comment_blank C16_fact_lookaheads_comment _ C16_fact_depths C16_fact_prods
    stop μ ids src src' pre post c hc h1 h2 hμ hst).2

/-- **The text form**, taking exactly the Boolean `Spec.commentLineOk2B` a driver can evaluate. -/
theorem C16_comment_line_text2 (stop : Bool) (μ : MState) (ids : Nat) (s1 s2 c : Str)
    (hs1 : s1 = [] ∨ s1.getLast? = some 10) (hlf : 10 ∉ c)
    (hμ : (μ.reset Gen.dialects).dialect ∈ Gen.dialects)
    (hok : Spec.commentLineOk2B Gen.dialects Gen.parserTable stop μ ids (s1 ++ s2) (splitLines s1).length
      (c ++ [10]) = true) :
    (parseWith Gen.dialects Gen.parserTable stop μ ids (s1 ++ (c ++ [10]) ++ s2)).1 =
      Spec.insertComment (splitLines s1).length ⟨⟨(splitLines s1).length + 1, some 1⟩, rstripCRLF (c ++ [10])⟩
        (Spec.mapOutcome (Spec.insertMap (splitLines s1).length)
          (parseWith Gen.dialects Gen.parserTable stop μ ids (s1 ++ s2)).1) := by
  unfold Spec.commentLineOk2B at hok
  simp only [Bool.and_eq_true] at hok
  obtain ⟨hc, hst⟩ := hok
  refine C16_comment_line_document_all_partial stop μ ids (s1 ++ s2) (s1 ++ (c ++ [10]) ++ s2) (splitLines s1)
    (splitLines s2) (c ++ [10]) hc (splitLines_append_of_lf s1 s2 hs1) ?_ hμ fun s hs => ?_
  · rw [List.append_assoc, splitLines_append_of_lf s1 _ hs1,
      splitLines_append_of_lf (c ++ [10]) s2 (.inr (by simp)), splitLines_one_line c hlf]
    rfl
  · rw [hs] at hst
    simp only [Bool.and_eq_true, Bool.or_eq_true, Bool.not_eq_true', Option.isNone_iff_eq_none, beq_iff_eq] at hst
    obtain ⟨hl, hp⟩ := hst
    refine ⟨fun h => ?_, ?_⟩
    · rcases hl with h' | h'
      · rw [h'] at h; cases h
      · exact h'
    · rcases hp with h' | ⟨⟨h1', h2'⟩, h3'⟩
      · exact .inl h'
      · exact .inr ⟨h1', h2', h3'⟩

/-! ### non-vacuity and what is not covered -/

/-- a feature with a description, a scenario whose description starts with a comment -/
def C16_descDoc : Str := lit "Feature: f\n  free text\nScenario: s\n  # old\n  more\n  Given x\n"

/-- the old check (self-loop states only) fails directly after the feature line (k = 1) and after
    the scenario line (k = 3); the new one holds there too — the next line is description text
    (k = 1) or a comment (k = 3) — in both error modes -/
example : (MState.init Gen.dialects (lit "en")).map (fun μ =>
      (List.range 7).map fun k =>
        (Spec.commentLineOkB Gen.dialects Gen.parserTable false μ 0 C16_descDoc k (lit "#n\n"),
         Spec.commentLineOk2B Gen.dialects Gen.parserTable false μ 0 C16_descDoc k (lit "#n\n"),
         Spec.commentLineOk2B Gen.dialects Gen.parserTable true μ 0 C16_descDoc k (lit "#n\n"))) =
    some [(true, true, true), (false, true, true), (true, true, true), (false, true, true), (true, true, true),
          (true, true, true), (true, true, true)] := by kdecide

/-- the conclusion there: the new comment at line 2 (resp. 4), the old one moved down, the
    descriptions unchanged -/
example : (MState.init Gen.dialects (lit "en")).map (fun μ =>
      [C16_commentsOf (parseWith Gen.dialects Gen.parserTable false μ 0 C16_descDoc).1,
       C16_commentsOf (parseWith Gen.dialects Gen.parserTable false μ 0
         (lit "Feature: f\n#n\n  free text\nScenario: s\n  # old\n  more\n  Given x\n")).1,
       C16_commentsOf (parseWith Gen.dialects Gen.parserTable false μ 0
         (lit "Feature: f\n  free text\nScenario: s\n#n\n  # old\n  more\n  Given x\n")).1]) =
    some [[(⟨4, some 1⟩, lit "  # old")],
          [(⟨2, some 1⟩, lit "#n"), (⟨5, some 1⟩, lit "  # old")],
          [(⟨4, some 1⟩, lit "#n"), (⟨5, some 1⟩, lit "  # old")]] := by kdecide

example : (MState.init Gen.dialects (lit "en")).map (fun μ =>
      [C16_scenarioDescr (parseWith Gen.dialects Gen.parserTable false μ 0 C16_descDoc).1,
       C16_scenarioDescr (parseWith Gen.dialects Gen.parserTable false μ 0
         (lit "Feature: f\n  free text\nScenario: s\n#n\n  # old\n  more\n  Given x\n")).1]) =
    some [[lit "  more"], [lit "  more"]] := by kdecide

/-- NOT COVERED / COUNTEREXAMPLE: directly after a keyword line the check answers `false` when a step
    follows (there the conclusion holds — `Props/C16Doc4.lean`, last examples — but is not proved),
    when a blank line follows (there it FAILS: the blank line becomes description text), and at the
    end of the text -/
example : (MState.init Gen.dialects (lit "en")).map (fun μ =>
      (Spec.commentLineOk2B Gen.dialects Gen.parserTable false μ 0 (lit "Feature: f\nScenario: s\nGiven x\n") 2 (lit "#n\n"),
       Spec.commentLineOk2B Gen.dialects Gen.parserTable false μ 0 (lit "Feature: f\nScenario: s\n\n d\nGiven x\n") 2 (lit "#n\n"),
       Spec.commentLineOk2B Gen.dialects Gen.parserTable false μ 0 (lit "Feature: f\n") 1 (lit "#n\n"))) =
    some (false, false, false) := by kdecide

/-- the table predicate: exactly the eight states directly after a keyword line -/
example : (Gen.parserTable.rows.filter fun r => Spec.commentOpensDescription Gen.parserTable r.id).map
      (fun r => (r.id, Spec.descTarget Gen.parserTable r.id)) =
    [(3, 4), (5, 6), (10, 11), (15, 16), (19, 20), (21, 22), (26, 27), (31, 32)] := by kdecide

end GV
