/-
  Props/C18Pure.lean — property C18, refinement part: the token queue is an implementation
  detail.  The parse with the look-ahead queue (`parseWith`, the model of parser.py) and the
  queue-free parse of Spec/PureParse.lean (the main loop takes the next line directly, a
  look-ahead only peeks at the unread lines) agree on everything an observer can see: outcome,
  tokens built (all fields), lines reported as unexpected, order of reading, error list, matcher
  state and id counter afterwards, number of matcher calls — for every source text, both error
  modes, accepted or rejected or aborted.  No component had to be weakened.
-/
import GherkinVerif.Lemmas.QueuePureLoop
import GherkinVerif.Props.C18Order
import GherkinVerif.KDecide
namespace GV

/-- every state of the regenerated table accepts comment lines and blank lines (by a `Comment` /
    `Empty` test or by `Other`), so such a line never reaches an error tail -/
theorem C18_fact_comment_blank : Spec.commentBlankTested Gen.parserTable = true := by kdecide

/-- The queue is an implementation detail, for any table and dialect table passing the checks. -/
theorem C18_queue_refines_peek_generic (D : List Dialect) (T : Table)
    (hD : Spec.queueDialectFacts D = true) (hT : Spec.queueFacts T = true)
    (hCB : Spec.commentBlankTested T = true)
    (stop : Bool) (μ : MState) (ids : Nat) (src : Str) (hμ : (μ.reset D).dialect ∈ D) :
    Spec.observe (parseWith D T stop μ ids src) = Spec.observe (Spec.parseWithPure D T stop μ ids src) :=
  Lemmas.queue_refines_peek D T hD hT hCB stop μ ids src hμ

/-- The generated parser with its token queue and the queue-free parse that only peeks at the
    unread lines are observably the same, for every source text and both error modes. -/
theorem C18_queue_refines_peek (stop : Bool) (μ : MState) (ids : Nat) (src : Str)
    (hμ : (μ.reset Gen.dialects).dialect ∈ Gen.dialects) :
    Spec.observe (parseWith Gen.dialects Gen.parserTable stop μ ids src) =
    Spec.observe (Spec.parseWithPure Gen.dialects Gen.parserTable stop μ ids src) :=
  Lemmas.queue_refines_peek _ _ C18_fact_keywords C18_fact_queue C18_fact_comment_blank stop μ ids src hμ

/-- the same, component by component -/
theorem C18_queue_refines_peek_fields (stop : Bool) (μ : MState) (ids : Nat) (src : Str)
    (hμ : (μ.reset Gen.dialects).dialect ∈ Gen.dialects) :
    let a := parseWith Gen.dialects Gen.parserTable stop μ ids src
    let b := Spec.parseWithPure Gen.dialects Gen.parserTable stop μ ids src
    a.1 = b.1 ∧ a.2.builds = b.2.builds ∧ a.2.unexpected = b.2.unexpected ∧ a.2.reads = b.2.reads ∧
    a.2.errors = b.2.errors ∧ a.2.μ = b.2.μ ∧ a.2.ids = b.2.ids ∧ a.2.calls = b.2.calls := by
  intro a b
  have h := C18_queue_refines_peek stop μ ids src hμ
  exact ⟨congrArg Spec.Observed.outcome h, congrArg Spec.Observed.builds h, congrArg Spec.Observed.unexpected h,
    congrArg Spec.Observed.reads h, congrArg Spec.Observed.errors h, congrArg Spec.Observed.μ h,
    congrArg Spec.Observed.ids h, congrArg Spec.Observed.calls h⟩

/-! corollaries for the queue-free parse, carried over from the queue version -/

/-- the queue-free parse reads lines 1, 2, 3, … (it has no other way; stated for completeness) and
    makes at most `workPerToken` matcher calls per line -/
theorem C18_pure_reads_and_calls (stop : Bool) (μ : MState) (ids : Nat) (src : Str)
    (hμ : (μ.reset Gen.dialects).dialect ∈ Gen.dialects) :
    let ctx := (Spec.parseWithPure Gen.dialects Gen.parserTable stop μ ids src).2
    ctx.reads = List.range' 1 ctx.reads.length ∧
    ctx.calls ≤ Spec.workPerToken Gen.parserTable * ((splitLines src).length + 1) := by
  intro ctx
  obtain ⟨-, -, -, hr, -, -, -, hc⟩ := C18_queue_refines_peek_fields stop μ ids src hμ
  refine ⟨?_, ?_⟩
  · show ctx.reads = _
    rw [← hr]
    exact C18_reads_in_order stop μ ids src hμ
  · show ctx.calls ≤ _
    rw [← hc]
    exact Lemmas.calls_linear _ _ C18_fact_keywords C18_fact_queue stop μ ids src hμ

/-- a document is accepted by the queue-free parse exactly when the parser accepts it, with the
    same document; the builder then saw each physical line once, in order, then one end of file -/
theorem C18_pure_accepted_sequence (stop : Bool) (μ : MState) (ids : Nat) (src : Str)
    (hμ : (μ.reset Gen.dialects).dialect ∈ Gen.dialects) (d : Doc)
    (h : (Spec.parseWithPure Gen.dialects Gen.parserTable stop μ ids src).1 = .ok d) :
    (parseWith Gen.dialects Gen.parserTable stop μ ids src).1 = .ok d ∧
    (Spec.parseWithPure Gen.dialects Gen.parserTable stop μ ids src).2.builds.map (·.lineNo) =
      List.range' 1 ((splitLines src).length + 1) ∧
    (Spec.parseWithPure Gen.dialects Gen.parserTable stop μ ids src).2.builds.map (·.line) =
      (splitLines src).map some ++ [none] := by
  obtain ⟨ho, hb, -⟩ := C18_queue_refines_peek_fields stop μ ids src hμ
  have h' : (parseWith Gen.dialects Gen.parserTable stop μ ids src).1 = .ok d := ho.trans h
  obtain ⟨h1, h2⟩ := C18_accepted_sequence stop μ ids src hμ d h'
  exact ⟨h', by rw [← hb]; exact h1, by rw [← hb]; exact h2⟩

/-! non-vacuity: the two parses are different programs — the queue-free one never queues — yet
    agree; checked by the kernel on the demo document of C18Order (both look-aheads fire, the second
    on the queue the first one left) and on a rejected document with an indented comment in a tag
    run and a tag with whitespace -/

example : (MState.init Gen.dialects (lit "en")).map
      (fun μ => ((Spec.parseWithPure Gen.dialects Gen.parserTable false μ 0 C18_demoSrc).2.reads,
                 (Spec.parseWithPure Gen.dialects Gen.parserTable false μ 0 C18_demoSrc).2.calls,
                 (Spec.parseWithPure Gen.dialects Gen.parserTable false μ 0 C18_demoSrc).2.lineNo)) =
    some ([1, 2, 3, 4, 5, 6, 7, 8, 9, 10, 11, 12, 13, 14, 15, 16, 17], 99, 17) := by kdecide

example : (MState.init Gen.dialects (lit "en")).map
      (fun μ =>
        let src := lit "Feature: f\nScenario: s\nGiven x\n@a\n   #c\n@b c\n  Examples:\nfoo\n"
        let a := parseWith Gen.dialects Gen.parserTable false μ 0 src
        let b := Spec.parseWithPure Gen.dialects Gen.parserTable false μ 0 src
        (a.2.errors.map (·.loc), b.2.errors.map (·.loc), a.2.calls, b.2.calls)) =
    some ([⟨6, some 1⟩, ⟨6, some 1⟩, ⟨7, some 3⟩, ⟨8, some 1⟩, ⟨9, none⟩],
          [⟨6, some 1⟩, ⟨6, some 1⟩, ⟨7, some 3⟩, ⟨8, some 1⟩, ⟨9, none⟩], 51, 51) := by
  kdecide

end GV
