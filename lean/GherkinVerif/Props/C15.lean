/-
  Props/C15.lean — property C15: no hidden state — results are independent of earlier and
  concurrent parses.  Property theorems only; definitions (`Consistent`, `runPM`, `iter`,
  `runSchedule`, `Inst`, `parseStep`) and helper lemmas live in Lemmas/History.lean, the id
  offset in Lemmas/IdOffset.lean.

  In the model the matcher's fields are the explicit `MState` that `parseWith` receives and
  returns inside the final context; the builder's fields and the token queue / error list are
  created inside `parseWith` (`BState.reset`, `[]`, `[]`), so the only thing a parse can inherit
  from history is the incoming `MState` and the id counter.
-/
import GherkinVerif.Lemmas.History
import GherkinVerif.Lemmas.IdOffset
import GherkinVerif.Lemmas.Compile
namespace GV

/-- A matcher made by the constructor is consistent with the dialect table, carries the name
    it was made with and no doc-string state. -/
theorem C15_init_consistent (D : List Dialect) (name : Str) (μ : MState)
    (h : MState.init D name = some μ) :
    Consistent D μ ∧ μ.defaultName = name ∧ μ.name = name ∧ μ.indentToRemove = 0 ∧ μ.activeSep = none :=
  Lemmas.init_consistent D name μ h

/-- Consistency is an invariant of parsing: whatever the document does (switch dialect, name an
    unknown language, end inside a doc string, be rejected, hit the error cap, crash), the matcher
    state left behind is consistent and has the same default name.  Every reachable matcher
    state is therefore consistent. -/
theorem C15_consistent_invariant (D : List Dialect) (T : Table) (stop : Bool) (μ : MState) (ids : Nat)
    (src : Str) (h : Consistent D μ) :
    Consistent D (parseWith D T stop μ ids src).2.μ ∧
      (parseWith D T stop μ ids src).2.μ.defaultName = μ.defaultName :=
  Lemmas.parseWith_consistent D T stop μ ids src h

/-- `reset` of a consistent state is a function of the default name alone: current dialect,
    indentation to remove and active doc-string separator are all forgotten. -/
theorem C15_reset (D : List Dialect) (μ₁ μ₂ : MState) (h₁ : Consistent D μ₁) (h₂ : Consistent D μ₂)
    (hd : μ₁.defaultName = μ₂.defaultName) : μ₁.reset D = μ₂.reset D :=
  Lemmas.reset_eq_of_consistent D μ₁ μ₂ h₁ h₂ hd

/-- The result of a parse — outcome and whole final context — does not depend on what the
    matcher was used for before, only on its default dialect name. -/
theorem C15_history_independent (D : List Dialect) (T : Table) (stop : Bool) (μ₁ μ₂ : MState)
    (ids : Nat) (src : Str) (h₁ : Consistent D μ₁) (h₂ : Consistent D μ₂)
    (hd : μ₁.defaultName = μ₂.defaultName) :
    parseWith D T stop μ₁ ids src = parseWith D T stop μ₂ ids src :=
  Lemmas.parseWith_history_independent D T stop μ₁ μ₂ ids src h₁ h₂ hd

/-- Used instances equal fresh ones: after any finite history of parses (each in either error
    mode, with any counter and any text — accepted, rejected, dialect-switching, ending inside a
    doc string) through one matcher, the next parse equals the parse with a new matcher. -/
theorem C15_used_equals_fresh (D : List Dialect) (T : Table) (name : Str) (μ₀ : MState)
    (h₀ : MState.init D name = some μ₀) (hist : List (Bool × Nat × Str)) (stop : Bool) (ids : Nat)
    (src : Str) :
    parseWith D T stop (Lemmas.afterHistory D T μ₀ hist) ids src = parseWith D T stop μ₀ ids src :=
  Lemmas.parseWith_after_history D T name μ₀ h₀ hist stop ids src

/-- The builder, queue and error list never carry over: a parse is the run of `parseBody` from
    the context made of the text's lines, the reset matcher, the reset builder, the given
    counter and nothing else. -/
theorem C15_fresh_context (D : List Dialect) (T : Table) (stop : Bool) (μ : MState) (ids : Nat) (src : Str) :
    parseWith D T stop μ ids src =
      (match runPM (parseBody D T stop (splitLines src).length)
          { lines := splitLines src, lineNo := 0, queue := [], errors := [], μ := μ.reset D,
            β := BState.reset, ids := ids, calls := 0, builds := [], reads := [], unexpected := [] } with
       | (.ok d, ctx) => (.ok d, ctx)
       | (.error (.single e), ctx) => (.rejected [e] false, ctx)
       | (.error (.composite es), ctx) => (.rejected es true, ctx)
       | (.error (.crash w), ctx) => (.crash w, ctx)
       | (.error .fuel, ctx) => (.fuel, ctx)) :=
  Lemmas.parseWith_eq_run D T stop μ ids src

/-- Id offset: parsing with the shared counter at `k + n` gives the outcome of parsing with the
    counter at `k` with every id of the document `n` higher (`shiftDoc`); errors carry no ids and
    are identical.  The final context is the same with the builder's stored ids and the counter
    `n` higher — the matcher state, queue, errors and ghost data are equal. -/
theorem C15_id_offset (D : List Dialect) (T : Table) (stop : Bool) (μ : MState) (k n : Nat) (src : Str) :
    parseWith D T stop μ (k + n) src =
      (shiftOutcome n (parseWith D T stop μ k src).1, shiftCtx n (parseWith D T stop μ k src).2) :=
  Lemmas.parseWith_shift D T stop μ k n src

/-- … in particular relative to a counter that starts at 0. -/
theorem C15_id_offset_zero (D : List Dialect) (T : Table) (stop : Bool) (μ : MState) (n : Nat) (src : Str) :
    (parseWith D T stop μ n src).1 = shiftOutcome n (parseWith D T stop μ 0 src).1 ∧
    (parseWith D T stop μ n src).2.ids = (parseWith D T stop μ 0 src).2.ids + n := by
  have h := Lemmas.parseWith_shift D T stop μ 0 n src
  rw [Nat.zero_add] at h
  rw [h]
  exact ⟨rfl, rfl⟩

/-- The property's first sentence in one statement: a parse through a used matcher with the
    shared counter at `n` equals the parse through a fresh matcher with a fresh counter, up to
    the offset `n` of the ids. -/
theorem C15_history_up_to_offset (D : List Dialect) (T : Table) (name : Str) (μ₀ : MState)
    (h₀ : MState.init D name = some μ₀) (hist : List (Bool × Nat × Str)) (stop : Bool) (n : Nat)
    (src : Str) :
    (parseWith D T stop (Lemmas.afterHistory D T μ₀ hist) n src).1 =
      shiftOutcome n (parseWith D T stop μ₀ 0 src).1 := by
  rw [Lemmas.parseWith_after_history D T name μ₀ h₀ hist stop n src]
  exact (C15_id_offset_zero D T stop μ₀ n src).1

/-- The compiler likewise: on the shifted document from a counter `n` higher it returns the same
    pickles with every id and AST reference `n` higher, and a counter `n` higher. -/
theorem C15_compile_id_offset (uri : Str) (doc : Doc) (k n : Nat) :
    compile uri (shiftDoc n doc) (k + n) =
      (compile uri doc k).map fun r => (r.1.map (shiftPickle n), r.2 + n) :=
  Lemmas.compile_shift n uri doc k

/-- … and the whole stream: the envelopes of a source with the shared counter at `k + n` are
    those with the counter at `k`, ids shifted by `n`. -/
theorem C15_stream_id_offset (D : List Dialect) (T : Table) (opts : Opts) (k n : Nat) (uri data : Str) :
    streamEnum D T opts (k + n) uri data =
      ((streamEnum D T opts k uri data).1.map (shiftEnvelope n), (streamEnum D T opts k uri data).2 + n) :=
  Lemmas.streamEnum_shift D T opts k n uri data

/-- Frame lemma for interleavings: in a system of components stepped by an arbitrary schedule,
    component `i` ends in its initial state stepped as often as `i` occurs in the schedule —
    the other components and the order of the schedule have no influence. -/
theorem C15_interleave {σ} (f : σ → σ) (sched : List Nat) (sys : List σ) (i : Nat) :
    (runSchedule f sched sys)[i]? = sys[i]?.map (iter f (sched.count i)) :=
  Lemmas.runSchedule_frame f sched sys i

/-- One scheduler step of a parser instance is one iteration of the loop of `parse`: the loop
    run alone is the step function iterated. -/
theorem C15_loop_is_iterated_step (D : List Dialect) (T : Table) (stop : Bool) (fuel state : Nat) (c : Ctx) :
    runPM (parseLoop D T stop fuel state) c =
      (iter (parseStep D T stop) fuel ⟨.running state, c⟩).result :=
  Lemmas.parseLoop_eq_iter D T stop fuel state c

/-- Parsers working on different documents at the same time, interleaved at any token read:
    in any schedule that gives instance `i` at least the steps it needs, instance `i` ends with
    exactly the loop result and context it has when run alone.  (An instance is a status plus
    its own context; the dialect table and parser table are read-only parameters.) -/
theorem C15_interleave_parse (D : List Dialect) (T : Table) (stop : Bool) (sys : List Inst)
    (sched : List Nat) (i state : Nat) (c : Ctx) (hx : sys[i]? = some ⟨.running state, c⟩) (fuel : Nat)
    (hfuel : (runPM (parseLoop D T stop fuel state) c).1 ≠ .error .fuel) (hn : fuel ≤ sched.count i) :
    ((runSchedule (parseStep D T stop) sched sys)[i]?).map Inst.result =
      some (runPM (parseLoop D T stop fuel state) c) :=
  Lemmas.interleave_parseLoop D T stop sys sched i state c hx fuel hfuel hn

/-- Parsing is deterministic: a function of the tables, the error mode, the matcher state, the
    counter and the text. -/
theorem C15_deterministic (D : List Dialect) (T : Table) (stop : Bool) (μ₁ μ₂ : MState)
    (ids₁ ids₂ : Nat) (src₁ src₂ : Str) (hμ : μ₁ = μ₂) (hi : ids₁ = ids₂) (hs : src₁ = src₂) :
    parseWith D T stop μ₁ ids₁ src₁ = parseWith D T stop μ₂ ids₂ src₂ := by
  subst hμ hi hs
  rfl

/-- Compiling is deterministic and returns a new value; in a functional model the document
    argument cannot be modified (mutation of the Python heap is outside such a model and is
    covered by the harness, which compares a deep copy of the AST taken before `compile`). -/
theorem C15_compile_pure (uri₁ uri₂ : Str) (d₁ d₂ : Doc) (n₁ n₂ : Nat)
    (hu : uri₁ = uri₂) (hd : d₁ = d₂) (hn : n₁ = n₂) : compile uri₁ d₁ n₁ = compile uri₂ d₂ n₂ := by
  subst hu hd hn
  rfl

/-- Compiling the same document again, with whatever counter, gives the same pickles up to the
    ids drawn: the first compilation left nothing behind. -/
theorem C15_compile_repeatable (uri : Str) (d : Doc) (n m : Nat) (ps qs : List Pickle) (n' m' : Nat)
    (h₁ : compile uri d n = some (ps, n')) (h₂ : compile uri d m = some (qs, m')) :
    ps.map Spec.eraseIds = qs.map Spec.eraseIds := by
  have a := Lemmas.compile_eq_spec uri d n ps n' h₁
  have b := Lemmas.compile_eq_spec uri d m qs m' h₂
  rw [a] at b
  exact Option.some.inj b

/-! ### Non-vacuity -/

section
private def dA : Dialect := { (default : Dialect) with name := lit "en", feature := [lit "Feature"] }
private def dB : Dialect := { (default : Dialect) with name := lit "fr", feature := [lit "Fonctionnalité"] }

/-- a consistent state that is far from fresh: switched to "fr", inside a doc string -/
example : Consistent [dA, dB]
    { defaultName := lit "en", name := lit "fr", dialect := dB, indentToRemove := 4, activeSep := some dq3 } :=
  ⟨rfl, rfl⟩

/-- its reset is the fresh "en" state -/
example : (MState.reset [dA, dB]
      { defaultName := lit "en", name := lit "fr", dialect := dB, indentToRemove := 4, activeSep := some dq3 }).name
    = lit "en" := by decide

/-- an inconsistent state (name says "fr", dialect is the English one) shows the hypothesis of
    `C15_reset` is needed: `reset` keeps the wrong dialect because the names agree. -/
example : (MState.reset [dA, dB]
      { defaultName := lit "fr", name := lit "fr", dialect := dA }).dialect.feature = [lit "Feature"] := by
  decide
end

/-- `shiftDoc` moves every id (tag, scenario, step, examples row) and nothing else -/
example : shiftDoc 10
    { comments := [],
      feature := some
        { tags := [⟨0, ⟨1, some 1⟩, lit "@t"⟩], loc := ⟨2, some 1⟩, language := lit "en",
          keyword := lit "Feature", name := [], description := [],
          children := [.scenario
            { id := 3, tags := [], loc := ⟨3, some 3⟩, keyword := lit "Scenario", name := [], description := [],
              steps := [⟨1, ⟨4, some 5⟩, lit "Given ", .Context, lit "a", .none⟩],
              examples := [
                { id := 2, tags := [], loc := ⟨5, some 5⟩, keyword := lit "Examples", name := [],
                  description := [], header := none, body := [] }] }] } } =
    { comments := [],
      feature := some
        { tags := [⟨10, ⟨1, some 1⟩, lit "@t"⟩], loc := ⟨2, some 1⟩, language := lit "en",
          keyword := lit "Feature", name := [], description := [],
          children := [.scenario
            { id := 13, tags := [], loc := ⟨3, some 3⟩, keyword := lit "Scenario", name := [], description := [],
              steps := [⟨11, ⟨4, some 5⟩, lit "Given ", .Context, lit "a", .none⟩],
              examples := [
                { id := 12, tags := [], loc := ⟨5, some 5⟩, keyword := lit "Examples", name := [],
                  description := [], header := none, body := [] }] }] } } := by decide

/-- three counters stepped by the schedule 0,2,0,7,1,0: component 0 is stepped three times,
    1 and 2 once, the out-of-range entry is ignored -/
example : runSchedule (· + 1) [0, 2, 0, 7, 1, 0] [10, 20, 30] = [13, 21, 31] := by decide

end GV
