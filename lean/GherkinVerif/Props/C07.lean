/-
  Props/C07.lean — property C07: pickle steps = in-scope background steps, then own steps.
  (The refinement `compile = Spec.pickles` is C06_pickles_eq_spec; these theorems unfold what the
  specification says about steps and scopes.)
-/
import GherkinVerif.Lemmas.Compile
namespace GV

/-- The steps of a pickle point back, in order, to the in-scope background steps followed by the
    scenario's own steps; a scenario without steps of its own gets none. -/
theorem C07_steps_sources (sc : Spec.Scope) (s : Scenario) (sub : Option (Nat × List Str × List Str))
    (st : List PickleStep) (h : Spec.steps sc s sub = some st) :
    st.map (fun p => p.astNodeIds.head?) =
      if s.steps = [] then [] else (sc.bg ++ s.steps).map (fun x => some x.id) :=
  Lemmas.spec_steps_sources sc s sub st h

/-- Own steps of an example-row pickle additionally point at the row; background steps never do. -/
theorem C07_steps_row (sc : Spec.Scope) (s : Scenario) (rowId : Nat) (hs vs : List Str)
    (st : List PickleStep) (hne : s.steps ≠ []) (h : Spec.steps sc s (some (rowId, hs, vs)) = some st) :
    (st.take sc.bg.length).map (·.astNodeIds) = sc.bg.map (fun x => [x.id]) ∧
    (st.drop sc.bg.length).map (·.astNodeIds) = s.steps.map (fun x => [x.id, rowId]) :=
  Lemmas.spec_steps_row sc s rowId hs vs st hne h

/-- A rule's background never contributes outside that rule: the background steps in scope of a
    scenario are those of the feature-level backgrounds before it (before its rule) and, inside
    a rule, of that rule's backgrounds before it — nothing else. -/
theorem C07_scopes (f : Feature) (x : Spec.Scope × Scenario) (h : x ∈ Spec.featureScenarios f) :
    (∃ i, f.children[i]? = some (.scenario x.2) ∧ x.1.bg = Spec.featureBgBefore f.children i) ∨
    (∃ i r j, f.children[i]? = some (.rule r) ∧ r.children[j]? = some (.scenario x.2) ∧
      x.1.bg = Spec.featureBgBefore f.children i ++ Spec.ruleBgBefore r.children j) :=
  Lemmas.spec_scopes f x h

/-- Model level: the feature-level accumulator after a rule equals the one before it (the rule
    works on a copy).  Compiling `rule :: rest` = compiling the rule, then `rest` with the same
    background steps. -/
theorem C07_rule_copy (uri language : Str) (ftags : List Tag) (r : Rule) (rest : List FeatureChild)
    (bg : List Step) (n : Nat) :
    compileFeatureChildren uri language ftags (.rule r :: rest) bg n =
      (match compileRuleChildren uri language (ftags ++ r.tags) r.children bg n with
       | none => none
       | some (ps, n1) =>
         match compileFeatureChildren uri language ftags rest bg n1 with
         | none => none
         | some (qs, n2) => some (ps ++ qs, n2)) := by
  simp only [compileFeatureChildren]
  rfl

/-- Arguments are carried over cell by cell / line by line (plain steps: verbatim). -/
theorem C07_arguments_plain (arg : StepArg) :
    pickleArg arg [] [] = some (match arg with
      | .none => .none
      | .table t => .table (t.rows.map fun r => r.cells.map (·.value))
      | .doc d => .doc d.content d.mediaType) :=
  Lemmas.pickleArg_plain arg

end GV
