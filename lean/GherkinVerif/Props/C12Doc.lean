/-
  Props/C12Doc.lean — properties C12 (last sentence) and C14 (ragged-table clause) at DOCUMENT
  level: "A data table or examples table whose rows differ in cell count is rejected with an error
  at the first deviating row."

  Vocabulary (Lemmas/RaggedDocBase.lean).  `ctx.builds` is the ghost list of the tokens the run
  handed to `build`, in order.  `Spec.tableRuns builds` are the TABLES of that list: the maximal
  groups of tokens built as `TableRow`, where tokens built as `Comment` / `Empty` do not interrupt
  a group and any other built token ends it.  `Spec.closedRuns builds` are the groups that have
  been ended by such a later built token; `tableRuns = closedRuns ++ [the group still open at the
  end, if non-empty]`.  `Spec.firstDeviating run` is the first token of a group whose number of
  cells (`t.items.length`, = `(Spec.cells line).length`) differs from the first token's
  (`C12D_first_deviating_spec`).  `Spec.raggedErrAt t` is the error
  ⟨raggedTable, (t.lineNo, t.col), "inconsistent cell count within the table"⟩.

  That the builder's `DataTable` / `ExamplesTable` NODE holds exactly such a group is an invariant
  of the run (Lemmas/RaggedDocInv.lean: the `TableRow` tokens of a table node on top of the stack
  are `Spec.openRun builds`), proved for every transition table passing the Boolean check
  `Spec.raggedCheck` (an abstract interpretation of the builder stack by rule types, Lemmas/
  RaggedDocLoop.lean), which the kernel evaluates on the regenerated table (`C12D_fact_tables`).
  Since an unexpected line is not built and leaves the state alone, the rows before and after an
  unexpected line (collecting mode) belong to the SAME table: see the example below.

  Theorems — every source text, both error modes, any incoming matcher state and id counter:
    * `C12_ragged_error_sound`: every error of the outcome with the ragged-table message body is
      `raggedErrAt t` for the first deviating token `t` of a table of `builds`; `t` was built as a
      `TableRow`, carries the cells of its own line `l` (`t.items = Spec.cells l`) and the error is
      at (t.lineNo, indent l + 1).
    * `C12_ragged_error_complete` (collecting mode): every CLOSED table of `builds` with a first
      deviating token `t` has `raggedErrAt t` in the error list; if the error cap did not end the
      run (`es.length ≤ cap`) this holds for every table of `builds`.  `C12_ragged_stop_first`
      (stop mode): every closed table is rectangular — with soundness: the single ragged-table
      error is at the first deviating row of the first ragged table, the last group of `builds`.
    * `C12_accepted_tables_rectangular_in_source`: for an accepted document every table of `builds`
      is rectangular, and (with `C18_accepted_sequence`) in terms of the SOURCE LINES: each row
      token `t` has `t.items = Spec.cells l` for the physical line `l = lines[t.lineNo - 1]`.

  Corner cases: a row `|` has zero cells and deviates from `| a |` (example); a table of `|` rows
  only is rectangular.  "Unless the cap ended the run": stated as `closedRuns` (the table's
  `end_rule` precedes, in the same `match_token`, the build of the token that closes the group).
  NOT proved here: for REJECTED documents, that `t.line` is the physical line numbered `t.lineNo`
  of the source (`t.line = (splitLines src)[t.lineNo - 1]`; only the accepted case is linked to the
  source list, through C18); the theorems speak of the token's own `line` field.
-/
import GherkinVerif.Lemmas.RaggedDocOut
import GherkinVerif.Props.C18Order
import GherkinVerif.Gen.ParserTable
import GherkinVerif.Gen.Dialects
import GherkinVerif.KDecide
namespace GV

/-- the table fact: rule-type stacks can be assigned to the states of the regenerated table such
    that no production sequence starts a node on a table node, builds anything but rows, comments
    and blank lines into a table node, builds a row elsewhere, or opens a table / builds a row
    between the `end_rule` of a table and the next built token -/
theorem C12D_fact_tables : Spec.raggedCheck Gen.parserTable 600 = true := by kdecide

/-- meaning of `Spec.firstDeviating`: the group is `pre ++ t :: post`, all of `pre` have the cell
    count of the group's first token, `t` has not -/
theorem C12D_first_deviating_spec (run : List Token) (t : Token) (h : Spec.firstDeviating run = some t) :
    ∃ pre post t0, run = pre ++ t :: post ∧ run.head? = some t0 ∧ Spec.cellCount t ≠ Spec.cellCount t0 ∧
      ∀ x ∈ pre, Spec.cellCount x = Spec.cellCount t0 :=
  Lemmas.firstDeviating_spec h

/-- … and `none` means all tokens of the group have the first one's cell count -/
theorem C12D_first_deviating_none (run : List Token) (h : Spec.firstDeviating run = none) :
    ∀ t ∈ run, ∀ t0, run.head? = some t0 → Spec.cellCount t = Spec.cellCount t0 :=
  Lemmas.firstDeviating_none h

/-- every token of a table of `builds` was handed to the builder as a `TableRow` -/
theorem C12D_table_tokens (bs : List Token) (run : List Token) (h : run ∈ Spec.tableRuns bs) (t : Token) (ht : t ∈ run) :
    t ∈ bs ∧ t.mtype = some .TableRow :=
  Lemmas.mem_tableRuns_tok h ht

/-- **Soundness.**  Every error of the outcome (the single error in stop mode, any error of the
    list in collecting mode) whose message body is the ragged-table text is located at the first
    deviating row of a table of `builds`: at that row's line number and column (indent + 1), and
    the row token carries the cells of its line. -/
theorem C12_ragged_error_sound (stop : Bool) (μ : MState) (ids : Nat) (src : Str) (es : List PErr) (comp : Bool)
    (h : (parseWith Gen.dialects Gen.parserTable stop μ ids src).1 = .rejected es comp) (e : PErr) (he : e ∈ es)
    (hb : e.body = lit "inconsistent cell count within the table") :
    ∃ run t l, run ∈ Spec.tableRuns (parseWith Gen.dialects Gen.parserTable stop μ ids src).2.builds ∧
      Spec.firstDeviating run = some t ∧ e = Spec.raggedErrAt t ∧
      t ∈ (parseWith Gen.dialects Gen.parserTable stop μ ids src).2.builds ∧ t.mtype = some .TableRow ∧
      t.line = some l ∧ t.items = Spec.cells l ∧ e.loc = ⟨t.lineNo, some (lineIndent l + 1)⟩ :=
  Lemmas.ragged_sound _ _ _ C12D_fact_tables stop μ ids src es comp h e he hb

/-- **Completeness, collecting mode.**  Every table of `builds` that a later built token has
    closed and whose rows differ in cell count has its error — at the first deviating row — in the
    error list; if the run was not cut short by the error cap, so has every table of `builds`. -/
theorem C12_ragged_error_complete (μ : MState) (ids : Nat) (src : Str) (es : List PErr)
    (h : (parseWith Gen.dialects Gen.parserTable false μ ids src).1 = .rejected es true) :
    (∀ run ∈ Spec.closedRuns (parseWith Gen.dialects Gen.parserTable false μ ids src).2.builds, ∀ t,
      Spec.firstDeviating run = some t → Spec.raggedErrAt t ∈ es) ∧
    (es.length ≤ Gen.parserTable.errorCap →
      ∀ run ∈ Spec.tableRuns (parseWith Gen.dialects Gen.parserTable false μ ids src).2.builds, ∀ t,
        Spec.firstDeviating run = some t → Spec.raggedErrAt t ∈ es) :=
  Lemmas.ragged_complete _ _ _ C12D_fact_tables μ ids src es h

/-- **Stop mode: the first ragged table.**  Whether the document is accepted (`d = some _`) or
    rejected with the single error `e` (`d = none`), every closed table of `builds` is
    rectangular; by `C12_ragged_error_sound` a ragged-table error is therefore at the first
    deviating row of the last, still open group: the first ragged table of the document. -/
theorem C12_ragged_stop_first (μ : MState) (ids : Nat) (src : Str) (d : Option Doc) (e : PErr)
    (h : (parseWith Gen.dialects Gen.parserTable true μ ids src).1 =
      (match d with | some d => .ok d | none => .rejected [e] false)) :
    ∀ run ∈ Spec.closedRuns (parseWith Gen.dialects Gen.parserTable true μ ids src).2.builds,
      Spec.firstDeviating run = none :=
  Lemmas.ragged_stop _ _ _ C12D_fact_tables μ ids src d e h

theorem C12D_line_of_sequence {bs : List Token} {L : List Str}
    (h1 : bs.map (·.lineNo) = List.range' 1 (L.length + 1))
    (h2 : bs.map (·.line) = L.map some ++ [none]) {t : Token} (ht : t ∈ bs) {l : Str} (hl : t.line = some l) :
    L[t.lineNo - 1]? = some l := by
  obtain ⟨i, hi⟩ := List.getElem?_of_mem ht
  have e1 := congrArg (·[i]?) h1
  have e2 := congrArg (·[i]?) h2
  simp only [List.getElem?_map, hi, Option.map_some, hl] at e1 e2
  have hlt : i < L.length + 1 := by
    have := (List.getElem?_eq_some_iff.1 hi).1
    have hlen := congrArg List.length h1
    simp at hlen
    omega
  rw [List.getElem?_range' hlt] at e1
  simp only [Option.some.injEq] at e1
  have : t.lineNo - 1 = i := by omega
  rw [this]
  by_cases hi2 : i < L.length
  · rw [List.getElem?_append_left (by simpa using hi2)] at e2
    simp only [List.getElem?_map] at e2
    cases hx : L[i]? with
    | none => rw [hx] at e2; cases e2
    | some x => rw [hx] at e2; simp at e2; rw [e2]
  · have : i = L.length := by omega
    subst this
    simp at e2

/-- **No accepted document contains a ragged table in its text.**  For an accepted document every
    table of `builds` (the row tokens of one `DataTable` / `ExamplesTable`) is rectangular; every
    row token of it is the `TableRow` reading of the physical line `l` with its number
    (`(splitLines src)[t.lineNo - 1] = l`, `t.items = Spec.cells l`); hence all rows of the table
    have, in the source text, as many cells as its first row. -/
theorem C12_accepted_tables_rectangular_in_source (stop : Bool) (μ : MState) (ids : Nat) (src : Str)
    (hμ : (μ.reset Gen.dialects).dialect ∈ Gen.dialects) (d : Doc)
    (h : (parseWith Gen.dialects Gen.parserTable stop μ ids src).1 = .ok d) :
    ∀ run ∈ Spec.tableRuns (parseWith Gen.dialects Gen.parserTable stop μ ids src).2.builds,
      Spec.firstDeviating run = none ∧
      (∀ t ∈ run, t.mtype = some .TableRow ∧ ∃ l, (splitLines src)[t.lineNo - 1]? = some l ∧ t.line = some l ∧
        t.items = Spec.cells l ∧ t.col = some (lineIndent l + 1)) ∧
      (∀ t ∈ run, ∀ t0, run.head? = some t0 → ∀ l l0, (splitLines src)[t.lineNo - 1]? = some l →
        (splitLines src)[t0.lineNo - 1]? = some l0 → (Spec.cells l).length = (Spec.cells l0).length) := by
  intro run hrun
  obtain ⟨h1, h2⟩ := Lemmas.ragged_accepted _ _ _ C12D_fact_tables stop μ ids src d h run hrun
  obtain ⟨s1, s2⟩ := C18_accepted_sequence stop μ ids src hμ d h
  have hrows : ∀ t ∈ run, t.mtype = some .TableRow ∧ ∃ l, (splitLines src)[t.lineNo - 1]? = some l ∧ t.line = some l ∧
      t.items = Spec.cells l ∧ t.col = some (lineIndent l + 1) := by
    intro t ht
    obtain ⟨hm, hty, l, hl, hi, hc⟩ := h2 t ht
    exact ⟨hty, l, C12D_line_of_sequence s1 s2 hm hl, hl, hi, hc⟩
  refine ⟨h1, hrows, fun t ht t0 ht0 l l0 hl hl0 => ?_⟩
  have ht0m : t0 ∈ run := by
    cases run with
    | nil => cases ht
    | cons a r => simp only [List.head?_cons, Option.some.injEq] at ht0; subst ht0; exact List.mem_cons_self
  obtain ⟨-, l', hl', -, hi, -⟩ := hrows t ht
  obtain ⟨-, l0', hl0', -, hi0, -⟩ := hrows t0 ht0m
  rw [hl] at hl'; rw [hl0] at hl0'
  cases hl'; cases hl0'
  have := Lemmas.firstDeviating_none h1 t ht t0 ht0
  simp only [Spec.cellCount, hi, hi0] at this
  exact this

/-! ### non-vacuity (kernel evaluation of the model on the regenerated tables) -/

/-- outcome summary as lists of numbers: `[code, number of closed tables]` (code 0 accepted /
    1 single error / 2 error list), then `[line, column, 1 if ragged-table error else 0]` for each
    error, then `[]`, then for each table of `builds` the list `lineNo₁, cells₁, lineNo₂, cells₂, …` -/
def C12D_show (stop : Bool) (src : String) : Option (List (List Nat)) :=
  (MState.init Gen.dialects (lit "en")).map fun μ =>
    let r := parseWith Gen.dialects Gen.parserTable stop μ 0 (lit src)
    let errs (es : List PErr) : List (List Nat) :=
      es.map fun (e : PErr) => [e.loc.line, e.loc.col.getD 0, if e.kind = ErrKind.raggedTable then 1 else 0]
    let runs : List (List Nat) :=
      (Spec.tableRuns r.2.builds).map fun run => run.flatMap fun t => [t.lineNo, Spec.cellCount t]
    let nc := (Spec.closedRuns r.2.builds).length
    match r.1 with
    | .ok _ => [[0, nc]] ++ [[]] ++ runs
    | .rejected es c => [[if c then 2 else 1, nc]] ++ errs es ++ [[]] ++ runs
    | _ => [[9, nc]]

/-- a ragged data table: the error is at line 5 (the first row that deviates from `| a | b |`),
    column 3 (indent 2 + 1), in collecting mode … -/
example : C12D_show false "Feature: f\nScenario: s\nGiven x\n  | a | b |\n  | c |\n  | d | e | f |\n" =
    some [[2, 1], [5, 3, 1], [], [4, 2, 5, 1, 6, 3]] := by kdecide

/-- … and in stop mode (the group is still open when the run stops) -/
example : C12D_show true "Feature: f\nScenario: s\nGiven x\n  | a | b |\n  | c |\n  | d | e | f |\n" =
    some [[1, 0], [5, 3, 1], [], [4, 2, 5, 1, 6, 3]] := by kdecide

/-- a ragged examples table whose rows are separated by a blank line and a comment -/
example : C12D_show false "Feature: f\nScenario Outline: s\nGiven <a>\nExamples:\n| a |\n\n# c\n | 1 | 2 |\n" =
    some [[2, 1], [8, 2, 1], [], [5, 1, 8, 2]] := by kdecide

/-- two ragged tables (a data table and an examples table): two errors -/
example : C12D_show false "Feature: f\nScenario Outline: s\nGiven x\n| a |\n| b | c |\nExamples:\n| a |\n | 1 | 2 |\n" =
    some [[2, 2], [5, 1, 1], [8, 2, 1], [], [4, 1, 5, 2], [7, 1, 8, 2]] := by kdecide

/-- stop mode with two ragged tables: the error of the first one only -/
example : C12D_show true "Feature: f\nScenario: s\nGiven x\n| a |\n| b | c |\nGiven y\n| a |\n| b | c |\n" =
    some [[1, 0], [5, 1, 1], [], [4, 1, 5, 2]] := by kdecide

/-- an accepted document with two rectangular tables -/
example : C12D_show false "Feature: f\nScenario Outline: s\nGiven x\n| a |\n| b |\nExamples:\n| a | b |\n | 1 | 2 |\n" =
    some [[0, 2], [], [4, 1, 5, 1], [7, 2, 8, 2]] := by kdecide

/-- collecting mode: an unexpected line inside a table does not split it — rows 4 and 6 are one
    table, the ragged-table error is at line 6 (after the error for line 5) -/
example : C12D_show false "Feature: f\nScenario: s\nGiven x\n| a |\nfoo bar\n| b | c |\n" =
    some [[2, 1], [5, 1, 0], [6, 1, 1], [], [4, 1, 6, 2]] := by kdecide

/-- a row `|` has zero cells: it deviates from `| a |` … -/
example : C12D_show false "Feature: f\nScenario: s\nGiven x\n| a |\n|\n" =
    some [[2, 1], [5, 1, 1], [], [4, 1, 5, 0]] := by kdecide

/-- … and a table of such rows only is rectangular -/
example : C12D_show false "Feature: f\nScenario: s\nGiven x\n|\n|\n" =
    some [[0, 1], [], [4, 0, 5, 0]] := by kdecide

end GV
