/-
  Props/C03Parse.lean — property C03, the LINK between the parser run and the tree-level theorems:
  for every accepted document the AST the parser returns IS the structural fold `Spec.astOf` of a
  token tree that (a) has exactly the tokens handed to the builder as its leaves, in order, (b)
  projects to the derivation tree of gherkin.berp that the kind-level run on the document's
  intrinsic line kinds builds, (c) has well-matched leaves and opened doc strings — so the
  hypotheses of `C03_ast_of_tree`, `C03_leaves_once_accepted`, `C11_accepted_ast`,
  `C01_astOf_no_crash_accepted`, `C01_builder_no_crash_accepted` are met by every accepted run.
  Statements and one-line references only; proofs are in Lemmas/ParseTree.lean (token trees from
  call sequences), Lemmas/ParseClean.lean (an accepted queue-free run, line by line, with the
  builder's calls) and Lemmas/ParseLink.lean (assembly; transfer to the parser with its queue by
  `queue_refines_peek`, property C18).

  Vocabulary (all existing): `Spec.TTree`, `Spec.leaves`, `TTree.kinds`, `Spec.ValidTree`,
  `Spec.WellMatched`, `Spec.DocStringsOpened`, `Spec.astOf`, `Spec.commentsOf` (Spec/AstOf.lean,
  Lemmas/NoCrash.lean, Spec/Tree.lean); `Spec.textKinds` (Spec/TextLevel.lean): the intrinsic kinds
  of the lines; `eventsAbs` / `Spec.treeOf`: the events of the kind-level run and their tree
  (`C02_events_valid_tree`); `ctx.builds`, `ctx.ids`: the tokens handed to `build`, in order, and
  the id counter after the parse (Model/Parser.lean).  With `C18_accepted_sequence`
  (`C03_parse_leaves_are_lines` below) the leaves are one token per physical line, in order, then
  one end-of-file token.

  New Boolean table fact: `Spec.docStringOpens` (Lemmas/ParseClean.lean): the start state is not a
  doc-string content state, and `start_rule(DocString)` occurs only in `DocStringSeparator` tests of
  non-content states, directly followed by `build`.  With `Spec.contentEntry` (C13) the matcher is
  inside a doc string exactly in the content states, so the first line of every `DocString` node
  was matched as an OPENING separator (`C01_docsep_text`): `DocStringsOpened` is no longer a
  hypothesis.

  A technical note.  The parser-glue lemma family (Lemmas/Glue*, Queue*, Text*, StopFirst) names its
  monad-run equations `prun_bind`, `prun_pure`, `prun_throw` (and `QFrame`, `gmem_getTokens`) so that it
  can be imported together with the tree family (Lemmas/Builder, TypedStack, NoCrash), whose
  equations are `run_bind` … — this property needs both.  The kernel facts of C02Text / C13 / C18 are
  evaluated again here (each Props module checks the facts it uses).

  Not proved: `C01_no_crash_accepted_inputs` (no `.crash` outcome for every document accepted at
  text level).  For documents that are accepted it follows from the theorems here (the outcome is
  `.ok`); for documents accepted at text level with a RAGGED table the builder's run after the
  first `AstBuilderException` is no longer the run on a tree (the failed node is popped but not
  added to its parent), and the link would have to be redone for such "trees with holes"; skipped.
-/
import GherkinVerif.Lemmas.ParseLink
import GherkinVerif.Props.C01NoCrash
import GherkinVerif.Props.C11Tree
import GherkinVerif.Props.C02Tree
import GherkinVerif.Gen.ParserTable
import GherkinVerif.Gen.Dialects
import GherkinVerif.Gen.Grammar
import GherkinVerif.KDecide
namespace GV
open Spec

/-! ### facts about the regenerated tables, evaluated by the kernel -/

/-- the C05 keyword facts, and: no keyword starts with `"` or a backtick (= `C02T_fact_dialects`) -/
theorem C03P_fact_dialects : Spec.textDialectFacts Gen.dialects = true := by kdecide
/-- look-aheads uniform, tag states closed, guarded tests followed by tag-line tests (= `C18_fact_queue`) -/
theorem C03P_fact_queue : Spec.queueFacts Gen.parserTable = true := by kdecide
/-- comment and blank lines are accepted by some test of every state (= `C18_fact_comment_blank`) -/
theorem C03P_fact_comment_blank : Spec.commentBlankTested Gen.parserTable = true := by kdecide
/-- doc-string content states are entered and left by separator lines only (= `C13_content_entry`) -/
theorem C03P_fact_content : Spec.contentEntry Gen.parserTable = true := by kdecide
/-- `start_rule(DocString)` occurs only in `DocStringSeparator` tests of non-content states, directly
    followed by `build`; the start state is not a content state -/
theorem C03P_fact_doc_opens : Spec.docStringOpens Gen.parserTable = true := by kdecide
/-- every test hands its token to the builder exactly once (= `C18_fact_builds`) -/
theorem C03P_fact_builds : Spec.oneBuildLast Gen.parserTable = true := by kdecide

/-- all facts the link uses, for the regenerated dialect table, parser table and grammar (the
    typed-stack certificate `Lemmas.typedCheck_gen` of C02, the shape check `Lemmas.shapeCheck_gen`
    of C11, the start rule) -/
theorem C03P_facts : Lemmas.LinkFacts Gen.dialects Gen.parserTable Gen.grammar 100000 :=
  ⟨C03P_fact_dialects, C03P_fact_queue, C03P_fact_comment_blank, C03P_fact_content, C03P_fact_doc_opens,
   Lemmas.typedCheck_gen, Lemmas.shapeCheck_gen, Lemmas.startRule_gen⟩

/-! ### the link, for any dialect table, parser table and grammar passing the checks -/

/-- Generic form of `C03_parse_is_astOf`: `Lemmas.LinkFacts D T G fuel` bundles the Boolean checks
    (`textDialectFacts D`, `queueFacts T`, `commentBlankTested T`, `contentEntry T`,
    `docStringOpens T`, `typedCheck G T fuel`, `shapeCheck G`, `T.startRule = GherkinDocument`). -/
theorem C03_parse_is_astOf_generic (D : List Dialect) (T : Table) (G : Grammar) (fuel : Nat)
    (L : Lemmas.LinkFacts D T G fuel) (μ : MState) (ids : Nat) (src : Str) (hμ : (μ.reset D).dialect ∈ D) (d : Doc)
    (h : (parseWith D T false μ ids src).1 = .ok d) :
    let ctx := (parseWith D T false μ ids src).2
    ∃ t : TTree,
      t.isDocument = true ∧ leaves t = ctx.builds ∧
      ValidTree G .GherkinDocument t.kinds ∧
      (∃ evs, eventsAbs T (textKinds D T 0 (μ.reset D) (splitLines src)) = some evs ∧ treeOf evs = some t.kinds) ∧
      (∀ tk ∈ leaves t, WellMatched tk) ∧ DocStringsOpened t ∧
      (astOf (commentsOf t) t).run.run ids = (.ok (.doc d), ctx.ids) :=
  Lemmas.parse_link L μ ids src hμ d h

/-! ### the link, for the regenerated tables -/

/-- **The parse IS the fold of the tree.**  If the parser (collecting mode) accepts the source text
    `src` and returns the document `d`, with final context `ctx`, there is a token tree `t` such that
    (a) `t` is a document tree and its leaves are exactly the tokens handed to the builder, in
        order (`ctx.builds`);
    (b) its projection to line kinds `t.kinds` is a derivation tree of gherkin.berp — in fact the
        tree `Spec.treeOf` rebuilds from the events of the kind-level run on the intrinsic kinds
        of the lines (`Spec.textKinds`);
    (c) every leaf is well matched and every `DocString` node starts with an opening separator;
    (d) `astOf` of `t`, given the comments of `t`, started at the incoming counter `ids`, returns
        exactly `d` and the counter `ctx.ids` the parse ended with. -/
theorem C03_parse_is_astOf (μ : MState) (ids : Nat) (src : Str)
    (hμ : (μ.reset Gen.dialects).dialect ∈ Gen.dialects) (d : Doc)
    (h : (parseWith Gen.dialects Gen.parserTable false μ ids src).1 = .ok d) :
    let ctx := (parseWith Gen.dialects Gen.parserTable false μ ids src).2
    ∃ t : TTree,
      t.isDocument = true ∧ leaves t = ctx.builds ∧
      ValidTree Gen.grammar .GherkinDocument t.kinds ∧
      (∃ evs, eventsAbs Gen.parserTable
          (textKinds Gen.dialects Gen.parserTable 0 (μ.reset Gen.dialects) (splitLines src)) = some evs ∧
        treeOf evs = some t.kinds) ∧
      (∀ tk ∈ leaves t, WellMatched tk) ∧ DocStringsOpened t ∧
      (astOf (commentsOf t) t).run.run ids = (.ok (.doc d), ctx.ids) :=
  Lemmas.parse_link C03P_facts μ ids src hμ d h

/-- The same in stop-at-first-error mode (an accepted run is the same run in both modes,
    `C14_accept_same_run`). -/
theorem C03_parse_is_astOf_stop (μ : MState) (ids : Nat) (src : Str)
    (hμ : (μ.reset Gen.dialects).dialect ∈ Gen.dialects) (d : Doc)
    (h : (parseWith Gen.dialects Gen.parserTable true μ ids src).1 = .ok d) :
    let ctx := (parseWith Gen.dialects Gen.parserTable true μ ids src).2
    ∃ t : TTree,
      t.isDocument = true ∧ leaves t = ctx.builds ∧
      ValidTree Gen.grammar .GherkinDocument t.kinds ∧
      (∃ evs, eventsAbs Gen.parserTable
          (textKinds Gen.dialects Gen.parserTable 0 (μ.reset Gen.dialects) (splitLines src)) = some evs ∧
        treeOf evs = some t.kinds) ∧
      (∀ tk ∈ leaves t, WellMatched tk) ∧ DocStringsOpened t ∧
      (astOf (commentsOf t) t).run.run ids = (.ok (.doc d), ctx.ids) :=
  Lemmas.parse_link_stop C03P_facts μ ids src hμ d h

/-- The leaves of the tree are the document's physical lines: one token per line, in source order,
    with that line's number and text, then exactly one end-of-file token (`C18_accepted_sequence`). -/
theorem C03_parse_leaves_are_lines (μ : MState) (ids : Nat) (src : Str)
    (hμ : (μ.reset Gen.dialects).dialect ∈ Gen.dialects) (d : Doc)
    (h : (parseWith Gen.dialects Gen.parserTable false μ ids src).1 = .ok d) (t : TTree)
    (ht : leaves t = (parseWith Gen.dialects Gen.parserTable false μ ids src).2.builds) :
    (leaves t).map (·.lineNo) = List.range' 1 ((splitLines src).length + 1) ∧
    (leaves t).map (·.line) = (splitLines src).map some ++ [none] := by
  rw [ht]
  exact Lemmas.accepted_sequence _ _ (Lemmas.queueDialectFacts_of_text C03P_fact_dialects) C03P_fact_queue
    C03P_fact_builds false μ ids src hμ d h

/-! ### corollaries: the tree-level theorems hold for every accepted document -/

/-- Every element once, in source order.  For every accepted document there is a token tree over
    the tokens handed to the builder, projecting to a derivation tree of the grammar, such that the
    locations of all elements of the returned AST read off in source order are exactly the
    locations of the elements carried by the tree's lines, line by line, and the document's
    comments are the tree's comment lines in order (`C03_leaves_once_accepted`, `C03_ast_of_tree`). -/
theorem C03_parse_leaves_once (μ : MState) (ids : Nat) (src : Str)
    (hμ : (μ.reset Gen.dialects).dialect ∈ Gen.dialects) (d : Doc)
    (h : (parseWith Gen.dialects Gen.parserTable false μ ids src).1 = .ok d) :
    ∃ t : TTree, leaves t = (parseWith Gen.dialects Gen.parserTable false μ ids src).2.builds ∧
      ValidTree Gen.grammar .GherkinDocument t.kinds ∧
      srcLocs d = elemLocs t ∧ srcLines d = elemLines t ∧ d.comments = commentsOf t := by
  obtain ⟨t, hdoc, hl, hv, -, -, -, hast⟩ := C03_parse_is_astOf μ ids src hμ d h
  obtain ⟨_, -, -, -, d', hd', -, hcm⟩ := C03_ast_of_tree t hdoc _ _ _ hast
  cases hd'
  exact ⟨t, hl, hv, (C03_leaves_once_accepted t hv _ _ _ d hast).1, (C03_leaves_once_accepted t hv _ _ _ d hast).2, hcm⟩

/-- Canonical ids.  The ids of the AST of every accepted document, read in the canonical order,
    are exactly `ids, ids+1, …, ctx.ids - 1`: consecutive from the incoming counter, none skipped,
    none drawn and dropped; in particular pairwise distinct (`C11_accepted_ast`). -/
theorem C11_parse_ids_canonical (μ : MState) (ids : Nat) (src : Str)
    (hμ : (μ.reset Gen.dialects).dialect ∈ Gen.dialects) (d : Doc)
    (h : (parseWith Gen.dialects Gen.parserTable false μ ids src).1 = .ok d) :
    canonicalIds d =
      List.range' ids ((parseWith Gen.dialects Gen.parserTable false μ ids src).2.ids - ids) ∧
    (canonicalIds d).Nodup := by
  obtain ⟨t, -, -, hv, -, -, -, hast⟩ := C03_parse_is_astOf μ ids src hμ d h
  obtain ⟨_, d', -, hd', -, -, hids⟩ := C11_accepted_ast t hv _ _ _ hast
  cases hd'
  exact ⟨hids, hids ▸ List.nodup_range'⟩

/-- The builder's run of an accepted parse is the run on the tree: from a fresh builder and the
    incoming counter, the `start_rule` / `build` / `end_rule` calls of the tree end without error
    at the counter the parse ended with, and `get_result()` is the returned document
    (`C03_ast_of_tree`; the no-crash theorems `C01_astOf_no_crash_accepted` /
    `C01_builder_no_crash_accepted` apply to this tree, all their hypotheses being met). -/
theorem C01_parse_builder_run (μ : MState) (ids : Nat) (src : Str)
    (hμ : (μ.reset Gen.dialects).dialect ∈ Gen.dialects) (d : Doc)
    (h : (parseWith Gen.dialects Gen.parserTable false μ ids src).1 = .ok d) :
    ∃ (t : TTree) (β : BState), leaves t = (parseWith Gen.dialects Gen.parserTable false μ ids src).2.builds ∧
      applyOps (opsOf t) BState.reset ids =
        (.ok (), β, (parseWith Gen.dialects Gen.parserTable false μ ids src).2.ids) ∧
      β.result = .ok (some d) := by
  obtain ⟨t, hdoc, hl, -, -, -, -, hast⟩ := C03_parse_is_astOf μ ids src hμ d h
  obtain ⟨β, hβ, -, -, d', hd', hres, -⟩ := C03_ast_of_tree t hdoc _ _ _ hast
  cases hd'
  exact ⟨t, β, hl, hβ, hres⟩

/-! ### non-vacuity -/
section examples

/-- a French document with a language header, a comment, a doc string with media type whose content
    looks like a step, a data table, and a tag / blank run before `Exemples:` -/
def C03P_demo : Str :=
  lit "# language: fr\n# c\nFonctionnalité: f\n  Scénario: s\n    Soit x\n      \"\"\"json\n      Given y\n      \"\"\"\n    Et z\n      | p | q |\n    @t @u\n\n    Exemples:\n      | a |\n      | 1 |\n"

mutual
/-- hang tokens, in order, into a tree over line kinds -/
def C03P_fill : Tree → List Token → Option (TTree × List Token)
  | .leaf _, tk :: rest => some (.leaf tk, rest)
  | .leaf _, [] => none
  | .node r cs, toks => (C03P_fillList cs toks).map fun p => (.node r p.1, p.2)
def C03P_fillList : List Tree → List Token → Option (List TTree × List Token)
  | [], toks => some ([], toks)
  | c :: cs, toks =>
    match C03P_fill c toks with
    | none => none
    | some (t, rest) => (C03P_fillList cs rest).map fun p => (t :: p.1, p.2)
end

/-- the hypothesis of the link is satisfiable and its conclusion can be checked on a concrete
    document: the demo is accepted from counter 5; its ids in canonical order are 5 … 13 and the
    counter ends at 14; its elements in source order are on lines 3 4 5 6 9 10 11 11 13 14 15; the
    builder saw lines 1 … 16 (15 lines and the end of file) -/
example : (MState.init Gen.dialects (lit "en")).map (fun μ =>
      let r := parseWith Gen.dialects Gen.parserTable false μ 5 C03P_demo
      match r.1 with
      | .ok d => [canonicalIds d, [r.2.ids], srcLines d, r.2.builds.map Token.lineNo, [d.comments.length]]
      | _ => []) =
    some [[5, 6, 7, 8, 9, 10, 11, 12, 13], [14], [3, 4, 5, 6, 9, 10, 11, 11, 13, 14, 15],
      [1, 2, 3, 4, 5, 6, 7, 8, 9, 10, 11, 12, 13, 14, 15, 16], [1]] := by kdecide

/-- … and the tree of the theorem, computed: the tokens handed to the builder hung into the tree
    of the kind-level events.  It is a document tree, its leaves are these tokens, they are well
    matched, its doc string is opened, and `astOf` of it from counter 5 is the document the parser
    returned, ending at the parser's counter. -/
example : (MState.init Gen.dialects (lit "en")).map (fun μ =>
      let r := parseWith Gen.dialects Gen.parserTable false μ 5 C03P_demo
      let tk := (eventsAbs Gen.parserTable
        (textKinds Gen.dialects Gen.parserTable 0 (μ.reset Gen.dialects) (splitLines C03P_demo))).bind treeOf
      match r.1, tk.bind (fun k => C03P_fill k r.2.builds) with
      | .ok d, some (t, []) =>
        t.isDocument && decide (DocStringsOpened t) && (leaves t).all wellMatched &&
        decide ((leaves t).map (fun x => (x.lineNo, x.mtype, x.text)) = r.2.builds.map (fun x => (x.lineNo, x.mtype, x.text))) &&
        decide (Lemmas.Ex.docOf ((astOf (commentsOf t) t).run.run 5) = some d) &&
        decide (((astOf (commentsOf t) t).run.run 5).2 = r.2.ids)
      | _, _ => false) = some true := by kdecide

end examples
end GV
