/-
  Props/C13.lean — property C13: doc strings are opaque: verbatim content, closed only by their
  own delimiter.  Property theorems only; helper lemmas live in Lemmas/DocString.lean.

  Layers: facts about the regenerated table (`decide +kernel`) lifted by lemmas generic in the
  table (`C13_opaque_abs`, `C13_opaque_run`); the matcher (`C13_other_always`,
  `C13_only_own_delimiter`, `C13_content_line`, `C13_unescape`, `C13_open`, `C13_resume`,
  `C13_state_untouched`); the builder (`C13_docstring_node`).
  Not proved here: the composition along a whole concrete parse (`C13_in_document`, needs the
  imperative/abstract glue of C03) — checked on the implementation by the harness oracles.
-/
import GherkinVerif.Lemmas.DocString
import GherkinVerif.Gen.ParserTable
import GherkinVerif.KDecide
namespace GV

/-! ### the table -/

/-- The regenerated table has doc-string content states (states whose only tests are
    `DocStringSeparator`, leaving, and `Other`, a build-only self-loop) … -/
theorem C13_content_states_exist : Spec.contentStates Gen.parserTable ≠ [] := by kdecide

/-- … and they are entered only through a `DocStringSeparator` branch from a non-content state
    (every such branch leads into one), left only through their own `DocStringSeparator` branch,
    and otherwise loop on `Other`. -/
theorem C13_content_entry : Spec.contentEntry Gen.parserTable = true := by kdecide

/-- Every content state of the regenerated table is found by `row?` and its row is a content row
    (so `C13_opaque_run` applies to each of them). -/
theorem C13_content_rows :
    (Spec.contentStates Gen.parserTable).all
      (fun s => (Gen.parserTable.row? s).any Spec.isContentRow) = true := by kdecide

/-- Opacity at the table level, generic in the table: in a content row a line of *any* kind other
    than a doc-string separator or end of file — keyword line, step, tag line, comment, table
    row, blank line, language header, free text — is read as `Other`, is handed to the builder
    and nothing else happens, and the state stays the same, whatever follows. -/
theorem C13_opaque_abs (T : Table) (r : StateRow) (hr : Spec.isContentRow r = true)
    (k : Kind) (fut : List Kind) (h1 : k ≠ .DocStringSeparator) (h2 : k ≠ .EOF) :
    pickBranch T k fut r.branches = some ⟨.Other, none, [.build], r.id⟩ :=
  Lemmas.pickBranch_content T r hr k fut h1 h2

/-- Hence any sequence `ks` of such lines, from a content state `s`, is consumed entirely as
    `Other` tokens (one `build Other` event each) and the run continues from the same state `s`
    with what follows. -/
theorem C13_opaque_run (T : Table) (s : Nat) (r : StateRow) (hs : T.row? s = some r)
    (hr : Spec.isContentRow r = true) (ks rest : List Kind)
    (h : ∀ k ∈ ks, k ≠ .DocStringSeparator ∧ k ≠ .EOF) :
    runAbs T s (ks ++ rest) =
      (runAbs T s rest).map fun p => (p.1, ks.map (fun _ => Ev.build .Other) ++ p.2) :=
  Lemmas.runAbs_content T s r hs hr ks rest h

/-- … and in error-collecting mode none of them is reported as unexpected. -/
theorem C13_opaque_no_errors (T : Table) (s : Nat) (r : StateRow) (hs : T.row? s = some r)
    (hr : Spec.isContentRow r = true) (ks rest : List Kind) (i : Nat)
    (h : ∀ k ∈ ks, k ≠ .DocStringSeparator ∧ k ≠ .EOF) :
    errorsAbs T s i (ks ++ rest) = errorsAbs T s (i + ks.length) rest :=
  Lemmas.errorsAbs_content T s r hs hr ks rest i h

/-! ### the matcher -/

/-- `match_Other` matches every line, whatever it looks like, and never changes the matcher
    state (dialect, active delimiter, indentation to remove). -/
theorem C13_other_always (D : List Dialect) (μ : MState) (t : Token) (l : Str) :
    (matchLine D .Other μ t l).res = .matched ∧ (matchLine D .Other μ t l).μ = μ ∧
    (matchLine D .Other μ t l).tok.mtype = some .Other :=
  ⟨rfl, rfl, rfl⟩

/-- While a doc string with delimiter `sep` is open, `match_DocStringSeparator` matches a line
    iff its text after leading whitespace starts with `sep` itself: the other delimiter,
    keywords, tags, comments, table rows and blank lines do not close it. -/
theorem C13_only_own_delimiter (D : List Dialect) (μ : MState) (t : Token) (l sep : Str)
    (ha : μ.activeSep = some sep) (hne : sep ≠ []) :
    (matchLine D .DocStringSeparator μ t l).res = .matched ↔ startsWith sep (trimmed l) = true :=
  Lemmas.docsep_active_iff D μ t l sep ha hne

/-- No test other than `match_DocStringSeparator` touches the delimiter / indentation state. -/
theorem C13_state_untouched (D : List Dialect) (k : Kind) (μ : MState) (t : Token) (l : Str)
    (hk : k ≠ .DocStringSeparator) :
    (matchLine D k μ t l).μ.activeSep = μ.activeSep ∧
    (matchLine D k μ t l).μ.indentToRemove = μ.indentToRemove :=
  Lemmas.matchLine_keeps_docstate D k μ t l hk

/-- The text of a content line: the physical line minus the opening delimiter's indentation — a
    less-indented line loses all of its own indentation and nothing more —, with the escaped
    active delimiter unescaped, minus the trailing line break. -/
theorem C13_content_line (D : List Dialect) (μ : MState) (t : Token) (l : Str) :
    (matchLine D .Other μ t l).tok.text =
      some (rstripCRLF (unescapeDoc μ.activeSep (l.drop (min μ.indentToRemove (lineIndent l))))) :=
  Lemmas.other_text D μ t l

/-- Unescaping rewrites only the backslash-escaped form of the *active* delimiter (every
    non-overlapping occurrence, left to right), and is the identity when no doc string is open
    or the active separator is neither of the two delimiters. -/
theorem C13_unescape (text : Str) :
    unescapeDoc (some dq3) text = replaceAll [92, 34, 92, 34, 92, 34] [34, 34, 34] text ∧
    unescapeDoc (some bt3) text = replaceAll [92, 96, 92, 96, 92, 96] [96, 96, 96] text ∧
    unescapeDoc none text = text ∧
    ∀ sep, sep ≠ some dq3 → sep ≠ some bt3 → unescapeDoc sep text = text :=
  ⟨Lemmas.unescapeDoc_dq text, Lemmas.unescapeDoc_bt text, Lemmas.unescapeDoc_none text,
   fun sep h1 h2 => Lemmas.unescapeDoc_other sep text h1 h2⟩

/-- Opening: with no doc string open, a matched separator line starts (after its indentation)
    with one of the two delimiters `sep`; the matcher then has `sep` active and remembers the
    line's indentation; the token's keyword is `sep` and its text is the stripped rest of the
    line (the media type). -/
theorem C13_open (D : List Dialect) (μ : MState) (t : Token) (l : Str)
    (ho : μ.activeSep = none ∨ μ.activeSep = some [])
    (hm : (matchLine D .DocStringSeparator μ t l).res = .matched) :
    ∃ sep, (sep = dq3 ∨ sep = bt3) ∧ startsWith sep (trimmed l) = true ∧
      (matchLine D .DocStringSeparator μ t l).μ =
        { μ with activeSep := some sep, indentToRemove := lineIndent l } ∧
      (matchLine D .DocStringSeparator μ t l).tok.text =
        some (rstripCRLF (strip ((trimmed l).drop 3))) ∧
      (matchLine D .DocStringSeparator μ t l).tok.keyword = some sep ∧
      (matchLine D .DocStringSeparator μ t l).tok.mtype = some .DocStringSeparator :=
  Lemmas.docsep_open D μ t l ho hm

/-- Closing: a matched separator line while `sep` is active puts the matcher back to "no active
    delimiter, indentation 0" (and changes nothing else), so normal matching resumes. -/
theorem C13_resume (D : List Dialect) (μ : MState) (t : Token) (l sep : Str)
    (ha : μ.activeSep = some sep) (hne : sep ≠ [])
    (hm : (matchLine D .DocStringSeparator μ t l).res = .matched) :
    (matchLine D .DocStringSeparator μ t l).μ = { μ with activeSep := none, indentToRemove := 0 } ∧
    (matchLine D .DocStringSeparator μ t l).tok.text = none ∧
    (matchLine D .DocStringSeparator μ t l).tok.keyword = some sep ∧
    (matchLine D .DocStringSeparator μ t l).tok.mtype = some .DocStringSeparator :=
  Lemmas.docsep_close D μ t l sep ha hne hm

/-! ### the builder -/

/-- `transform_node` on a `DocString` node whose first separator token has text `m` and keyword
    `d` and whose `Other` tokens have texts `ls`, in order: content = the lines joined by line
    feeds, delimiter = `d`, media type absent iff `m` is empty, location = the opening token's;
    no id is drawn. -/
theorem C13_docstring_node (comments : List Comment) (items : List (Key × Val))
    (sep : Token) (rest : List Token) (m d : Str) (ls : List Str)
    (hsep : getTokens items .DocStringSeparator = sep :: rest)
    (hm : sep.text = some m) (hd : sep.keyword = some d)
    (hls : (getTokens items .Other).map (·.text) = ls.map some) :
    transformNode comments ⟨.DocString, items⟩ =
      pure (.docString { loc := sep.loc, content := joinWith [10] ls, delimiter := d,
                         mediaType := if m = [] then none else some m }) :=
  Lemmas.transformNode_docString comments items sep rest m d ls hsep hm hd hls

/-- … in particular for the node the parser builds: opening separator, content lines, closing
    separator, in the order the lines were read. -/
theorem C13_docstring_node_shape (comments : List Comment) (op cl : Token) (others : List Token)
    (m d : Str) (ls : List Str) (n : Nat)
    (hm : op.text = some m) (hd : op.keyword = some d) (hls : others.map (·.text) = ls.map some) :
    (transformNode comments ⟨.DocString,
        [(.tok .DocStringSeparator, .tok op)] ++ others.map (fun t => (Key.tok .Other, Val.tok t)) ++
        [(.tok .DocStringSeparator, .tok cl)]⟩).run.run n =
      (.ok (.docString { loc := op.loc, content := joinWith [10] ls, delimiter := d,
                         mediaType := if m = [] then none else some m }), n) := by
  rw [Lemmas.transformNode_docString comments _ op [cl] m d ls (Lemmas.getTokens_shape_sep op cl others)
    hm hd (by rw [Lemmas.getTokens_shape_other op cl others]; exact hls)]
  rfl

/-! ### non-vacuity -/

/-- in an open `"""` doc string a line of backticks, a keyword line, a tag line do not close it,
    an indented `"""` line does -/
example :
    let μ : MState := { defaultName := lit "en", name := lit "en", dialect := default,
                        indentToRemove := 4, activeSep := some dq3 }
    let t : Token := { line := none, lineNo := 7 }
    ((matchLine [] .DocStringSeparator μ t (lit "    ```\n")).res matches .no) ∧
    ((matchLine [] .DocStringSeparator μ t (lit "  Feature: x\n")).res matches .no) ∧
    ((matchLine [] .DocStringSeparator μ t (lit "@tag\n")).res matches .no) ∧
    ((matchLine [] .DocStringSeparator μ t (lit " \t\"\"\" trailing\n")).res matches .matched) := by
  decide

/-- a less-indented content line loses all of its own indentation; only the active delimiter's
    escape is rewritten; the line break is removed -/
example :
    let μ : MState := { defaultName := lit "en", name := lit "en", dialect := default,
                        indentToRemove := 4, activeSep := some dq3 }
    let t : Token := { line := some (lit "  a \\\"\\\"\\\" \\`\\`\\` \r\n"), lineNo := 7 }
    (matchLine [] .Other μ t (lit "  a \\\"\\\"\\\" \\`\\`\\` \r\n")).tok.text
      = some (lit "a \"\"\" \\`\\`\\` ") ∧
    (matchLine [] .Other μ t (lit "      | x |\n")).tok.text = some (lit "  | x |") := by
  decide

end GV
