/-
  Props/C08.lean — property C08: pickle tags = feature, rule, scenario, examples tags, in order.
-/
import GherkinVerif.Lemmas.Compile
namespace GV

/-- Tags of a plain scenario's pickle. -/
theorem C08_tags_scenario (uri language : Str) (sc : Spec.Scope) (s : Scenario) (p : Pickle)
    (h : Spec.scenarioPickle uri language sc s = some p) :
    p.tags = (sc.ftags ++ sc.rtags ++ s.tags).map (fun t => ⟨t.id, t.name⟩) :=
  Lemmas.spec_tags_scenario uri language sc s p h

/-- Tags of an example row's pickle: additionally the tags of *its* examples block. -/
theorem C08_tags_row (uri language : Str) (sc : Spec.Scope) (s : Scenario) (ex : Examples) (hd row : Row)
    (p : Pickle) (h : Spec.rowPickle uri language sc s ex hd row = some p) :
    p.tags = (sc.ftags ++ sc.rtags ++ s.tags ++ ex.tags).map (fun t => ⟨t.id, t.name⟩) :=
  Lemmas.spec_tags_row uri language sc s ex hd row p h

/-- The scope's tags are the feature's and — inside a rule — that rule's; nothing else. -/
theorem C08_scope_tags (f : Feature) (x : Spec.Scope × Scenario) (h : x ∈ Spec.featureScenarios f) :
    x.1.ftags = f.tags ∧ (x.1.rtags = [] ∨ ∃ r, FeatureChild.rule r ∈ f.children ∧ x.1.rtags = r.tags ∧
      RuleChild.scenario x.2 ∈ r.children) :=
  Lemmas.spec_scope_tags f x h

end GV
