/-
  Props/C16Doc3.lean — property C16, whole-document part, continued: blank lines and indentation.

  "… inserting blank lines anywhere outside descriptions and doc strings changes only line numbers;
  indenting such lines further changes only columns …"

  Props/C16.lean has the per-line / kind-level theorems.  Here they are lifted to `parseWith` by
  lock-step simulations of two runs of the QUEUE-FREE parse `Spec.parseWithPure`
  (Lemmas/LayoutDoc3*.lean) and carried over to the parser with its token queue by
  `C18_queue_refines_peek`.  The builder part (Lemmas/LayoutDoc3Builder.lean) is generic in the
  renaming of positions `Spec.LocMap`: the builder only ever copies positions.

  ## G1  `C16_blank_line_document`

  `src` has the physical lines `pre ++ post`, `src'` the lines `pre ++ b :: post`, `b` whitespace
  only (`AllSpace b`; no further condition on how `b` or the lines around it end — the hypotheses
  speak about `splitLines`; `C16_blank_line_text` is the form on the texts themselves: a line
  `ws ++ "\n"` inserted at a line start).  The only other hypothesis is on the ORIGINAL run: the
  parser state in which its main loop stands after the first `pre.length` lines
  (`Spec.stateAfter`, a prefix run of the queue-free parse; nothing is required if the run has
  aborted before) reads a blank line as `Empty` first (`Spec.emptyFirst`) — true of every state
  outside descriptions and doc strings.  Then, in both error modes, for accepted and rejected
  documents, any incoming matcher state and id counter:

      (parseWith … src').1 = mapOutcome (insertMap pre.length) (parseWith … src).1

  and the final error list / lines reported unexpected are the renamed ones, matcher state and id
  counter are equal (`C16_blank_line_document_context`).  The hypothesis is needed: in a
  description or a doc string the blank line becomes text (counterexamples below).

  ## G2  `C16_indent_document`

  `src'` has as many physical lines as `src`, and line `i` (0-based) of `src'` is `ws ++` line `i`
  of `src` with `ws` whitespace of length `w i` (`w` any function; only its values on the lines of
  the text matter).  The only other hypothesis is on the ORIGINAL run, through its ghost list
  `builds`: every line that is moved (`w i > 0`) and was handed to the builder at all was handed
  over as one of FeatureLine, RuleLine, BackgroundLine, ScenarioLine, ExamplesLine, StepLine,
  TagLine, TableRow, Empty (`indentable`) — so not as a comment or language header (a comment's
  text contains its indentation), not as free text or doc-string content (`Other`), not as a
  doc-string delimiter (the opening one records its indentation).  Lines that were never built —
  reported as unexpected, or whose tag error ended a stop-at-first-error run — MAY be moved: their
  error columns move with them.  Then, in both error modes, for accepted and rejected documents:

      (parseWith … src').1 = mapOutcome (indentMap w) (parseWith … src).1

  and the final error lists correspond, id counters and reported lines are equal
  (`C16_indent_document_context`).  The hypothesis cannot be made static (a keyword line inside a
  doc string IS read as `Other`) and is needed (counterexamples below: comment, description line,
  doc-string content line, delimiter).  NOT proved here: G2b (a doc string moving as one block,
  the closing delimiter moving alone) and G3 (comment-line insertion).
-/
import GherkinVerif.Props.C16
import GherkinVerif.Props.C18Pure
import GherkinVerif.Lemmas.LayoutDoc3IndentSim
import GherkinVerif.KDecide
namespace GV
open Lemmas Layout3

/-! ## facts about the regenerated table -/

/-- the number of open builder nodes is a function of the parser state (start state 2, every
    state ≥ 1): the assignment found by a breadth-first walk passes the check -/
def C16_depths : List (Nat × Nat) := Spec.computeDepths Gen.parserTable 5000 [(0, 2)] []
theorem C16_fact_depths : Spec.depthsOk Gen.parserTable C16_depths = true := by kdecide

theorem C16_tableOkI : TableOkI Gen.parserTable := ⟨C16_lookaheads_skip_empty, C16_empty_self_loop⟩

/-! ## G1: inserting a whitespace-only line -/

/-- what the final contexts of the two runs have in common: the error list and the lines reported
    unexpected of the second are the renamed ones of the first; matcher state and id counter are
    equal -/
def C16_MappedContext (f : Spec.LocMap) (a b : Ctx) : Prop :=
  b.errors = a.errors.map (Spec.mapErr f) ∧ b.μ = a.μ ∧ b.ids = a.ids ∧ b.unexpected = a.unexpected.map f.ln

/-- Generic form, for every dialect table and transition table passing the Boolean checks. -/
theorem C16_blank_line_document_generic (D : List Dialect) (T : Table)
    (hD : Spec.stepKeywordsOk D = true) (hQD : Spec.queueDialectFacts D = true)
    (hQT : Spec.queueFacts T = true) (hCB : Spec.commentBlankTested T = true)
    (hLA : Spec.lookaheadsSkipEmpty T = true) (hE : Spec.emptySelfLoop T = true)
    (ds : List (Nat × Nat)) (hds : Spec.depthsOk T ds = true)
    (stop : Bool) (μ : MState) (ids : Nat) (src src' : Str) (pre post : List Str) (b : Str)
    (hb : AllSpace b)
    (h1 : splitLines src = pre ++ post) (h2 : splitLines src' = pre ++ b :: post)
    (hμ : (μ.reset D).dialect ∈ D)
    (hst : ∀ s, Spec.stateAfter D T stop μ ids src pre.length = some s → Spec.emptyFirst T s = true) :
    (parseWith D T stop μ ids src').1 =
      Spec.mapOutcome (Spec.insertMap pre.length) (parseWith D T stop μ ids src).1 ∧
    C16_MappedContext (Spec.insertMap pre.length) (parseWith D T stop μ ids src).2 (parseWith D T stop μ ids src').2 := by
  obtain ⟨h, hc⟩ := blank_line_parseWith hD hQD hQT hCB ⟨hLA, hE⟩ hds hb stop μ ids pre post h1 h2 hμ hst
  exact ⟨h, hc.errors, hc.μ, hc.ids, hc.unexpected⟩

/-- **Inserting a whitespace-only line changes only line numbers.**  If the state in which the
    original run stands after the first `pre.length` lines reads a blank line as `Empty` first, the
    outcome of the text with the blank line `b` inserted there — document, or error list — is the
    original outcome with the line numbers `> pre.length` increased by one. -/
theorem C16_blank_line_document (stop : Bool) (μ : MState) (ids : Nat) (src src' : Str)
    (pre post : List Str) (b : Str) (hb : AllSpace b)
    (h1 : splitLines src = pre ++ post) (h2 : splitLines src' = pre ++ b :: post)
    (hμ : (μ.reset Gen.dialects).dialect ∈ Gen.dialects)
    (hst : ∀ s, Spec.stateAfter Gen.dialects Gen.parserTable stop μ ids src pre.length = some s →
      Spec.emptyFirst Gen.parserTable s = true) :
    (parseWith Gen.dialects Gen.parserTable stop μ ids src').1 =
      Spec.mapOutcome (Spec.insertMap pre.length) (parseWith Gen.dialects Gen.parserTable stop μ ids src).1 :=
  (C16_blank_line_document_generic _ _ C16_step_keywords_ok C18_fact_keywords C18_fact_queue
    C18_fact_comment_blank C16_lookaheads_skip_empty C16_empty_self_loop _ C16_fact_depths
    stop μ ids src src' pre post b hb h1 h2 hμ hst).1

/-- … and the final contexts agree: renamed error list and reported lines, same matcher state, same
    id counter -/
theorem C16_blank_line_document_context (stop : Bool) (μ : MState) (ids : Nat) (src src' : Str)
    (pre post : List Str) (b : Str) (hb : AllSpace b)
    (h1 : splitLines src = pre ++ post) (h2 : splitLines src' = pre ++ b :: post)
    (hμ : (μ.reset Gen.dialects).dialect ∈ Gen.dialects)
    (hst : ∀ s, Spec.stateAfter Gen.dialects Gen.parserTable stop μ ids src pre.length = some s →
      Spec.emptyFirst Gen.parserTable s = true) :
    C16_MappedContext (Spec.insertMap pre.length) (parseWith Gen.dialects Gen.parserTable stop μ ids src).2
      (parseWith Gen.dialects Gen.parserTable stop μ ids src').2 :=
  (C16_blank_line_document_generic _ _ C16_step_keywords_ok C18_fact_keywords C18_fact_queue
    C18_fact_comment_blank C16_lookaheads_skip_empty C16_empty_self_loop _ C16_fact_depths
    stop μ ids src src' pre post b hb h1 h2 hμ hst).2

/-- the hypothesis on the original run as a Boolean (it runs the prefix of the queue-free parse):
    the run has aborted within the first `k` lines, or stands in a state that reads a blank line
    as `Empty` first -/
def C16_blankLineOk (stop : Bool) (μ : MState) (ids : Nat) (src : Str) (k : Nat) : Bool :=
  match Spec.stateAfter Gen.dialects Gen.parserTable stop μ ids src k with
  | some s => Spec.emptyFirst Gen.parserTable s
  | none => true

/-! ### the same on the texts -/

theorem splitLines_append_of_lf : ∀ (s1 s2 : Str), (s1 = [] ∨ s1.getLast? = some 10) →
    splitLines (s1 ++ s2) = splitLines s1 ++ splitLines s2
  | [], s2, _ => by simp [splitLines]
  | c :: cs, s2, h => by
    have hlast : (c :: cs).getLast? = some 10 := by
      rcases h with h | h
      · cases h
      · exact h
    have hcs : cs = [] ∨ cs.getLast? = some 10 := by
      cases cs with
      | nil => exact .inl rfl
      | cons d ds => right; simpa [List.getLast?_cons_cons] using hlast
    have ih := splitLines_append_of_lf cs s2 hcs
    by_cases hc : (c == 10) = true
    · simp only [List.cons_append, splitLines, hc, ↓reduceIte, ih]
    · have hne : cs ≠ [] := by
        intro e; subst e
        simp only [List.getLast?_singleton, Option.some.injEq] at hlast
        subst hlast
        exact hc rfl
      have hsp : splitLines cs ≠ [] := by
        cases cs with
        | nil => exact absurd rfl hne
        | cons d ds =>
          unfold splitLines
          split
          · simp
          · split <;> simp
      simp only [List.cons_append, splitLines, hc, Bool.false_eq_true, ↓reduceIte, ih]
      cases hs : splitLines cs with
      | nil => exact absurd hs hsp
      | cons l ls => simp

theorem splitLines_one_line : ∀ (ws : Str), 10 ∉ ws → splitLines (ws ++ [10]) = [ws ++ [10]]
  | [], _ => by decide
  | c :: cs, h => by
    have hc : (c == 10) = false := by
      simp only [List.mem_cons, not_or] at h
      simpa using fun e => h.1 e.symm
    have ih := splitLines_one_line cs (fun hm => h (List.mem_cons_of_mem _ hm))
    simp only [List.cons_append, splitLines, hc, Bool.false_eq_true, ↓reduceIte, ih]

/-- **The text form**: the line `ws ++ "\n"` (`ws` whitespace without a line feed) inserted at the
    start of a line, i.e. after a prefix `s1` of the text that is empty or ends in a line feed. -/
theorem C16_blank_line_text (stop : Bool) (μ : MState) (ids : Nat) (s1 s2 ws : Str)
    (hs1 : s1 = [] ∨ s1.getLast? = some 10) (hws : AllSpace ws) (hlf : 10 ∉ ws)
    (hμ : (μ.reset Gen.dialects).dialect ∈ Gen.dialects)
    (hst : C16_blankLineOk stop μ ids (s1 ++ s2) (splitLines s1).length = true) :
    (parseWith Gen.dialects Gen.parserTable stop μ ids (s1 ++ (ws ++ [10]) ++ s2)).1 =
      Spec.mapOutcome (Spec.insertMap (splitLines s1).length)
        (parseWith Gen.dialects Gen.parserTable stop μ ids (s1 ++ s2)).1 := by
  have hb : AllSpace (ws ++ [10]) := hws.append (by intro c hc; simp at hc; subst hc; decide)
  refine C16_blank_line_document stop μ ids (s1 ++ s2) (s1 ++ (ws ++ [10]) ++ s2) (splitLines s1) (splitLines s2)
    (ws ++ [10]) hb (splitLines_append_of_lf s1 s2 hs1) ?_ hμ fun s hs => ?_
  · rw [List.append_assoc, splitLines_append_of_lf s1 _ hs1,
      splitLines_append_of_lf (ws ++ [10]) s2 (.inr (by simp)), splitLines_one_line ws hlf]
    rfl
  · unfold C16_blankLineOk at hst
    rw [hs] at hst
    exact hst

/-! ### non-vacuity and the counterexamples -/

/-- the positions a reader of an outcome sees first: for a document those of the scenarios, their
    steps, step arguments and examples tables; for a rejection those of the errors -/
def C16_someLocs : Outcome → List Loc
  | .ok d => (d.feature.map fun x => x.children.flatMap fun c => match c with
      | .scenario s => s.loc :: (s.steps.flatMap fun st => st.loc :: (match st.arg with
          | .none => [] | .table t => t.rows.map (·.loc) | .doc ds => [ds.loc])) ++
          s.examples.flatMap fun e => e.loc :: e.body.map (·.loc)
      | _ => []).getD []
  | .rejected es _ => es.map (·.loc)
  | _ => []

/-- an accepted document with tags, a scenario outline, a doc string, a data table, an examples
    table and a second scenario -/
def C16_demoDoc : Str :=
  lit "Feature: f\n@t1 @t2\nScenario Outline: s\n  Given <x>\n  \"\"\"\n  text\n  \"\"\"\n  When y\n  | a | b |\n  Examples:\n  | x |\n  | 1 |\nScenario: t\n  Then z\n"

/-- the same with a line of two blanks and a tab inserted after line 9 (between the data table and
    the `Examples:` line) -/
def C16_demoDoc' : Str :=
  lit "Feature: f\n@t1 @t2\nScenario Outline: s\n  Given <x>\n  \"\"\"\n  text\n  \"\"\"\n  When y\n  | a | b |\n  \t\n  Examples:\n  | x |\n  | 1 |\nScenario: t\n  Then z\n"

/-- the hypotheses of `C16_blank_line_text` hold of it (`s1` = the first nine lines) … -/
example : (MState.init Gen.dialects (lit "en")).map (fun μ => C16_blankLineOk false μ 0 C16_demoDoc 9) = some true ∧
    (MState.init Gen.dialects (lit "en")).map (fun μ => C16_blankLineOk true μ 0 C16_demoDoc 9) = some true := by
  kdecide

/-- … and the conclusion is not trivial: the positions behind the insertion point have moved down -/
example : (MState.init Gen.dialects (lit "en")).map (fun μ =>
      (C16_someLocs (parseWith Gen.dialects Gen.parserTable false μ 0 C16_demoDoc).1,
       C16_someLocs (parseWith Gen.dialects Gen.parserTable false μ 0 C16_demoDoc').1)) =
    some ([⟨3, some 1⟩, ⟨4, some 3⟩, ⟨5, some 3⟩, ⟨8, some 3⟩, ⟨9, some 3⟩, ⟨10, some 3⟩, ⟨12, some 3⟩,
           ⟨13, some 1⟩, ⟨14, some 3⟩],
          [⟨3, some 1⟩, ⟨4, some 3⟩, ⟨5, some 3⟩, ⟨8, some 3⟩, ⟨9, some 3⟩, ⟨11, some 3⟩, ⟨13, some 3⟩,
           ⟨14, some 1⟩, ⟨15, some 3⟩]) := by kdecide

/-- a rejected document: a description, a tag with whitespace (read on as description), a ragged
    table, an unexpected line, a second feature -/
def C16_demoBad : Str :=
  lit "Feature: f\n some description\n@t1 @t 2\nScenario: s\n  Given x\n  | a | b |\n  | c |\nnonsense\n  When y\nFeature: g\n"

/-- a blank line inserted after line 5 (`Given x`): the hypothesis holds in both error modes … -/
example : (MState.init Gen.dialects (lit "en")).map (fun μ =>
      (C16_blankLineOk false μ 0 C16_demoBad 5, C16_blankLineOk true μ 0 C16_demoBad 5)) = some (true, true) := by
  kdecide

/-- … and the errors (tag, unexpected line, ragged table, unexpected feature; the first one only in
    stop-at-first-error mode) behind it move down by one line -/
example : (MState.init Gen.dialects (lit "en")).map (fun μ =>
      let src' := lit "Feature: f\n some description\n@t1 @t 2\nScenario: s\n  Given x\n\n  | a | b |\n  | c |\nnonsense\n  When y\nFeature: g\n"
      (C16_someLocs (parseWith Gen.dialects Gen.parserTable false μ 0 C16_demoBad).1,
       C16_someLocs (parseWith Gen.dialects Gen.parserTable false μ 0 src').1,
       C16_someLocs (parseWith Gen.dialects Gen.parserTable true μ 0 src').1)) =
    some ([⟨3, some 5⟩, ⟨8, some 1⟩, ⟨7, some 3⟩, ⟨10, some 1⟩],
          [⟨3, some 5⟩, ⟨9, some 1⟩, ⟨8, some 3⟩, ⟨11, some 1⟩], [⟨3, some 5⟩]) := by kdecide

/-- COUNTEREXAMPLE (the hypothesis is needed), description: between two description lines the
    state reads a blank line as `Other`; the check fails and the blank line becomes part of the
    description -/
example : (MState.init Gen.dialects (lit "en")).map (fun μ =>
      let a := lit "Feature: f\n d1\n d2\nScenario: s\n"
      let a' := lit "Feature: f\n d1\n\n d2\nScenario: s\n"
      (C16_blankLineOk false μ 0 a 2,
       (match (parseWith Gen.dialects Gen.parserTable false μ 0 a).1 with
        | .ok d => d.feature.map Feature.description | _ => none),
       (match (parseWith Gen.dialects Gen.parserTable false μ 0 a').1 with
        | .ok d => d.feature.map Feature.description | _ => none))) =
    some (false, some (lit " d1\n d2"), some (lit " d1\n\n d2")) := by kdecide

/-- COUNTEREXAMPLE, doc string: inside a doc string the blank line is content -/
example : (MState.init Gen.dialects (lit "en")).map (fun μ =>
      let a := lit "Feature: f\nScenario: s\nGiven x\n\"\"\"\nc1\nc2\n\"\"\"\n"
      let a' := lit "Feature: f\nScenario: s\nGiven x\n\"\"\"\nc1\n\nc2\n\"\"\"\n"
      let content := fun (o : Outcome) => match o with
        | .ok d => (d.feature.map fun x => x.children.flatMap fun c => match c with
            | .scenario s => s.steps.filterMap fun st => match st.arg with | .doc ds => some ds.content | _ => none
            | _ => []).getD []
        | _ => []
      (C16_blankLineOk false μ 0 a 5,
       content (parseWith Gen.dialects Gen.parserTable false μ 0 a).1,
       content (parseWith Gen.dialects Gen.parserTable false μ 0 a').1)) =
    some (false, [lit "c1\nc2"], [lit "c1\n\nc2"]) := by kdecide

/-- the states: after a feature line (3), after a step (12), in a data table (13), after an examples
    line (15), after a closing doc-string delimiter (40) a blank line is read as `Empty` first; in a
    description (4, 16) and in a doc string (39) it is not -/
example : Spec.emptyFirst Gen.parserTable 3 = true ∧ Spec.emptyFirst Gen.parserTable 12 = true ∧
    Spec.emptyFirst Gen.parserTable 13 = true ∧ Spec.emptyFirst Gen.parserTable 15 = true ∧
    Spec.emptyFirst Gen.parserTable 40 = true ∧ Spec.emptyFirst Gen.parserTable 4 = false ∧
    Spec.emptyFirst Gen.parserTable 16 = false ∧ Spec.emptyFirst Gen.parserTable 39 = false := by kdecide

/-! ## G2: indenting lines -/

theorem C16_fact_indent : indentFacts Gen.parserTable = true := by kdecide

/-- Generic form, for every dialect table and transition table passing the Boolean checks. -/
theorem C16_indent_document_generic (D : List Dialect) (T : Table)
    (hQD : Spec.queueDialectFacts D = true) (hQT : Spec.queueFacts T = true)
    (hCB : Spec.commentBlankTested T = true) (hI : indentFacts T = true)
    (w : Nat → Nat) (stop : Bool) (μ : MState) (ids : Nat) (src src' : Str)
    (hlen : (splitLines src').length = (splitLines src).length)
    (hlines : ∀ (i : Nat) (l l' : Str), (splitLines src)[i]? = some l → (splitLines src')[i]? = some l' →
      ∃ ws, l' = ws ++ l ∧ AllSpace ws ∧ ws.length = w i)
    (hμ : (μ.reset D).dialect ∈ D)
    (hbuilt : ∀ t ∈ (parseWith D T stop μ ids src).2.builds, 0 < w (t.lineNo - 1) →
      ∃ K, t.mtype = some K ∧ indentable K = true) :
    (parseWith D T stop μ ids src').1 = Spec.mapOutcome (Spec.indentMap w) (parseWith D T stop μ ids src).1 ∧
    (parseWith D T stop μ ids src').2.errors =
      (parseWith D T stop μ ids src).2.errors.map (Spec.mapErr (Spec.indentMap w)) ∧
    (parseWith D T stop μ ids src').2.ids = (parseWith D T stop μ ids src).2.ids ∧
    (parseWith D T stop μ ids src').2.unexpected = (parseWith D T stop μ ids src).2.unexpected :=
  indent_parseWith hQD hQT hCB (tableOkInd_of_facts hI) w stop μ ids
    (linesInd_of_index 0 _ _ hlen.symm fun i l1 l2 h1 h2 => by
      obtain ⟨ws, e, hws, hl⟩ := hlines i l1 l2 h1 h2
      exact ⟨ws, e, hws, by rw [Nat.zero_add]; exact hl⟩) hμ hbuilt

/-- **Indenting changes only columns.**  If every line of `src'` is the line of `src` with `w i`
    blanks in front, and the original run has built every moved line (if at all) as a keyword,
    step, tag, table-row or blank line, then the outcome of `src'` — document, or error list — is
    the original outcome with the columns on line `n` increased by `w (n - 1)`. -/
theorem C16_indent_document (w : Nat → Nat) (stop : Bool) (μ : MState) (ids : Nat) (src src' : Str)
    (hlen : (splitLines src').length = (splitLines src).length)
    (hlines : ∀ (i : Nat) (l l' : Str), (splitLines src)[i]? = some l → (splitLines src')[i]? = some l' →
      ∃ ws, l' = ws ++ l ∧ AllSpace ws ∧ ws.length = w i)
    (hμ : (μ.reset Gen.dialects).dialect ∈ Gen.dialects)
    (hbuilt : ∀ t ∈ (parseWith Gen.dialects Gen.parserTable stop μ ids src).2.builds, 0 < w (t.lineNo - 1) →
      ∃ K, t.mtype = some K ∧ indentable K = true) :
    (parseWith Gen.dialects Gen.parserTable stop μ ids src').1 =
      Spec.mapOutcome (Spec.indentMap w) (parseWith Gen.dialects Gen.parserTable stop μ ids src).1 :=
  (C16_indent_document_generic _ _ C18_fact_keywords C18_fact_queue C18_fact_comment_blank C16_fact_indent
    w stop μ ids src src' hlen hlines hμ hbuilt).1

/-- … and the final contexts: corresponding error lists, same id counter, same reported lines -/
theorem C16_indent_document_context (w : Nat → Nat) (stop : Bool) (μ : MState) (ids : Nat) (src src' : Str)
    (hlen : (splitLines src').length = (splitLines src).length)
    (hlines : ∀ (i : Nat) (l l' : Str), (splitLines src)[i]? = some l → (splitLines src')[i]? = some l' →
      ∃ ws, l' = ws ++ l ∧ AllSpace ws ∧ ws.length = w i)
    (hμ : (μ.reset Gen.dialects).dialect ∈ Gen.dialects)
    (hbuilt : ∀ t ∈ (parseWith Gen.dialects Gen.parserTable stop μ ids src).2.builds, 0 < w (t.lineNo - 1) →
      ∃ K, t.mtype = some K ∧ indentable K = true) :
    (parseWith Gen.dialects Gen.parserTable stop μ ids src').2.errors =
      (parseWith Gen.dialects Gen.parserTable stop μ ids src).2.errors.map (Spec.mapErr (Spec.indentMap w)) ∧
    (parseWith Gen.dialects Gen.parserTable stop μ ids src').2.ids =
      (parseWith Gen.dialects Gen.parserTable stop μ ids src).2.ids ∧
    (parseWith Gen.dialects Gen.parserTable stop μ ids src').2.unexpected =
      (parseWith Gen.dialects Gen.parserTable stop μ ids src).2.unexpected :=
  (C16_indent_document_generic _ _ C18_fact_keywords C18_fact_queue C18_fact_comment_blank C16_fact_indent
    w stop μ ids src src' hlen hlines hμ hbuilt).2

/-- the shift of line `i` read off the two texts -/
def C16_shift (src' src : Str) (i : Nat) : Nat :=
  match (splitLines src')[i]?, (splitLines src)[i]? with
  | some l', some l => l'.length - l.length
  | _, _ => 0

/-- all hypotheses of `C16_indent_document` (with `w := C16_shift src' src`) as one Boolean; it runs
    the original parse -/
def C16_indentOk (stop : Bool) (μ : MState) (ids : Nat) (src' src : Str) : Bool :=
  (splitLines src').length == (splitLines src).length &&
  ((splitLines src').zip (splitLines src)).all (fun p =>
    decide (p.2.length ≤ p.1.length) && p.1.drop (p.1.length - p.2.length) == p.2 &&
      (p.1.take (p.1.length - p.2.length)).all isSpace) &&
  (parseWith Gen.dialects Gen.parserTable stop μ ids src).2.builds.all fun t =>
    C16_shift src' src (t.lineNo - 1) == 0 || (match t.mtype with | some K => indentable K | none => false)

/-- … which implies the conclusion. -/
theorem C16_indent_document_check (stop : Bool) (μ : MState) (ids : Nat) (src src' : Str)
    (h : C16_indentOk stop μ ids src' src = true)
    (hμ : (μ.reset Gen.dialects).dialect ∈ Gen.dialects) :
    (parseWith Gen.dialects Gen.parserTable stop μ ids src').1 =
      Spec.mapOutcome (Spec.indentMap (C16_shift src' src)) (parseWith Gen.dialects Gen.parserTable stop μ ids src).1 := by
  unfold C16_indentOk at h
  simp only [Bool.and_eq_true, beq_iff_eq] at h
  obtain ⟨⟨hlen, hz⟩, hb⟩ := h
  refine C16_indent_document _ stop μ ids src src' hlen (fun i l l' h1 h2 => ?_) hμ (fun t ht hpos => ?_)
  · have hz' : ∀ (ls' ls : List Str), (ls'.zip ls).all (fun p =>
          decide (p.2.length ≤ p.1.length) && p.1.drop (p.1.length - p.2.length) == p.2 &&
            (p.1.take (p.1.length - p.2.length)).all isSpace) = true →
        ∀ (i : Nat) (l l' : Str), ls[i]? = some l → ls'[i]? = some l' →
          l.length ≤ l'.length ∧ l'.drop (l'.length - l.length) = l ∧
            (l'.take (l'.length - l.length)).all isSpace = true := by
      intro ls'
      induction ls' with
      | nil => intro ls _ i l l' _ h2; simp at h2
      | cons a as ih =>
        intro ls hall i l l' h1 h2
        cases ls with
        | nil => simp at h1
        | cons b bs =>
          simp only [List.zip_cons_cons, List.all_cons, Bool.and_eq_true, decide_eq_true_eq, beq_iff_eq] at hall
          cases i with
          | zero =>
            simp only [List.getElem?_cons_zero, Option.some.injEq] at h1 h2
            subst h1 h2
            exact ⟨hall.1.1.1, hall.1.1.2, hall.1.2⟩
          | succ i => exact ih bs hall.2 i l l' (by simpa using h1) (by simpa using h2)
    obtain ⟨g1, g2, g3⟩ := hz' _ _ hz i l l' h1 h2
    refine ⟨l'.take (l'.length - l.length), ?_, ?_, ?_⟩
    · conv => lhs; rw [← List.take_append_drop (l'.length - l.length) l']
      rw [g2]
    · intro c hc
      rw [List.all_eq_true] at g3
      exact g3 c hc
    · unfold C16_shift
      rw [h2, h1]
      simp only [List.length_take]
      omega
  · rw [List.all_eq_true] at hb
    have := hb t ht
    simp only [Bool.or_eq_true, beq_iff_eq] at this
    rcases this with h0 | hk
    · omega
    · cases hm : t.mtype with
      | none => rw [hm] at hk; cases hk
      | some K => rw [hm] at hk; exact ⟨K, rfl, hk⟩

/-! ### non-vacuity and the counterexamples -/

/-- positions inside lines: feature, tags, table cells -/
def C16_innerLocs : Outcome → List Loc
  | .ok d => (d.feature.map fun x => x.loc :: x.children.flatMap fun c => match c with
      | .scenario s => s.tags.map (·.loc) ++ s.steps.flatMap fun st => match st.arg with
          | .table t => t.rows.flatMap fun r => r.cells.map (·.loc) | _ => []
      | _ => []).getD []
  | _ => []

/-- an accepted document (tags, outline, doc string, data table, blank line, examples) … -/
def C16_indDoc : Str :=
  lit "Feature: f\n@t1 @t2\nScenario Outline: s\n  Given <x>\n  \"\"\"\n  text\n  \"\"\"\n  When y\n  | a | b |\n\n  Examples:\n  | x |\n  | 1 |\n"

/-- … and the same with the feature line, the tag line, the scenario line (by a tab), both steps, the
    data-table row, the blank line, the examples line and an examples row moved right; the doc
    string (delimiters and content) is left alone -/
def C16_indDoc' : Str :=
  lit "  Feature: f\n @t1 @t2\n\tScenario Outline: s\n     Given <x>\n  \"\"\"\n  text\n  \"\"\"\n   When y\n    | a | b |\n  \n   Examples:\n  | x |\n   | 1 |\n"

/-- all hypotheses hold, in both error modes; the shifts are 2 1 1 3 0 0 0 1 2 2 1 0 1 … -/
example : (MState.init Gen.dialects (lit "en")).map (fun μ =>
      (C16_indentOk false μ 0 C16_indDoc' C16_indDoc, C16_indentOk true μ 0 C16_indDoc' C16_indDoc,
       (List.range 13).map (C16_shift C16_indDoc' C16_indDoc))) =
    some (true, true, [2, 1, 1, 3, 0, 0, 0, 1, 2, 2, 1, 0, 1]) := by kdecide

/-- … and the conclusion is not trivial: scenario, steps, rows, examples line; feature, tags, cells -/
example : (MState.init Gen.dialects (lit "en")).map (fun μ =>
      let o := (parseWith Gen.dialects Gen.parserTable false μ 0 C16_indDoc).1
      let o' := (parseWith Gen.dialects Gen.parserTable false μ 0 C16_indDoc').1
      (C16_someLocs o, C16_someLocs o', C16_innerLocs o, C16_innerLocs o')) =
    some ([⟨3, some 1⟩, ⟨4, some 3⟩, ⟨5, some 3⟩, ⟨8, some 3⟩, ⟨9, some 3⟩, ⟨11, some 3⟩, ⟨13, some 3⟩],
          [⟨3, some 2⟩, ⟨4, some 6⟩, ⟨5, some 3⟩, ⟨8, some 4⟩, ⟨9, some 5⟩, ⟨11, some 4⟩, ⟨13, some 4⟩],
          [⟨1, some 1⟩, ⟨2, some 1⟩, ⟨2, some 5⟩, ⟨9, some 5⟩, ⟨9, some 9⟩],
          [⟨1, some 3⟩, ⟨2, some 2⟩, ⟨2, some 6⟩, ⟨9, some 7⟩, ⟨9, some 11⟩]) := by kdecide

/-- `C16_demoBad` with the ragged table, the unexpected line and the second feature line moved right -/
def C16_indBad' : Str :=
  lit "Feature: f\n some description\n@t1 @t 2\nScenario: s\n  Given x\n    | a | b |\n    | c |\n   nonsense\n  When y\n Feature: g\n"

/-- … and with the line with the tag error moved as well -/
def C16_indBad'' : Str :=
  lit "Feature: f\n some description\n  @t1 @t 2\nScenario: s\n  Given x\n    | a | b |\n    | c |\n   nonsense\n  When y\n Feature: g\n"

/-- a rejected document: lines that are reported as unexpected may be moved; the line with the tag
    error may be moved in stop-at-first-error mode (it is never built then) but not in collecting
    mode (there it is read on as description text) -/
example : (MState.init Gen.dialects (lit "en")).map (fun μ =>
      (C16_indentOk false μ 0 C16_indBad' C16_demoBad, C16_indentOk true μ 0 C16_indBad'' C16_demoBad,
       C16_indentOk false μ 0 C16_indBad'' C16_demoBad)) = some (true, true, false) := by kdecide

/-- … the error columns move with the lines (tag, unexpected line, ragged table, unexpected feature) -/
example : (MState.init Gen.dialects (lit "en")).map (fun μ =>
      (C16_someLocs (parseWith Gen.dialects Gen.parserTable false μ 0 C16_demoBad).1,
       C16_someLocs (parseWith Gen.dialects Gen.parserTable false μ 0 C16_indBad').1)) =
    some ([⟨3, some 5⟩, ⟨8, some 1⟩, ⟨7, some 3⟩, ⟨10, some 1⟩],
          [⟨3, some 5⟩, ⟨8, some 4⟩, ⟨7, some 5⟩, ⟨10, some 2⟩]) := by kdecide

example : (MState.init Gen.dialects (lit "en")).map (fun μ =>
      (C16_someLocs (parseWith Gen.dialects Gen.parserTable true μ 0 C16_demoBad).1,
       C16_someLocs (parseWith Gen.dialects Gen.parserTable true μ 0 C16_indBad'').1)) =
    some ([⟨3, some 5⟩], [⟨3, some 7⟩]) := by kdecide

/-- what is not a position: comment texts, the feature description, doc-string contents -/
def C16_texts : Outcome → List (List Str)
  | .ok d => [d.comments.map (·.text), (d.feature.map Feature.description).toList,
      (d.feature.map fun x => x.children.flatMap fun c => match c with
        | .scenario s => s.steps.filterMap fun st => match st.arg with | .doc ds => some ds.content | _ => none
        | _ => []).getD []]
  | _ => []

def C16_cex : Str := lit "# c\nFeature: f\n desc\nScenario: s\nGiven x\n\"\"\"\nc1\n\"\"\"\n"
def C16_cex1 : Str := lit "  # c\nFeature: f\n desc\nScenario: s\nGiven x\n\"\"\"\nc1\n\"\"\"\n"
def C16_cex2 : Str := lit "# c\nFeature: f\n   desc\nScenario: s\nGiven x\n\"\"\"\nc1\n\"\"\"\n"
def C16_cex3 : Str := lit "# c\nFeature: f\n desc\nScenario: s\nGiven x\n\"\"\"\n  c1\n\"\"\"\n"
def C16_cex4 : Str := lit "# c\nFeature: f\n desc\nScenario: s\nGiven x\n  \"\"\"\nc1\n\"\"\"\n"

/-- COUNTEREXAMPLES (the hypothesis on `builds` is needed): a comment, a description line, a
    doc-string content line, an opening delimiter moved right fail the check … -/
example : (MState.init Gen.dialects (lit "en")).map (fun μ =>
      (C16_indentOk false μ 0 C16_cex1 C16_cex, C16_indentOk false μ 0 C16_cex2 C16_cex,
       C16_indentOk false μ 0 C16_cex3 C16_cex, C16_indentOk false μ 0 C16_cex4 C16_cex)) =
    some (false, false, false, false) := by kdecide

/-- … and the documents differ by more than columns: the comment text, the description, the
    doc-string content keep the blanks -/
example : (MState.init Gen.dialects (lit "en")).map (fun μ =>
      [C16_texts (parseWith Gen.dialects Gen.parserTable false μ 0 C16_cex).1,
       C16_texts (parseWith Gen.dialects Gen.parserTable false μ 0 C16_cex1).1,
       C16_texts (parseWith Gen.dialects Gen.parserTable false μ 0 C16_cex2).1,
       C16_texts (parseWith Gen.dialects Gen.parserTable false μ 0 C16_cex3).1]) =
    some [[[lit "# c"], [lit " desc"], [lit "c1"]],
          [[lit "  # c"], [lit " desc"], [lit "c1"]],
          [[lit "# c"], [lit "   desc"], [lit "c1"]],
          [[lit "# c"], [lit " desc"], [lit "  c1"]]] := by kdecide

/-- the kinds: a moved line may have been built as a keyword, step, tag, table-row or blank line -/
example : [Kind.FeatureLine, .RuleLine, .BackgroundLine, .ScenarioLine, .ExamplesLine, .StepLine, .TagLine,
      .TableRow, .Empty].all indentable = true ∧
    [Kind.Comment, .Language, .Other, .DocStringSeparator, .EOF].all (fun K => !indentable K) = true := by decide

end GV
