/-
  Props/C17Stop.lean — property C17 (and C01: "the stream API turns any source into gherkinDocument,
  pickle and parseError envelopes only") for a stream whose parser was switched to
  stop-at-first-error mode (`events.parser.stop_at_first_error = True`; `Model/Stream.lean:
  streamEnumMode`).  Everything is reduced to the collecting-mode stream `streamEnum`, about which
  Props/C17.lean, C01Pipeline.lean and C11Pipeline.lean speak, through the mode theorems of
  Props/C14Stop.lean.
-/
import GherkinVerif.Props.C17
import GherkinVerif.Props.C14Stop
namespace GV

/-- `streamEnum` is the collecting instance of `streamEnumMode` -/
theorem C17_streamEnumMode_false (D : List Dialect) (T : Table) (opts : Opts) (ids : Nat) (uri data : Str) :
    streamEnumMode D T false opts ids uri data = streamEnum D T opts ids uri data := rfl

theorem C17_streamAllMode_false (D : List Dialect) (T : Table) (opts : Opts) (srcs : List (Str × Str)) (ids : Nat) :
    streamAllMode D T false opts srcs ids = streamAll D T opts srcs ids := by
  induction srcs generalizing ids with
  | nil => rfl
  | cons p rest ih =>
    obtain ⟨uri, data⟩ := p
    simp only [streamAllMode, streamAll, C17_streamEnumMode_false, ih]

/-- ACCEPTED source: the stop-mode stream yields exactly what the collecting stream yields — same
    envelopes in the same order, same id counter afterwards. -/
theorem C17_stop_mode_accepted (D : List Dialect) (T : Table) (opts : Opts) (ids : Nat) (uri data : Str)
    (μ : MState) (hμ : MState.init D (lit "en") = some μ) (d : Doc)
    (h : (parseWith D T false μ ids data).1 = .ok d) :
    streamEnumMode D T true opts ids uri data = streamEnum D T opts ids uri data := by
  have hrun : parseWith D T true μ ids data = parseWith D T false μ ids data :=
    C14_accept_same_run D T μ ids data d (Or.inr h)
  unfold streamEnumMode streamEnum
  simp only [hμ, hrun]

/-- REJECTED source: the stop-mode stream yields exactly ONE parseError envelope, for the first error
    the collecting stream reports — nothing else, whatever the print options. -/
theorem C17_stop_mode_rejected (D : List Dialect) (T : Table) (opts : Opts) (ids : Nat) (uri data : Str)
    (μ : MState) (hμ : MState.init D (lit "en") = some μ) (e : PErr) (rest : List PErr) (comp : Bool)
    (h : (parseWith D T false μ ids data).1 = .rejected (e :: rest) comp) :
    (streamEnumMode D T true opts ids uri data).1 = [Envelope.parseError uri e] ∧
    (streamEnum D T opts ids uri data).1 = (e :: rest).map (Envelope.parseError uri) := by
  have hs := C14_stop_is_first D T μ ids data e rest comp h
  refine ⟨?_, ?_⟩
  · unfold streamEnumMode
    simp only [hμ]
    generalize hp : parseWith D T true μ ids data = p at hs
    obtain ⟨o, c⟩ := p
    simp only at hs
    subst hs
    rfl
  · rw [C17_order_rejected D T opts ids uri data μ hμ (e :: rest) comp h]

/-- Envelope kinds: whatever the mode, a rejected source gives parseError envelopes only, one per
    reported error, each with the uri. -/
theorem C17_mode_rejected_envelopes (D : List Dialect) (T : Table) (stop : Bool) (opts : Opts) (ids : Nat) (uri data : Str)
    (μ : MState) (hμ : MState.init D (lit "en") = some μ) (es : List PErr) (comp : Bool)
    (h : (parseWith D T stop μ ids data).1 = .rejected es comp) :
    streamEnumMode D T stop opts ids uri data =
      (es.map (Envelope.parseError uri), (parseWith D T stop μ ids data).2.ids) := by
  unfold streamEnumMode
  simp only [hμ]
  generalize hp : parseWith D T stop μ ids data = p at h
  obtain ⟨o, c⟩ := p
  simp only at h
  subst h
  rfl

/-- non-vacuity: a rejected English document with two errors; stop mode shows the first only -/
example : (streamEnumMode Gen.dialects Gen.parserTable true ⟨true, true, true⟩ 0 (lit "u") (lit "Feature: f\nScenario: s\nGiven a\nFeature: g\nFeature: h\n")).1.length = 1 ∧
    (streamEnum Gen.dialects Gen.parserTable ⟨true, true, true⟩ 0 (lit "u") (lit "Feature: f\nScenario: s\nGiven a\nFeature: g\nFeature: h\n")).1.length = 2 := by
  kdecide

end GV
