/-
  Props/C17.lean — property C17: stream output is well-formed Cucumber Messages in the
  documented order.  Property theorems only; the shape predicate is Spec/Messages.lean, helper
  lemmas live in Lemmas/StreamShape.lean.

  All theorems are for arbitrary dialect table `D`, parser table `T`, options, counter, uri and
  text.  `μ` is the matcher every `GherkinEvents.enum` call starts from (`TokenMatcher("en")`);
  the model's `.crash` envelope stands for "an exception that is not a parser error escaped
  `enum`" and is not a message.
-/
import GherkinVerif.Lemmas.StreamShape
import GherkinVerif.Gen.Dialects
import GherkinVerif.Gen.ParserTable
import GherkinVerif.KDecide
namespace GV

/-- Order and option gating, accepted source: the stream yields the source envelope, then one
    gherkinDocument envelope, then the pickles in the compiler's order — each group present
    exactly when its option is on, for all 8 combinations — and returns the compiler's counter
    (the parser's when pickles are off).  `hc` is only needed when pickles are printed. -/
theorem C17_order (D : List Dialect) (T : Table) (opts : Opts) (ids : Nat) (uri data : Str)
    (μ : MState) (hμ : MState.init D (lit "en") = some μ) (d : Doc)
    (h : (parseWith D T false μ ids data).1 = .ok d) (ps : List Pickle) (n' : Nat)
    (hc : opts.printPickles = true → compile uri d (parseWith D T false μ ids data).2.ids = some (ps, n')) :
    streamEnum D T opts ids uri data =
      ((if opts.printSource then [Envelope.source uri data] else []) ++
       (if opts.printAst then [Envelope.gherkinDocument uri d] else []) ++
       (if opts.printPickles then ps.map Envelope.pickle else []),
       if opts.printPickles then n' else (parseWith D T false μ ids data).2.ids) :=
  Lemmas.streamEnum_ok_eq D T opts ids uri data μ hμ d h ps n' hc

/-- Rejected source: exactly one parseError envelope per error, in order, nothing else, whatever
    the options; the counter is where the parser left it. -/
theorem C17_order_rejected (D : List Dialect) (T : Table) (opts : Opts) (ids : Nat) (uri data : Str)
    (μ : MState) (hμ : MState.init D (lit "en") = some μ) (es : List PErr) (comp : Bool)
    (h : (parseWith D T false μ ids data).1 = .rejected es comp) :
    streamEnum D T opts ids uri data =
      (es.map (Envelope.parseError uri), (parseWith D T false μ ids data).2.ids) :=
  Lemmas.streamEnum_rejected_eq D T opts ids uri data μ hμ es comp h

/-- The source envelope carries the uri, the text unchanged and the Gherkin media type. -/
theorem C17_source_unchanged (uri data : Str) :
    (Envelope.source uri data).toJ =
      .obj [("source", .obj [("uri", .str uri), ("data", .str data),
                             ("mediaType", .str (lit "text/x.cucumber.gherkin+plain"))])] := rfl

/-- The gherkinDocument envelope is the document's own members followed by the uri. -/
theorem C17_document_uri (uri : Str) (d : Doc) :
    (Envelope.gherkinDocument uri d).toJ =
      .obj [("gherkinDocument", .obj (J.ofOpt "feature" (d.feature.map Feature.toJ) ++
        [("comments", .arr (d.comments.map Comment.toJ)), ("uri", .str uri)]))] :=
  Lemmas.gherkinDocument_toJ uri d

/-- A parseError envelope carries the uri, the error's location and its message
    (`"(line:column): " ++` body, see `C14_message_form`). -/
theorem C17_parseError_fields (uri : Str) (e : PErr) :
    (Envelope.parseError uri e).toJ =
      .obj [("parseError", .obj [("source", .obj [("uri", .str uri), ("location", e.loc.toJ)]),
                                 ("message", .str e.message)])] := rfl

/-- Shape: every envelope other than the explicit crash outcome is a well-shaped message, for
    arbitrary documents, pickles and errors — provided a pickle's step types are not
    `Conjunction` (they are printed from the five-valued keyword type; the pickle vocabulary has
    four values). -/
theorem C17_shape (e : Envelope) (hc : ∀ w, e ≠ .crash w)
    (hp : ∀ p, e = .pickle p → ∀ s ∈ p.steps, s.type ≠ .Conjunction) :
    Spec.wellShaped e.toJ = true :=
  Lemmas.wellShaped_envelope e hc hp

/-- The side condition of `C17_shape` holds for everything the compiler returns, for any document. -/
theorem C17_compile_step_types (uri : Str) (doc : Doc) (n : Nat) (ps : List Pickle) (n' : Nat)
    (h : compile uri doc n = some (ps, n')) :
    ∀ p ∈ ps, ∀ s ∈ p.steps, s.type ≠ .Conjunction :=
  Lemmas.compile_noConj uri doc n ps n' h

/-- Hence every envelope the stream emits for any source, other than the crash outcome, is well shaped. -/
theorem C17_shape_stream (D : List Dialect) (T : Table) (opts : Opts) (ids : Nat) (uri data : Str)
    (e : Envelope) (he : e ∈ (streamEnum D T opts ids uri data).1) (hc : ∀ w, e ≠ .crash w) :
    Spec.wellShaped e.toJ = true :=
  Lemmas.streamEnum_wellShaped D T opts ids uri data e he hc

/-- The vocabularies: any keyword type is a legal `keywordType`; `Conjunction` is not a legal
    pickle step `type` (so the hypothesis of `C17_shape` cannot be dropped). -/
theorem C17_vocabularies :
    (∀ k : KType, Spec.strIn Spec.keywordTypes (.str (lit k.name)) = true) ∧
    Spec.strIn Spec.pickleStepTypes (.str (lit KType.Conjunction.name)) = false :=
  ⟨Lemmas.ktype_in_vocab, Lemmas.conjunction_not_in_pickle_vocab⟩

/-- Locality: in a sequence of sources through one stream, the envelopes of the source at
    position `pre.length` are those of that source alone, started from the counter the earlier
    sources left. -/
theorem C17_locality (D : List Dialect) (T : Table) (opts : Opts) (pre post : List (Str × Str))
    (x : Str × Str) (n : Nat) :
    (streamAll D T opts (pre ++ [x] ++ post) n)[pre.length]? =
      some (streamEnum D T opts (counterAfter D T opts pre n) x.1 x.2).1 :=
  Lemmas.streamAll_locality D T opts pre post x n

/-- Sources are handled in the order given: one group of envelopes per source. -/
theorem C17_in_order (D : List Dialect) (T : Table) (opts : Opts) (srcs : List (Str × Str)) (n : Nat) :
    (streamAll D T opts srcs n).length = srcs.length :=
  Lemmas.streamAll_length D T opts srcs n

/-- … and a sequence can be cut anywhere: the tail behaves as a stream of its own started from
    the running counter. -/
theorem C17_sequence_split (D : List Dialect) (T : Table) (opts : Opts) (pre post : List (Str × Str)) (n : Nat) :
    streamAll D T opts (pre ++ post) n =
      streamAll D T opts pre n ++ streamAll D T opts post (counterAfter D T opts pre n) :=
  Lemmas.streamAll_append D T opts pre post n

/-! ### Non-vacuity -/

/-- a pickle with a table argument and an outline step is well shaped … -/
example : Spec.wellShaped (Envelope.pickle
    { astNodeIds := [3, 7], id := 9, tags := [⟨1, lit "@a"⟩], name := lit "n", language := lit "en",
      steps := [{ astNodeIds := [2, 7], id := 8, type := .Context, text := lit "x",
                  arg := .table [[lit "a", lit "b"]] },
                { astNodeIds := [4], id := 10, type := .Unknown, text := lit "y",
                  arg := .doc (lit "c") (some (lit "json")) }],
      uri := lit "f.feature" }).toJ = true := by decide

/-- … the same pickle with a `Conjunction` step is not (the defect F2 shape). -/
example : Spec.wellShaped (Envelope.pickle
    { astNodeIds := [3], id := 9, tags := [], name := lit "n", language := lit "en",
      steps := [{ astNodeIds := [2], id := 8, type := .Conjunction, text := lit "x", arg := .none }],
      uri := lit "f.feature" }).toJ = false := by decide

/-- a document with a rule, a background and a scenario outline -/
example : Spec.wellShaped (Envelope.gherkinDocument (lit "f.feature")
    { comments := [⟨⟨2, some 1⟩, lit "# c"⟩],
      feature := some
        { tags := [], loc := ⟨1, some 1⟩, language := lit "en", keyword := lit "Feature",
          name := lit "f", description := [],
          children := [.rule
            { id := 6, tags := [⟨5, ⟨2, some 3⟩, lit "@r"⟩], loc := ⟨3, some 3⟩,
              keyword := lit "Rule", name := [], description := [],
              children := [
                .background
                  { id := 1, loc := ⟨4, some 5⟩, keyword := lit "Background", name := [],
                    description := [],
                    steps := [⟨0, ⟨5, some 7⟩, lit "And ", .Conjunction, lit "a", .none⟩] },
                .scenario
                  { id := 4, tags := [], loc := ⟨6, some 5⟩, keyword := lit "Scenario Outline",
                    name := lit "s", description := [], steps := [],
                    examples := [
                      { id := 3, tags := [], loc := ⟨7, some 7⟩, keyword := lit "Examples",
                        name := [], description := [],
                        header := some ⟨2, ⟨8, some 9⟩, [⟨⟨8, some 11⟩, lit "h"⟩]⟩,
                        body := [] }] }] }] } }).toJ = true := by decide

/-- explicit `null`, a missing required field, an unknown field and a repeated key are all rejected -/
example : Spec.wellShaped (.obj [("source", .obj [("uri", .str []), ("data", .null),
    ("mediaType", .str (lit "text/x.cucumber.gherkin+plain"))])]) = false := by decide
example : Spec.wellShaped (.obj [("source", .obj [("uri", .str []),
    ("mediaType", .str (lit "text/x.cucumber.gherkin+plain"))])]) = false := by decide
example : Spec.wellShaped (.obj [("parseError", .obj [("source", .obj [("uri", .str []),
    ("location", .obj [("line", .num 1), ("col", .num 1)])]), ("message", .str [])])]) = false := by decide
example : Spec.wellShaped (.obj [("parseError", .obj [("source", .obj [("uri", .str []), ("uri", .str []),
    ("location", .obj [("line", .num 1)])]), ("message", .str [])])]) = false := by decide
/-- a location without a column (unexpected end of file before any match) is legal -/
example : Spec.wellShaped (Envelope.parseError (lit "u") ⟨.unexpectedEOF, ⟨1, none⟩, lit "m"⟩).toJ = true := by
  decide

/-- end to end on the regenerated tables: a feature whose second step starts with `And` goes
    through scanner, matcher, parser, builder, compiler and stream; source, document and pickle
    envelopes come out, all well shaped (kernel evaluation). -/
example : ((streamEnum Gen.dialects Gen.parserTable ⟨true, true, true⟩ 0 (lit "a.feature")
      (lit "Feature: f\n  Scenario: s\n    Given a\n    And b\n")).1.map
    (fun e => Spec.wellShaped e.toJ)) = [true, true, true] := by kdecide

end GV
