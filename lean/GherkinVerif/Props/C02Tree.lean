/-
  Props/C02Tree.lean — property C02, second sentence: the rule nesting the parser produces is a
  derivation of gherkin.berp.  `Gen.parserTable` is regenerated from the current parser.py and
  `Gen.grammar` from the current gherkin.berp on every run.  Property theorems only; the
  typed-stack checker, its soundness proof and the kernel-checked certificates are in
  Lemmas/TypedStack.lean and Lemmas/C02Tree.lean; the notions used in the statements
  (`treeOf`, `ValidTree`, `ReadsAs`, `TagsAttachForward`) are in Spec/Tree.lean.
-/
import GherkinVerif.Lemmas.C02Tree
namespace GV

/-- For every accepted document (any number of lines) the `start_rule` / `end_rule` / `build`
    events of the run are well bracketed and form a derivation tree of the grammar: every node's
    children — comments and blank lines that the grammar does not consume aside — spell a word of
    that rule's right-hand side (rules without `!` inlined), the root ends with the end-of-file
    line, and the leaves are the document's lines in order, each read as a kind of its fallback
    chain. -/
theorem C02_events_valid_tree (ks : List Kind) (h : Kind.EOF ∉ ks) (evs : List Ev)
    (he : eventsAbs Gen.parserTable ks = some evs) :
    ∃ t, Spec.treeOf evs = some t ∧ Spec.ValidTree Gen.grammar .GherkinDocument t ∧
         Spec.ReadsAs (ks ++ [.EOF]) t.leaves :=
  Lemmas.events_valid_tree ks h evs he

/-- Tags attach forward.  In the tree of an accepted document, wherever a `Tags` node occurs
    among the children of a node `r`: before it there are only lines, and only a `# language`
    header or ignorable ones (comments, blank lines); after it come ignorable lines at most and
    then the thing the tags belong to — `r` is `FeatureHeader` / `RuleHeader` and that is the
    `Feature:` / `Rule:` line, or `r` is `ScenarioDefinition` / `ExamplesDefinition` and that is
    the `Scenario` / `Examples` node.  (See `Spec.TagsAttachForward`.  The `Tags` node is not
    literally the first child of a `FeatureHeader`: a `# language` line and comments may come
    before it, see the last example below.) -/
theorem C02_tags_attach_forward (ks : List Kind) (h : Kind.EOF ∉ ks) (evs : List Ev)
    (he : eventsAbs Gen.parserTable ks = some evs) :
    ∃ t, Spec.treeOf evs = some t ∧ Spec.TagsAttachForward Gen.grammar t := by
  obtain ⟨t, ht, hv, _⟩ := C02_events_valid_tree ks h evs he
  exact ⟨t, ht, Lemmas.tags_attach_forward hv⟩

/-- non-vacuity: the tree of a small accepted document -/
example :
    (eventsAbs Gen.parserTable [.FeatureLine, .TagLine, .ScenarioLine, .StepLine, .TableRow]).bind Spec.treeOf
      = some (.node .GherkinDocument
          [.node .Feature
            [.node .FeatureHeader [.leaf .FeatureLine],
             .node .ScenarioDefinition
               [.node .Tags [.leaf .TagLine],
                .node .Scenario
                  [.leaf .ScenarioLine,
                   .node .Step [.leaf .StepLine, .node .DataTable [.leaf .TableRow]]]]],
           .leaf .EOF]) := by
  rfl

/-- a line that looks like a keyword but is not expected is read as free text (`Other`); a
    comment inside a description belongs to it -/
example :
    (eventsAbs Gen.parserTable [.FeatureLine, .StepLine, .Comment]).bind Spec.treeOf
      = some (.node .GherkinDocument
          [.node .Feature
            [.node .FeatureHeader
              [.leaf .FeatureLine, .node .Description [.leaf .Other, .leaf .Comment]]],
           .leaf .EOF]) := by
  rfl

/-- a `Tags` node is not literally the first child of its `FeatureHeader` -/
example :
    (eventsAbs Gen.parserTable [.Language, .Comment, .TagLine, .FeatureLine]).bind Spec.treeOf
      = some (.node .GherkinDocument
          [.node .Feature
            [.node .FeatureHeader
              [.leaf .Language, .leaf .Comment, .node .Tags [.leaf .TagLine], .leaf .FeatureLine]],
           .leaf .EOF]) := by
  rfl

end GV
