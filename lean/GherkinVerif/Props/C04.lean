/-
  Props/C04.lean — property C04: every reported location is the exact 1-based line and
  code-point column.  Property theorems only; helper lemmas live in Lemmas/Locations.lean.

  All statements are about an arbitrary physical line `l : Str` (any code points: tabs, the 29
  whitespace code points, non-BMP characters, CR/LF endings) and say what is found in `l` at the
  reported column.  `l[c - 1]?` is the code point at 1-based column `c`.

  Two statements needed adjusting to be true of the model (and of the Python code):
    * tag columns are only meaningful for lines whose trimmed text starts with `@` (the only
      lines `match_TagLine` calls `tags` on); without it `lineTags (lit "x@a") = [(1, "@a")]`.
    * known finding F5: a tag's reported name is `@` + the *stripped* text that follows, so the
      source at the tag's column need not start with the name (`"@ a"` gives the name `"@a"`);
      `C04_tag_name_stripped` is the exact relation, `C04_tag_name_partial` the slicing form
      under the hypothesis excluding F5.
  Not proved here: `C04_ast_locations` (every location of the AST is the location of the leaf it
  was built from; needs C03's run-level composition) — checked by the harness slicing oracle.
-/
import GherkinVerif.Lemmas.Locations
import GherkinVerif.KDecide
namespace GV

/-! ### lines -/

/-- Physical lines: the source is split after each line feed and nowhere else — concatenating
    the lines gives back the source, no line is empty, no line has a line feed before its last
    position, and every line except possibly the last ends with a line feed. -/
theorem C04_lines (src : Str) :
    (splitLines src).flatten = src ∧
    (∀ l ∈ splitLines src, l ≠ [] ∧ 10 ∉ l.dropLast) ∧
    (∀ l ∈ (splitLines src).dropLast, l.getLast? = some 10) :=
  ⟨Lemmas.splitLines_flatten src,
   fun l hl => ⟨Lemmas.splitLines_ne_nil src l hl, Lemmas.splitLines_no_inner_lf src l hl⟩,
   Lemmas.splitLines_ends_lf src⟩

/-- Line numbers: a token read from the scanner (nothing queued by a look-ahead) carries the next
    line, numbered one more than the lines read so far; past the last line it is the end-of-file
    token, numbered one more than the number of lines. -/
theorem C04_line_numbers (ctx : Ctx) (hq : ctx.queue = []) :
    readToken.run.run ctx =
      (.ok { line := ctx.lines.head?, lineNo := ctx.lineNo + 1 },
       { ctx with lines := ctx.lines.tail, lineNo := ctx.lineNo + 1 }) :=
  Lemmas.readToken_fresh ctx hq

/-! ### indentation -/

/-- The trimmed line is the line without its first `lineIndent l` code points; those are all
    whitespace and the next one (if any) is not. -/
theorem C04_trimmed_is_drop (l : Str) :
    trimmed l = l.drop (lineIndent l) ∧
    (∀ c ∈ l.take (lineIndent l), isSpace c = true) ∧
    (∀ c, l[lineIndent l]? = some c → isSpace c = false) :=
  ⟨Lemmas.trimmed_eq_drop l, Lemmas.indent_all_space l, Lemmas.indent_next_nonspace l⟩

/-! ### keyword lines, steps, doc-string separators, rows, comments -/

/-- A matched Feature / Rule / Background / Scenario / Examples line: the reported keyword `kw` is
    one of the dialect's keywords for that role, the column is `indent + 1`, and the line from that
    column on starts with `kw` followed by a colon; the token text is the stripped rest. -/
theorem C04_title_col (D : List Dialect) (k : Kind) (kws : List Str) (μ : MState) (t : Token) (l : Str)
    (ht : t.line = some l)
    (hk : (k, kws) ∈ [(Kind.FeatureLine, μ.dialect.feature), (.RuleLine, μ.dialect.rule),
                      (.BackgroundLine, μ.dialect.background),
                      (.ScenarioLine, μ.dialect.scenario ++ μ.dialect.scenarioOutline),
                      (.ExamplesLine, μ.dialect.examples)])
    (hm : (matchLine D k μ t l).res = .matched) :
    ∃ kw c, kw ∈ kws ∧ (matchLine D k μ t l).tok.keyword = some kw ∧
      (matchLine D k μ t l).tok.col = some c ∧ c = lineIndent l + 1 ∧
      startsWith (kw ++ [58]) (l.drop (c - 1)) = true ∧
      (matchLine D k μ t l).tok.mtype = some k ∧
      (matchLine D k μ t l).tok.text = some (rstripCRLF (strip (l.drop (c - 1 + (kw.length + 1))))) :=
  Lemmas.title_col_list D k kws μ t l ht hk hm

/-- A matched step line: the keyword is one of the dialect's step keywords (trailing space
    included), the column is `indent + 1` and the line from there on starts with the keyword. -/
theorem C04_step_col (D : List Dialect) (μ : MState) (t : Token) (l : Str) (ht : t.line = some l)
    (hm : (matchLine D .StepLine μ t l).res = .matched) :
    ∃ kw c, kw ∈ μ.dialect.stepKeywords ∧ (matchLine D .StepLine μ t l).tok.keyword = some kw ∧
      (matchLine D .StepLine μ t l).tok.col = some c ∧ c = lineIndent l + 1 ∧
      startsWith kw (l.drop (c - 1)) = true ∧
      (matchLine D .StepLine μ t l).tok.text = some (rstripCRLF (strip (l.drop (c - 1 + kw.length)))) := by
  obtain ⟨kw, h1, h2, h3, h4, _, h6⟩ := Lemmas.step_col D μ t l ht hm
  exact ⟨kw, _, h1, h3, h4, rfl, h2, by rw [h6, List.drop_drop]; rfl⟩

/-- A matched doc-string separator: the reported delimiter is `"""` or three backticks (or, when
    closing, the active delimiter), the column is `indent + 1` and the line from there on starts
    with the delimiter. -/
theorem C04_docsep_col (D : List Dialect) (μ : MState) (t : Token) (l : Str) (ht : t.line = some l)
    (hm : (matchLine D .DocStringSeparator μ t l).res = .matched) :
    ∃ sep c, (sep = dq3 ∨ sep = bt3 ∨ (μ.activeSep = some sep ∧ sep ≠ [])) ∧
      (matchLine D .DocStringSeparator μ t l).tok.keyword = some sep ∧
      (matchLine D .DocStringSeparator μ t l).tok.col = some c ∧ c = lineIndent l + 1 ∧
      startsWith sep (l.drop (c - 1)) = true := by
  obtain ⟨sep, h1, h2, h3, h4⟩ := Lemmas.docsep_col D μ t l ht hm
  exact ⟨sep, _, h1, h3, h4, rfl, h2⟩

/-- A matched table row: column `indent + 1`, where the leading `|` is; its items are the cells. -/
theorem C04_row_col (D : List Dialect) (μ : MState) (t : Token) (l : Str) (ht : t.line = some l)
    (hm : (matchLine D .TableRow μ t l).res = .matched) :
    (matchLine D .TableRow μ t l).tok.col = some (lineIndent l + 1) ∧
    startsWith [124] (l.drop (lineIndent l)) = true ∧
    (matchLine D .TableRow μ t l).tok.items = tableCells l :=
  Lemmas.row_col D μ t l ht hm

/-- A matched comment has column 1 and its text is the whole physical line (indentation
    included) minus trailing CR/LF; empty lines and free-text lines have column 1 too. -/
theorem C04_comment_col (D : List Dialect) (μ : MState) (t : Token) (l : Str) :
    ((matchLine D .Comment μ t l).res = .matched →
      (matchLine D .Comment μ t l).tok.col = some 1 ∧
      (matchLine D .Comment μ t l).tok.text = some (rstripCRLF l) ∧
      startsWith [35] (l.drop (lineIndent l)) = true) ∧
    ((matchLine D .Empty μ t l).res = .matched → (matchLine D .Empty μ t l).tok.col = some 1) ∧
    (matchLine D .Other μ t l).tok.col = some 1 :=
  ⟨Lemmas.comment_col D μ t l, Lemmas.empty_col D μ t l, Lemmas.other_col D μ t l⟩

/-! ### tags -/

/-- Tags of a line whose trimmed text starts with `@`: each reported column holds an `@` in the
    physical line, is at or after the line's own column, the name starts with `@` and contains no
    whitespace, and the columns are strictly increasing. -/
theorem C04_tag_cols (l : Str) (hs : lineStartsWith l [64] = true) (ts : List (Nat × Str))
    (h : lineTags l = .ok ts) :
    (∀ p ∈ ts, lineIndent l + 1 ≤ p.1 ∧ l[p.1 - 1]? = some 64 ∧ p.2.head? = some 64 ∧
      p.2.any isSpace = false) ∧
    List.Pairwise (· < ·) (ts.map (·.1)) :=
  ⟨(Lemmas.tag_cols l hs ts h).2, (Lemmas.tag_cols l hs ts h).1⟩

/-- … and this is what a matched tag-line token carries (token column = column of the first `@`). -/
theorem C04_tagline_tok (D : List Dialect) (μ : MState) (t : Token) (l : Str) (ht : t.line = some l)
    (hm : (matchLine D .TagLine μ t l).res = .matched) :
    lineStartsWith l [64] = true ∧ lineTags l = .ok (matchLine D .TagLine μ t l).tok.items ∧
    (matchLine D .TagLine μ t l).tok.col = some (lineIndent l + 1) :=
  Lemmas.tagline_tok D μ t l ht hm

/-- The exact relation between a tag's name and the source, for all lines: at the tag's column
    the line reads `@` followed by some text `item`, and the name is `@` + `item` *stripped of
    surrounding whitespace*. -/
theorem C04_tag_name_stripped (l : Str) (hs : lineStartsWith l [64] = true) (ts : List (Nat × Str))
    (h : lineTags l = .ok ts) :
    ∀ p ∈ ts, ∃ item, (64 :: item) <+: l.drop (p.1 - 1) ∧ p.2 = 64 :: strip item :=
  Lemmas.tag_name_stripped l hs ts h

/- Full statement wanted by C04 ("reading the source at that position gives back the tag name"):
     ∀ p ∈ ts, startsWith p.2 (l.drop (p.1 - 1)) = true.
   It is false (known finding F5, witness below): whitespace right after an `@` is dropped from
   the name.  Proved: the statement under the hypothesis that the code point after the `@` is
   not whitespace. -/
/-- If the code point right after a tag's `@` is not whitespace, the line from the tag's column
    on starts with the tag's name. -/
theorem C04_tag_name_partial (l : Str) (hs : lineStartsWith l [64] = true) (ts : List (Nat × Str))
    (h : lineTags l = .ok ts) :
    ∀ p ∈ ts, (∀ ch, l[p.1]? = some ch → isSpace ch = false) →
      startsWith p.2 (l.drop (p.1 - 1)) = true :=
  Lemmas.tag_name_partial l hs ts h

/-- F5 witness: the line `@ a` has the single tag `@a` at column 1, and the line does not start
    with `@a`. -/
example : lineTags (lit "@ a") = .ok [(1, lit "@a")] ∧ startsWith (lit "@a") (lit "@ a") = false := by
  kdecide

/-- The hypothesis `hs` of the tag theorems is needed (it holds whenever `match_TagLine` calls
    `tags`): on a line not starting with `@` the first column is not that of an `@`. -/
example : lineTags (lit "x@a") = .ok [(1, lit "@a")] := by kdecide

/-- A tag containing whitespace: the error column holds the offending tag's `@`, and the text
    after it, stripped, contains whitespace. -/
theorem C04_tag_error_col (l : Str) (hs : lineStartsWith l [64] = true) (c : Nat)
    (h : lineTags l = .error c) :
    lineIndent l + 1 ≤ c ∧ l[c - 1]? = some 64 ∧
    ∃ item, (64 :: item) <+: l.drop (c - 1) ∧ (strip item).any isSpace = true :=
  Lemmas.tag_error_col l hs c h

/-- … and that is the location of the error `match_TagLine` raises. -/
theorem C04_tag_error_loc (D : List Dialect) (μ : MState) (t : Token) (l : Str) (e : PErr)
    (hm : (matchLine D .TagLine μ t l).res = .raised e) :
    lineStartsWith l [64] = true ∧ ∃ c, lineTags l = .error c ∧ e.loc = ⟨t.lineNo, some c⟩ ∧
      e.kind = .tagWhitespace :=
  Lemmas.tagline_raised D μ t l e hm

/-! ### cells -/

/-- Cell columns (stated on the two-phase specification `Spec.cells`, which C12 proves equal to
    `tableCells`): for each cell there are the 0-based position `o` right after its opening `|`
    and the length `len` of its raw text, with the closing `|` at `o + len`; everything from `o`
    up to the reported column is blank, the code point at the reported column is not blank, and
    the reported column is that of the closing `|` exactly when the cell's text is empty — i.e.
    the column points at the first non-blank code point of the raw cell, or at the closing `|`
    when there is none. -/
theorem C04_cell_cols (line : Str) : ∀ p ∈ Spec.cells line, ∃ o len,
    1 ≤ o ∧ line[o - 1]? = some 124 ∧ line[o + len]? = some 124 ∧
    o + 1 ≤ p.1 ∧ p.1 ≤ o + len + 1 ∧
    (∀ j, o ≤ j → j < p.1 - 1 → ∃ ch, line[j]? = some ch ∧ isBlank ch = true) ∧
    (∃ ch, line[p.1 - 1]? = some ch ∧ isBlank ch = false) ∧
    (p.2 = [] ↔ p.1 = o + len + 1) :=
  Lemmas.cell_cols line

/-- Item columns override the token column: a tag or cell with (1-based) column `c` is located at
    the token's line and `c`. -/
theorem C04_item_loc (t : Token) (c : Nat) (hc : 1 ≤ c) :
    getLocation t (some c) = ⟨t.lineNo, some c⟩ ∧ getLocation t = t.loc :=
  ⟨Lemmas.getLocation_item t c hc, rfl⟩

/-! ### errors -/

/-- An unexpected-token error for a line token on which no test matched (no column yet) is at the
    token's line and `indent + 1`; with a column already set (a tag line tested during a failed
    look-ahead) it is that column; for end of file it is the end-of-file token's location. -/
theorem C04_unexpected_loc (row : StateRow) (t : Token) :
    (∀ l, t.line = some l → t.col = none →
      (unexpectedErr row t).loc = ⟨t.lineNo, some (lineIndent l + 1)⟩) ∧
    (∀ l c, t.line = some l → t.col = some c → c ≠ 0 → (unexpectedErr row t).loc = t.loc) ∧
    (t.line = none → (unexpectedErr row t).loc = t.loc ∧ (unexpectedErr row t).kind = .unexpectedEOF) :=
  ⟨fun l hl hc => Lemmas.unexpectedErr_loc_line row t l hl (.inl hc),
   fun l c hl hc h0 => Lemmas.unexpectedErr_loc_line_col row t l hl c hc h0,
   Lemmas.unexpectedErr_loc_eof row t⟩

/-! ### non-vacuity -/

/-- a CRLF source with an unterminated last line -/
example : splitLines (lit "a\r\n\nb") = [lit "a\r\n", lit "\n", lit "b"] := by kdecide

/-- tab + no-break space + em space indentation, a non-BMP character in a tag, a comment -/
example : lineTags ([9, 0xA0, 0x2003] ++ lit "@a𝄞 @b\t@c #x\n") =
    .ok [(4, lit "@a𝄞"), (8, lit "@b"), (11, lit "@c")] := by kdecide

/-- cells: padding, an escaped pipe, an all-blank cell (column of the closing pipe) -/
example : Spec.cells (lit "\t |  a\\|b |   |\n") = [(6, lit "a|b"), (15, [])] := by kdecide

/-- a matched keyword line: column 3 -/
example :
    let d : Dialect := { (default : Dialect) with feature := [lit "Feature", lit "Ability"] }
    let μ : MState := { defaultName := lit "en", name := lit "en", dialect := d }
    let l := lit "\t Ability:  x \r\n"
    let out := matchLine [] .FeatureLine μ { line := some l, lineNo := 1 } l
    out.tok.col = some 3 ∧ out.tok.keyword = some (lit "Ability") ∧ out.tok.text = some (lit "x") := by
  kdecide

end GV
