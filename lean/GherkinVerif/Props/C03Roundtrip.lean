/-
  Props/C03Roundtrip.lean — property C03 "from the document outwards": render → parse.

  Model (Spec/Render.lean): `MFeature` = feature tags, feature keyword, name, scenarios; `MScenario`
  = tags, keyword, name, steps; `MStep` = keyword (with its own trailing blank), text.  `Spec.render`
  writes the canonical layout (one LF-terminated line per element; tag line `@a @b` only when there
  are tags; `kw: name`; steps indented by two blanks).  `Spec.WF d m`: keywords are keywords of their
  role in `d`; names / step texts have no surrounding whitespace and no LF; tags are `@` + code
  points that are neither whitespace nor `@`; for every step the FIRST listed step keyword of `d`
  prefixing `kw ++ text` is `kw` itself.  `Spec.expectedDoc d lang m ids`: the expected AST with
  canonical ids (steps, then tags, then the scenario; feature tags last), line numbers by position,
  columns 1 / 3, keyword types `stepKType d kw` (characterised by `C05_keyword_type`).

  PROVED HERE
  * table facts by the kernel: `C03R_fact_keywords`, `C03R_fact_render` (every keyword of every
    dialect starts with a code point that is not whitespace, `#`, `@`, `|`, `"`, backtick, and
    contains no LF).
  * per-line theorems, every dialect of the table, every matcher state outside a doc string:
    `C03R_title_line`, `C03R_step_line`, `C03R_tag_line` — the rendered line is matched as its kind
    with exactly the expected token (keyword verbatim, stripped text, column, tag columns) —
    and `C03R_title_line_exclusive`, `C03R_step_line_exclusive`, `C03R_tag_line_exclusive` — every
    other specific test (all kinds but `Other`) fails on it, token and matcher untouched.
  * `C03R_split_render`: `splitLines (render m)` is the list of rendered lines.
  * builder: `Lemmas.endRule_step / endRule_scdef / endRule_feature / endRule_doc` compute the
    builder's `end_rule` on the stacks of a rendered document symbolically (expected tags, ids).
  * parser: `Lemmas.try_first`, `Lemmas.try_eof`, `Lemmas.runProds_ok` — forward simulation of one
    `match_token_at_N` of the queue-free parse on a line whose verdicts are known.
  * `C03R_fact_table` (kernel): the table facts `Lemmas.rtFacts` — which branch each of the states
    0, 2, 3, 9, 10, 12 takes on a feature / tag / scenario / step line and at the end of file, with
    their productions and targets, and the two look-aheads.
  * look-ahead: `Lemmas.peek_examples_false`, `Lemmas.peek_scenario_true`, `Lemmas.try_tag0` — a
    scenario's tag line followed by its scenario line fails the look-ahead-1 (`Examples`) guard and
    takes the look-ahead-0 branch.
  * main loop: `Lemmas.lines_step`, `Lemmas.lines_eof`, `Lemmas.feature_head` (state 0 → 3 over the
    feature's tag line and keyword line), `Lemmas.finish` (end of file in state 3 / 10 / 12 given the
    closed `Feature` node), `Lemmas.pure_outcome_of_loop` (main loop → outcome of `parseWithPure`).
  * scenarios: `Lemmas.step_line`, `Lemmas.steps_loop` (the step lines of a scenario, states 10 / 12),
    `Lemmas.insc_closes`, **`Lemmas.scenario_block`** (`Closes s β i fi i0` →
    `Closes s' β' i' (fi ++ [scenario]) (i0 + scIds sc)` over the scenario's tag line, keyword line
    and steps), `Lemmas.scenarios_loop`, `Lemmas.roundtrip_pure` (queue-free parse: outcome and counter).
  * **`C03_roundtrip`**: for every matcher state whose default dialect is in the table, every
    well-formed model, both error modes, every incoming id counter, the parser (with its token
    queue; transfer by `C18_queue_refines_peek`) returns exactly `expectedDoc`.
    **`C03_roundtrip_counter`**: the id counter afterwards is `idsAfter m ids`.
    `C03_roundtrip_init`: the same for a matcher made by `MState.init` (language = the name given).
    `C03_roundtrip_feature_only`: the earlier special case without scenarios (kept).
  Nothing of the core model is left unproved.  Not modelled (extensions not started): descriptions,
  Background, data tables, doc strings, Examples, Rules, comments, `# language:` header.
  * necessity of the WF conditions, by kernel-evaluated counterexamples (section `necessity`).
  * non-vacuity: an English and a French model satisfy `WF`, render to the expected literal text,
    and parse (both error modes) to `expectedDoc` (kernel evaluation).
-/
import GherkinVerif.Lemmas.RoundtripScen
import GherkinVerif.Props.C18Pure
import GherkinVerif.Gen.ParserTable
import GherkinVerif.Gen.Dialects
import GherkinVerif.KDecide
namespace GV
open Spec

/-- the C05 keyword facts (= `C05_dialect_facts`) -/
theorem C03R_fact_keywords : Spec.keywordFacts Gen.dialects = true := by kdecide
/-- every keyword has a plain head (not whitespace, `#`, `@`, `|`, `"`, backtick) and no LF -/
theorem C03R_fact_render : Spec.renderFacts Gen.dialects = true := by kdecide

/-- the rendered text splits into exactly the rendered lines -/
theorem C03R_split_render (bs : List Str) (h : ∀ b ∈ bs, ∀ c ∈ b, c ≠ 10) :
    splitLines (bs.flatMap (· ++ [10])) = bs.map (· ++ [10]) :=
  Lemmas.splitLines_flatMap bs h

/-- a rendered title line `kw: name` is matched as its kind: keyword verbatim, the name, column 1 -/
theorem C03R_title_line (D : List Dialect) (μ : MState) (hμ : μ.dialect ∈ Gen.dialects) (ty : Kind)
    (hty : ty.isTitle = true) (kw name : Str) (hk : kw ∈ μ.dialect.roleKeywords ty)
    (hn : cleanText name = true) (t : Token) (n : Nat)
    (hl : t.line = some (titleLineOf kw name ++ [10])) (hno : t.lineNo = n) :
    matchLine D ty μ t (titleLineOf kw name ++ [10]) = ⟨Lemmas.titleTok μ n ty kw name, μ, .matched⟩ :=
  Lemmas.title_match C03R_fact_keywords C03R_fact_render D μ hμ ty hty kw name hk hn t n hl hno

/-- a rendered step line is matched as a step: keyword verbatim, the text, column 3, `stepKType` -/
theorem C03R_step_line (D : List Dialect) (μ : MState) (hμ : μ.dialect ∈ Gen.dialects) (s : MStep)
    (hs : stepOK μ.dialect s = true) (t : Token) (n : Nat)
    (hl : t.line = some (stepLineOf s ++ [10])) (hno : t.lineNo = n) :
    matchLine D .StepLine μ t (stepLineOf s ++ [10]) = ⟨Lemmas.stepTok μ n s, μ, .matched⟩ :=
  Lemmas.step_match C03R_fact_keywords C03R_fact_render D μ hμ s hs t n hl hno

/-- a rendered tag line is matched as a tag line, every tag at its column -/
theorem C03R_tag_line (D : List Dialect) (μ : MState) (tags : List Str) (hne : tags ≠ [])
    (h : ∀ t ∈ tags, tagOK t = true) (t : Token) (n : Nat)
    (hl : t.line = some (joinWith [32] tags ++ [10])) (hno : t.lineNo = n) :
    matchLine D .TagLine μ t (joinWith [32] tags ++ [10]) = ⟨Lemmas.tagTok μ n tags, μ, .matched⟩ :=
  Lemmas.tag_match D μ tags hne h t n hl hno

/-- … and fails every other specific test -/
theorem C03R_tag_line_exclusive (D : List Dialect) (μ : MState) (hμ : μ.dialect ∈ Gen.dialects)
    (hsep : μ.activeSep = none) (tags : List Str) (hne : tags ≠ []) (h : ∀ t ∈ tags, tagOK t = true)
    (t : Token) (K : Kind) (hK : K ≠ .TagLine) (hO : K ≠ .Other) :
    matchLine D K μ t (joinWith [32] tags ++ [10]) = ⟨t, μ, .no⟩ :=
  Lemmas.tagline_others_no C03R_fact_keywords C03R_fact_render D μ hμ tags hne h hsep t K hK hO

/-- a rendered title line fails every other specific test -/
theorem C03R_title_line_exclusive (D : List Dialect) (μ : MState) (hμ : μ.dialect ∈ Gen.dialects)
    (hsep : μ.activeSep = none) (ty : Kind) (hty : ty.isTitle = true) (kw name : Str)
    (hk : kw ∈ μ.dialect.roleKeywords ty) (hn : cleanText name = true) (t : Token)
    (hl : t.line = some (titleLineOf kw name ++ [10])) (K : Kind) (hK : K ≠ ty) (hO : K ≠ .Other) :
    matchLine D K μ t (titleLineOf kw name ++ [10]) = ⟨t, μ, .no⟩ := by
  have hka : kw ∈ μ.dialect.allKeywords :=
    Lemmas.mem_allKeywords_title (Lemmas.mem_titleKeywords_of_role _ ty kw hk)
  obtain ⟨c, r, htr, hc⟩ := Lemmas.kwline_head C03R_fact_keywords C03R_fact_render μ hμ kw hka []
    ([58] ++ ([32] ++ name) ++ [10]) (by simp)
  have e : titleLineOf kw name ++ [10] = [] ++ kw ++ ([58] ++ ([32] ++ name) ++ [10]) := by simp [titleLineOf]
  rw [← e] at htr
  exact Lemmas.kwline_others_no C03R_fact_keywords C03R_fact_render D μ hμ hsep t _ c r htr hc ty (.inl hty) _ _
    (C03R_title_line D μ hμ ty hty kw name hk hn t t.lineNo hl rfl) K hK hO

/-- a rendered step line fails every other specific test -/
theorem C03R_step_line_exclusive (D : List Dialect) (μ : MState) (hμ : μ.dialect ∈ Gen.dialects)
    (hsep : μ.activeSep = none) (s : MStep) (hs : stepOK μ.dialect s = true) (t : Token)
    (hl : t.line = some (stepLineOf s ++ [10])) (K : Kind) (hK : K ≠ .StepLine) (hO : K ≠ .Other) :
    matchLine D K μ t (stepLineOf s ++ [10]) = ⟨t, μ, .no⟩ := by
  have hkm : s.kw ∈ μ.dialect.stepKeywords := by
    simp only [stepOK, Bool.and_eq_true, beq_iff_eq, firstStepKeyword] at hs
    exact List.mem_of_find?_eq_some hs.1
  obtain ⟨c, r, htr, hc⟩ := Lemmas.kwline_head C03R_fact_keywords C03R_fact_render μ hμ s.kw
    (Lemmas.mem_allKeywords_step hkm) [32, 32] (s.text ++ [10])
    (by intro c hc; simp at hc; subst hc; exact Lemmas.isSpace_32)
  have e : stepLineOf s ++ [10] = [32, 32] ++ s.kw ++ (s.text ++ [10]) := by simp [stepLineOf]
  rw [← e] at htr
  exact Lemmas.kwline_others_no C03R_fact_keywords C03R_fact_render D μ hμ hsep t _ c r htr hc .StepLine (.inr rfl) _ _
    (C03R_step_line D μ hμ s hs t t.lineNo hl rfl) K hK hO

/-- the parser-table facts of the round trip (`Lemmas.rtFacts`): the two look-aheads; in states 3, 10
    and 12 the `ScenarioLine`, look-ahead-0 `TagLine` and `EOF` branches close what is open and then
    open the scenario / finish the feature; the step branches of states 10 and 12; the scenario
    branch of state 9; the feature's branches in states 0 and 2 -/
theorem C03R_fact_table : Lemmas.rtFacts Gen.parserTable = true := by kdecide

/-- **Round trip for a feature without scenarios** (tag line optional), the parser with its token
    queue, both error modes, any incoming matcher state whose default dialect is in the table, any
    incoming id counter: rendering a well-formed model and parsing it yields exactly the expected
    document.  (Queue-free parse: `Lemmas.roundtrip_feature_only_pure`; transfer: C18.) -/
theorem C03_roundtrip_feature_only (stop : Bool) (μ : MState)
    (hμ : (μ.reset Gen.dialects).dialect ∈ Gen.dialects) (ids : Nat) (m : MFeature)
    (hwf : WF (μ.reset Gen.dialects).dialect m = true) (hs : m.scenarios = []) :
    (parseWith Gen.dialects Gen.parserTable stop μ ids (render m)).1 =
      .ok (expectedDoc (μ.reset Gen.dialects).dialect (μ.reset Gen.dialects).name m ids) := by
  have h := C18_queue_refines_peek stop μ ids (render m) hμ
  have ho : (parseWith Gen.dialects Gen.parserTable stop μ ids (render m)).1 =
      (Spec.parseWithPure Gen.dialects Gen.parserTable stop μ ids (render m)).1 :=
    congrArg Spec.Observed.outcome h
  rw [ho]
  exact Lemmas.roundtrip_feature_only_pure C03R_fact_keywords C03R_fact_render Gen.dialects Gen.parserTable
    (Lemmas.RtTable.of_facts C03R_fact_table) stop μ hμ ids m hwf hs

/-- **C03, round trip.**  Rendering a well-formed model and parsing the text yields exactly the
    expected document: every feature, scenario, step and tag of the model once, under the right
    parent, in order, keywords as written, names and texts verbatim, canonical ids, exact locations,
    nothing else.  Every matcher state whose default dialect is in the table, both error modes,
    every incoming id counter. -/
theorem C03_roundtrip (stop : Bool) (μ : MState)
    (hμ : (μ.reset Gen.dialects).dialect ∈ Gen.dialects) (ids : Nat) (m : MFeature)
    (hwf : WF (μ.reset Gen.dialects).dialect m = true) :
    (parseWith Gen.dialects Gen.parserTable stop μ ids (render m)).1 =
      .ok (expectedDoc (μ.reset Gen.dialects).dialect (μ.reset Gen.dialects).name m ids) := by
  obtain ⟨ho, -⟩ := C18_queue_refines_peek_fields stop μ ids (render m) hμ
  rw [ho]
  exact (Lemmas.roundtrip_pure C03R_fact_keywords C03R_fact_render Gen.dialects Gen.parserTable
    (Lemmas.RtTable.of_facts C03R_fact_table) stop μ hμ ids m hwf).1

/-- … and the id counter after the parse is the predicted one: one id per step, tag and scenario. -/
theorem C03_roundtrip_counter (stop : Bool) (μ : MState)
    (hμ : (μ.reset Gen.dialects).dialect ∈ Gen.dialects) (ids : Nat) (m : MFeature)
    (hwf : WF (μ.reset Gen.dialects).dialect m = true) :
    (parseWith Gen.dialects Gen.parserTable stop μ ids (render m)).2.ids = idsAfter m ids := by
  obtain ⟨-, -, -, -, -, -, hi, -⟩ := C18_queue_refines_peek_fields stop μ ids (render m) hμ
  rw [hi]
  exact (Lemmas.roundtrip_pure C03R_fact_keywords C03R_fact_render Gen.dialects Gen.parserTable
    (Lemmas.RtTable.of_facts C03R_fact_table) stop μ hμ ids m hwf).2

/-- For a matcher made by `TokenMatcher(name)`: the dialect is the one found under `name`, the
    reported language is `name`. -/
theorem C03_roundtrip_init (stop : Bool) (name : Str) (μ : MState) (d : Dialect)
    (hd : findDialect Gen.dialects name = some d) (hinit : MState.init Gen.dialects name = some μ)
    (ids : Nat) (m : MFeature) (hwf : WF d m = true) :
    (parseWith Gen.dialects Gen.parserTable stop μ ids (render m)).1 = .ok (expectedDoc d name m ids) := by
  have hμe : μ = { defaultName := name, name := name, dialect := d } := by
    simp only [MState.init, hd, Option.map_some, Option.some.injEq] at hinit
    exact hinit.symm
  have hreset : μ.reset Gen.dialects = μ := by subst hμe; simp [MState.reset]
  have hdm : d ∈ Gen.dialects := (Lemmas.findDialect_some Gen.dialects name d hd).1
  have h := C03_roundtrip stop μ (by rw [hreset, hμe]; exact hdm) ids m (by rw [hreset, hμe]; exact hwf)
  rw [hreset, hμe] at h
  rw [hμe]
  exact h

/-! ### non-vacuity -/
section examples

def C03R_demoEn : MFeature :=
  { tags := [lit "@f1", lit "@f2"], kw := lit "Feature", name := lit "My feature",
    scenarios := [
      { tags := [], kw := lit "Scenario", name := lit "first",
        steps := [⟨lit "Given ", lit "a"⟩, ⟨lit "When ", lit "b c"⟩, ⟨lit "Then ", lit "d"⟩] },
      { tags := [lit "@x", lit "@yy#1"], kw := lit "Scenario Outline", name := [],
        steps := [⟨lit "* ", lit "e"⟩, ⟨lit "And ", lit ""⟩] },
      { tags := [lit "@z"], kw := lit "Example", name := lit "none", steps := [] }] }

def C03R_demoFr : MFeature :=
  { tags := [], kw := lit "Fonctionnalité", name := lit "Un titre",
    scenarios := [
      { tags := [lit "@é"], kw := lit "Scénario", name := lit "s",
        steps := [⟨lit "Soit ", lit "x"⟩, ⟨lit "Quand ", lit "y"⟩, ⟨lit "Alors ", lit "z"⟩, ⟨lit "Et ", lit "w"⟩] }] }

/-- the decoder for test drivers builds the same model -/
example : MFeature.ofStrings ["@f1", "@f2"] "Feature" "My feature"
    [([], "Scenario", "first", [("Given ", "a"), ("When ", "b c"), ("Then ", "d")]),
     (["@x", "@yy#1"], "Scenario Outline", "", [("* ", "e"), ("And ", "")]),
     (["@z"], "Example", "none", [])] = C03R_demoEn := by kdecide

def C03R_okDoc (o : Outcome) : Option Doc := match o with | .ok d => some d | _ => none

/-- the English model: well formed, rendered literally, parsed (both modes, counter 7) to the
    expected document, counter afterwards as predicted -/
example : (MState.init Gen.dialects (lit "en")).map (fun μ =>
    (WF μ.dialect C03R_demoEn,
     render C03R_demoEn == lit "@f1 @f2\nFeature: My feature\nScenario: first\n  Given a\n  When b c\n  Then d\n@x @yy#1\nScenario Outline: \n  * e\n  And \n@z\nExample: none\n",
     decide (C03R_okDoc (parseWith Gen.dialects Gen.parserTable false μ 7 (render C03R_demoEn)).1 =
       some (expectedDoc μ.dialect μ.name C03R_demoEn 7)),
     decide (C03R_okDoc (parseWith Gen.dialects Gen.parserTable true μ 7 (render C03R_demoEn)).1 =
       some (expectedDoc μ.dialect μ.name C03R_demoEn 7)),
     (parseWith Gen.dialects Gen.parserTable true μ 7 (render C03R_demoEn)).2.ids == idsAfter C03R_demoEn 7)) =
    some (true, true, true, true, true) := by kdecide

/-- the French model under a French matcher -/
example : (MState.init Gen.dialects (lit "fr")).map (fun μ =>
    (WF μ.dialect C03R_demoFr,
     render C03R_demoFr == lit "Fonctionnalité: Un titre\n@é\nScénario: s\n  Soit x\n  Quand y\n  Alors z\n  Et w\n",
     decide (C03R_okDoc (parseWith Gen.dialects Gen.parserTable false μ 0 (render C03R_demoFr)).1 =
       some (expectedDoc μ.dialect μ.name C03R_demoFr 0)))) =
    some (true, true, true) := by kdecide

end examples

/-! ### necessity of the well-formedness conditions (kernel-evaluated counterexamples) -/
section necessity

def C03R_sc1 (st : MStep) : MScenario := { tags := [], kw := lit "Scenario", name := lit "s", steps := [st] }

def C03R_variant (f : MFeature → MFeature) : Option (Bool × Bool) :=
  (MState.init Gen.dialects (lit "en")).map fun μ =>
    let m := f { tags := [], kw := lit "Feature", name := lit "f",
                 scenarios := [{ tags := [], kw := lit "Scenario", name := lit "s", steps := [⟨lit "Given ", lit "x"⟩] }] }
    (WF μ.dialect m,
     decide (C03R_okDoc (parseWith Gen.dialects Gen.parserTable false μ 0 (render m)).1 =
       some (expectedDoc μ.dialect μ.name m 0)))

/-- the base model round-trips -/
example : C03R_variant id = some (true, true) := by kdecide
/-- a name with a trailing blank: not WF, and the parse reports the stripped name -/
example : C03R_variant (fun m => { m with name := lit "f " }) = some (false, false) := by kdecide
/-- a name containing LF: the line breaks -/
example : C03R_variant (fun m => { m with name := lit "f\ng" }) = some (false, false) := by kdecide
/-- a tag with a blank inside (the matcher raises) and a tag containing `@` (split in two) -/
example : C03R_variant (fun m => { m with tags := [lit "@a b"] }) = some (false, false) := by kdecide
example : C03R_variant (fun m => { m with tags := [lit "@a@b"] }) = some (false, false) := by kdecide
/-- a keyword of another role / no keyword -/
example : C03R_variant (fun m => { m with kw := lit "Scenario" }) = some (false, false) := by kdecide
/-- first-prefix rule: in `en-old`-like situations an earlier keyword shadows; in English the step
    `"*"`-free example: keyword `"Given"` without its blank is not a keyword -/
example : C03R_variant (fun m => { m with scenarios := [C03R_sc1 ⟨lit "Given", lit "x"⟩] }) = some (false, false) := by kdecide
/-- a step text with a leading blank is reported stripped -/
example : C03R_variant (fun m => { m with scenarios := [C03R_sc1 ⟨lit "Given ", lit " x"⟩] }) = some (false, false) := by kdecide

/-- the first-prefix condition proper: Slovak lists `"A "` before `"A tiež "`; a model step with
    keyword `"A tiež "` is not WF and is reported with keyword `"A "` -/
example : (MState.init Gen.dialects (lit "sk")).map (fun μ =>
    (stepOK μ.dialect ⟨lit "A tiež ", lit "x"⟩, stepOK μ.dialect ⟨lit "A ", lit "tiež x"⟩,
     (matchLine Gen.dialects .StepLine μ ⟨some (lit "  A tiež x\n"), 1, none, none, none, none, none, 0, [], []⟩
        (lit "  A tiež x\n")).tok.keyword)) = some (false, true, some (lit "A ")) := by kdecide

end necessity

end GV
