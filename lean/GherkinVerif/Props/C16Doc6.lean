/-
  Props/C16Doc6.lean — property C16, goal G3, inserting a comment line: ALL CASES (PROVED).

  `C16_comment_line_document_all`: the conclusion of `C16_comment_line_document` (Props/C16Doc4.lean) —
  outcome of `src'` = `insertComment k ⟨⟨k+1, 1⟩, rstripCRLF c⟩` of the renamed outcome of `src` — holds
  for both error modes, accepted or rejected documents, any incoming matcher state and id counter,
  whenever `c` is a `#` line, not a language header where it is inserted, and the state `s` of the
  original run after `k` lines
    (a) has a comment test that builds and stays                         (proved in C16Doc4), or
    (b) opens the description with a comment (`Spec.commentOpensDescription`: directly after a
        `Feature:` / `Rule:` / `Background:` / `Scenario:` / `Examples:` line) and line `k+1` does not
        exist or is not blank (`Spec.nextLineNotBlank`) — i.e. line `k+1` is
        (b1) description text or a comment                               (proved in C16Doc5), or
        (b2) a step / keyword / tag / table-row line, or `k` is the end of the text   (NEW, this file).
  `C16_comment_line_document_all_context` is the statement about the final contexts,
  `C16_comment_line_text3` the text form, taking exactly the Boolean `Spec.commentLineOk3B`.
  The hypothesis "not blank" is needed: last example (a blank line behind the comment becomes
  description text).  Nothing of the conjecture remains unproved.

  HOW (b2) IS PROVED.  The second run opens a `Description` node for the comment and closes it EMPTY
  with the next line; the node that was open in state `s` thereby receives an item
  `(.rule .Description, .descr "")` which the first run does not have.
   1. Builder level (Lemmas/LayoutDoc6Builder.lean): the relation `BD` ("equal up to such extra items");
      `transform_node` yields the same ids, errors and typed values; `BD.result`: EQUAL documents.
   2. The side condition of `BD.endRule` — a node never receives a SECOND `Description` item — is an
      instance of a unary invariant of every run, an abstract interpretation of the builder's stack of
      open nodes by rule type and `Description` flag: `Spec.descStacksOk` (Spec/LayoutChecks6.lean),
      CHECKED on the generated table (`C16_fact_descStacks`) and PROVED SOUND as a loop invariant of the
      queue-free parse (Lemmas/LayoutDoc6Flags.lean; here `C16_descStacks_sound`,
      `C16_descOpening_top_noDescription`, `C16_no_second_description`).
      NOTE on `Spec.descFlagsOk` (Spec/LayoutChecks4.lean, `C16_fact_descFlags` below): that abstraction
      keeps flags only and takes the rule type of the node an `end_ X` closes from the production; the
      builder's `end_rule` ignores its argument and files the node under its own rule type, so flags
      alone are not an inductive invariant of the MODEL.  `descStacksOk` carries the rule types along and
      checks in addition that every `end_ X` of the table closes an `X` node.  `descFlagsOk` is kept as a
      checked fact but is not used by the proof.
   3. The step for line `k+1` (Lemmas/LayoutDoc6Step.lean, table fact `Spec.descRowsOk`,
      `C16_fact_descRows`): the description state has the tests of the description-opening state, minus
      `Empty`, with productions `end_ Description :: ps` for `ps`, same guards, same targets; the error
      tail of the description-opening state is not reachable (`Other` and `EOF` are tested unguarded).
   4. Three runs (Lemmas/LayoutDoc6Doc.lean): first run ~ a hypothetical middle run (the second run's
      context with the builder state without the extra items; `CtxR`, simulation of LayoutDoc4) ~
      second run (same program, same text, `BD` in the builder: Lemmas/LayoutDoc6Sim.lean; matchers and
      look-aheads do not depend on the builder: Lemmas/LayoutDoc6Indep.lean).  The end of the text is the
      same step with the `EOF` token.
-/
import GherkinVerif.KDecide
import GherkinVerif.Props.C16Doc5
import GherkinVerif.Spec.LayoutChecks4
import GherkinVerif.Lemmas.LayoutDoc6Builder
import GherkinVerif.Lemmas.LayoutDoc6Doc
namespace GV
open Lemmas Layout3 Layout4 Layout5 Layout6

/-- an empty `Description` item in a node without one is invisible to `transform_node`: same ids
    consumed, same errors, and values equal up to such items in raw header nodes -/
theorem C16_emptyDescription_invisible (cs : List Comment) (rt : RuleType) (xs : List (Key × Val))
    (h : getItems xs (.rule .Description) = []) :
    BSim ValD (transformNode cs ⟨rt, xs⟩) (transformNode cs ⟨rt, (.rule .Description, .descr []) :: xs⟩) :=
  transformNode_D cs rt (.extraD (.refl xs) h)

/-- … and to the document: builder states related by `BD` give the same result -/
theorem C16_emptyDescription_result {β1 β2 : BState} (h : BD β1 β2) : β2.result = β1.result := h.result

/-- TABLE FACT (flags only; not used by the proof, see the header): the generated table has an inductive flag assignment — no production ever puts a
    second `Description` item into a node, and in the eight description-opening states the open node
    has none -/
theorem C16_fact_descFlags :
    Spec.descFlagsOk Gen.parserTable (Spec.computeDescFlags Gen.parserTable 4) = true := by kdecide


/-- TABLE FACT (the abstraction the proof uses): an inductive assignment of abstract stacks — rule
    type and `Description` flag of every open node — to the states of the generated table; every
    `end_ X` closes an `X` node and never puts a second `Description` item into a node -/
theorem C16_fact_descStacks :
    Spec.descStacksOk Gen.parserTable (Spec.computeDescStacks Gen.parserTable 4) = true := by kdecide

/-- TABLE FACT: every description-opening state of the generated table matches its description
    state test by test (`end_ Description :: ps` for `ps`), and catches every token -/
theorem C16_fact_descRows : Spec.descRowsOk Gen.parserTable = true := by kdecide

/-- **Soundness of the abstract interpretation** (run invariant): after any number of lines of any
    text, in either error mode, from any matcher state and id counter, the builder's open nodes have
    the rule types the table fact assigns to the state reached, and a node flagged `false` holds no
    `Description` item -/
theorem C16_descStacks_sound (stop : Bool) (μ : MState) (ids : Nat) (src : Str) (k s : Nat) (c : Ctx)
    (hr : Spec.runAfter Gen.dialects Gen.parserTable stop μ ids src k = some (s, c)) :
    StackA c.β.stack (Spec.absAt (Spec.computeDescStacks Gen.parserTable 4) s) :=
  descStacks_sound C16_fact_descStacks stop μ ids src k s c hr

/-- … in a description-opening state the open top node holds no `Description` item -/
theorem C16_descOpening_top_noDescription (stop : Bool) (μ : MState) (ids : Nat) (src : Str) (k s : Nat) (c : Ctx)
    (hr : Spec.runAfter Gen.dialects Gen.parserTable stop μ ids src k = some (s, c))
    (hs : Spec.commentOpensDescription Gen.parserTable s = true) :
    ∃ top rest, c.β.stack = top :: rest ∧ getItems top.items (.rule .Description) = [] :=
  descOpening_top_noDescription C16_fact_descStacks stop μ ids src k s c hr hs

/-- … and no node ever receives a second `Description` item: whenever the main loop stands in a state
    with an open `Description` node on top, the node below holds no `Description` item (and the
    productions of every branch keep it so: `Layout6.endRule_safe`, `Layout6.stackA_runProds`) -/
theorem C16_no_second_description (stop : Bool) (μ : MState) (ids : Nat) (src : Str) (k s : Nat) (c : Ctx)
    (hr : Spec.runAfter Gen.dialects Gen.parserTable stop μ ids src k = some (s, c)) :
    ∀ a b rest, c.β.stack = a :: b :: rest → a.rt = .Description → getItems b.items (.rule .Description) = [] :=
  topOk_safe (C16_descStacks_sound stop μ ids src k s c hr) (topOkA_absAt C16_fact_descStacks s)

/-- Generic form, for every dialect table and transition table passing the Boolean checks. -/
theorem C16_comment_line_document_all_generic (D : List Dialect) (T : Table)
    (hD : Spec.stepKeywordsOk D = true) (hQD : Spec.queueDialectFacts D = true)
    (hQT : Spec.queueFacts T = true) (hCB : Spec.commentBlankTested T = true)
    (hLA : Spec.lookaheadsCommentOk T = true) (ds : List (Nat × Nat)) (hds : Spec.depthsOk T ds = true)
    (hps : Spec.prodsOk T ds = true) (fl : List (Nat × List Spec.ANode)) (hF : Spec.descStacksOk T fl = true)
    (hR : Spec.descRowsOk T = true)
    (stop : Bool) (μ : MState) (ids : Nat) (src src' : Str) (pre post : List Str) (c : Str)
    (hc : lineStartsWith c [35] = true)
    (h1 : splitLines src = pre ++ post) (h2 : splitLines src' = pre ++ c :: post)
    (hμ : (μ.reset D).dialect ∈ D)
    (hst : ∀ s, Spec.stateAfter D T stop μ ids src pre.length = some s →
      (Spec.languageTested T s = true → languageRe (lineText c none) = none) ∧
      (Spec.commentSelfLoop T s = true ∨
        (Spec.commentOpensDescription T s = true ∧ Spec.nextLineNotBlank D T stop μ ids src pre.length = true))) :
    (parseWith D T stop μ ids src').1 =
      Spec.insertComment pre.length ⟨⟨pre.length + 1, some 1⟩, rstripCRLF c⟩
        (Spec.mapOutcome (Spec.insertMap pre.length) (parseWith D T stop μ ids src).1) ∧
    C16_MappedContext (Spec.insertMap pre.length) (parseWith D T stop μ ids src).2 (parseWith D T stop μ ids src').2 := by
  obtain ⟨h, hc'⟩ := comment_line_parseWith3 hD hQD hQT hCB (tableOkC_of_facts hLA hds hps) hF hR hc stop μ ids
    pre post h1 h2 hμ hst
  exact ⟨h, hc'.errors, hc'.μ, hc'.ids, hc'.unexpected⟩

/-- **Inserting a comment line adds that comment and changes only line numbers** — all cases.  If the
    state in which the original run stands after the first `pre.length` lines does not read `c` as a
    language header and has a comment test that builds and stays, or opens the description with a
    comment and the next line is not blank (or the text ends there), then the outcome of the text
    with the `#` line `c` inserted there — document, or error list — is the original outcome with the
    line numbers `> pre.length` increased by one and, for a document, the comment added at its place. -/
theorem C16_comment_line_document_all (stop : Bool) (μ : MState) (ids : Nat) (src src' : Str)
    (pre post : List Str) (c : Str) (hc : lineStartsWith c [35] = true)
    (h1 : splitLines src = pre ++ post) (h2 : splitLines src' = pre ++ c :: post)
    (hμ : (μ.reset Gen.dialects).dialect ∈ Gen.dialects)
    (hst : ∀ s, Spec.stateAfter Gen.dialects Gen.parserTable stop μ ids src pre.length = some s →
      (Spec.languageTested Gen.parserTable s = true → languageRe (lineText c none) = none) ∧
      (Spec.commentSelfLoop Gen.parserTable s = true ∨
        (Spec.commentOpensDescription Gen.parserTable s = true ∧
          Spec.nextLineNotBlank Gen.dialects Gen.parserTable stop μ ids src pre.length = true))) :
    (parseWith Gen.dialects Gen.parserTable stop μ ids src').1 =
      Spec.insertComment pre.length ⟨⟨pre.length + 1, some 1⟩, rstripCRLF c⟩
        (Spec.mapOutcome (Spec.insertMap pre.length) (parseWith Gen.dialects Gen.parserTable stop μ ids src).1) :=
  (C16_comment_line_document_all_generic _ _ C16_step_keywords_ok C18_fact_keywords C18_fact_queue
    C18_fact_comment_blank C16_fact_lookaheads_comment _ C16_fact_depths C16_fact_prods _ C16_fact_descStacks
    C16_fact_descRows stop μ ids src src' pre post c hc h1 h2 hμ hst).1

/-- … and the final contexts: errors renamed, same matcher state, same id counter -/
theorem C16_comment_line_document_all_context (stop : Bool) (μ : MState) (ids : Nat) (src src' : Str)
    (pre post : List Str) (c : Str) (hc : lineStartsWith c [35] = true)
    (h1 : splitLines src = pre ++ post) (h2 : splitLines src' = pre ++ c :: post)
    (hμ : (μ.reset Gen.dialects).dialect ∈ Gen.dialects)
    (hst : ∀ s, Spec.stateAfter Gen.dialects Gen.parserTable stop μ ids src pre.length = some s →
      (Spec.languageTested Gen.parserTable s = true → languageRe (lineText c none) = none) ∧
      (Spec.commentSelfLoop Gen.parserTable s = true ∨
        (Spec.commentOpensDescription Gen.parserTable s = true ∧
          Spec.nextLineNotBlank Gen.dialects Gen.parserTable stop μ ids src pre.length = true))) :
    C16_MappedContext (Spec.insertMap pre.length) (parseWith Gen.dialects Gen.parserTable stop μ ids src).2
      (parseWith Gen.dialects Gen.parserTable stop μ ids src').2 :=
  (C16_comment_line_document_all_generic _ _ C16_step_keywords_ok C18_fact_keywords C18_fact_queue
    C18_fact_comment_blank C16_fact_lookaheads_comment _ C16_fact_depths C16_fact_prods _ C16_fact_descStacks
    C16_fact_descRows stop μ ids src src' pre post c hc h1 h2 hμ hst).2

/-- **The text form**, taking exactly the Boolean `Spec.commentLineOk3B` a driver can evaluate: the
    text `s1 ++ c ++ "\n" ++ s2` (`s1` empty or ending in a line feed, `c` without line feed) against
    `s1 ++ s2`. -/
theorem C16_comment_line_text3 (stop : Bool) (μ : MState) (ids : Nat) (s1 s2 c : Str)
    (hs1 : s1 = [] ∨ s1.getLast? = some 10) (hlf : 10 ∉ c)
    (hμ : (μ.reset Gen.dialects).dialect ∈ Gen.dialects)
    (hok : Spec.commentLineOk3B Gen.dialects Gen.parserTable stop μ ids (s1 ++ s2) (splitLines s1).length
      (c ++ [10]) = true) :
    (parseWith Gen.dialects Gen.parserTable stop μ ids (s1 ++ (c ++ [10]) ++ s2)).1 =
      Spec.insertComment (splitLines s1).length ⟨⟨(splitLines s1).length + 1, some 1⟩, rstripCRLF (c ++ [10])⟩
        (Spec.mapOutcome (Spec.insertMap (splitLines s1).length)
          (parseWith Gen.dialects Gen.parserTable stop μ ids (s1 ++ s2)).1) := by
  unfold Spec.commentLineOk3B at hok
  simp only [Bool.and_eq_true] at hok
  obtain ⟨hc, hst⟩ := hok
  refine C16_comment_line_document_all stop μ ids (s1 ++ s2) (s1 ++ (c ++ [10]) ++ s2) (splitLines s1)
    (splitLines s2) (c ++ [10]) hc (splitLines_append_of_lf s1 s2 hs1) ?_ hμ fun s hs => ?_
  · rw [List.append_assoc, splitLines_append_of_lf s1 _ hs1,
      splitLines_append_of_lf (c ++ [10]) s2 (.inr (by simp)), splitLines_one_line c hlf]
    rfl
  · rw [hs] at hst
    simp only [Bool.and_eq_true, Bool.or_eq_true, Bool.not_eq_true', Option.isNone_iff_eq_none] at hst
    obtain ⟨hl, hp⟩ := hst
    refine ⟨fun h => ?_, ?_⟩
    · rcases hl with h' | h'
      · rw [h'] at h; cases h
      · exact h'
    · rcases hp with h' | ⟨h1', h2'⟩
      · exact .inl h'
      · exact .inr ⟨h1', h2'⟩

/-! ### kernel-checked instances (non-vacuity) and the counterexample for a blank line -/

/-- equality of outcomes as a Boolean (accepted documents; rejections by their errors) -/
def C16_sameOutcomeB : Outcome → Outcome → Bool
  | .ok d1, .ok d2 => decide (d1 = d2)
  | .rejected e1 b1, .rejected e2 b2 => e1.map (fun e => (e.loc, e.message)) == e2.map (fun e => (e.loc, e.message)) && b1 == b2
  | _, _ => false

/-- the conclusion of `C16_comment_line_document_all` for `#n` inserted after line `k`, as a Boolean -/
def C16_commentConclusionB (stop : Bool) (μ : MState) (src src' : Str) (k : Nat) : Bool :=
  C16_sameOutcomeB (parseWith Gen.dialects Gen.parserTable stop μ 0 src').1
    (Spec.insertComment k ⟨⟨k + 1, some 1⟩, lit "#n"⟩
      (Spec.mapOutcome (Spec.insertMap k) (parseWith Gen.dialects Gen.parserTable stop μ 0 src).1))

/-- case (b2): a step follows the scenario line; the text ends after the feature line; a tag line
    follows the feature description-opening state; a table row follows `Examples:` — the old check
    fails, the new one holds, and so does the conclusion -/
example : (MState.init Gen.dialects (lit "en")).map (fun μ =>
      [(Spec.commentLineOk2B Gen.dialects Gen.parserTable false μ 0 (lit "Feature: f\nScenario: s\nGiven x\n") 2 (lit "#n\n"),
        Spec.commentLineOk3B Gen.dialects Gen.parserTable false μ 0 (lit "Feature: f\nScenario: s\nGiven x\n") 2 (lit "#n\n"),
        C16_commentConclusionB false μ (lit "Feature: f\nScenario: s\nGiven x\n") (lit "Feature: f\nScenario: s\n#n\nGiven x\n") 2),
       (Spec.commentLineOk2B Gen.dialects Gen.parserTable false μ 0 (lit "Feature: f\n") 1 (lit "#n\n"),
        Spec.commentLineOk3B Gen.dialects Gen.parserTable false μ 0 (lit "Feature: f\n") 1 (lit "#n\n"),
        C16_commentConclusionB false μ (lit "Feature: f\n") (lit "Feature: f\n#n\n") 1),
       (Spec.commentLineOk2B Gen.dialects Gen.parserTable false μ 0 (lit "Feature: f\n@t\nScenario: s\n") 1 (lit "#n\n"),
        Spec.commentLineOk3B Gen.dialects Gen.parserTable false μ 0 (lit "Feature: f\n@t\nScenario: s\n") 1 (lit "#n\n"),
        C16_commentConclusionB false μ (lit "Feature: f\n@t\nScenario: s\n") (lit "Feature: f\n#n\n@t\nScenario: s\n") 1)]) =
    some [(false, true, true), (false, true, true), (false, true, true)] := by kdecide

example : (MState.init Gen.dialects (lit "en")).map (fun μ =>
      let a := lit "Feature: f\nScenario Outline: s\nGiven <x>\nExamples:\n|x|\n|1|\n"
      let a' := lit "Feature: f\nScenario Outline: s\nGiven <x>\nExamples:\n#n\n|x|\n|1|\n"
      (Spec.commentLineOk2B Gen.dialects Gen.parserTable true μ 0 a 4 (lit "#n\n"),
       Spec.commentLineOk3B Gen.dialects Gen.parserTable true μ 0 a 4 (lit "#n\n"),
       C16_commentConclusionB true μ a a' 4)) = some (false, true, true) := by kdecide

/-- a rejected document (collecting mode): the comment after the scenario line, an unexpected line
    behind — the errors move down -/
example : (MState.init Gen.dialects (lit "en")).map (fun μ =>
      let a := lit "Feature: f\nScenario: s\nGiven x\nFeature: g\n"
      let a' := lit "Feature: f\nScenario: s\n#n\nGiven x\nFeature: g\n"
      (Spec.commentLineOk3B Gen.dialects Gen.parserTable false μ 0 a 2 (lit "#n\n"),
       C16_commentConclusionB false μ a a' 2)) = some (true, true) := by kdecide

/-- the cases (a), (b1) are covered by the new check as by the old one -/
example : (MState.init Gen.dialects (lit "en")).map (fun μ =>
      (List.range 7).map fun k =>
        (Spec.commentLineOk2B Gen.dialects Gen.parserTable false μ 0 C16_descDoc k (lit "#n\n"),
         Spec.commentLineOk3B Gen.dialects Gen.parserTable false μ 0 C16_descDoc k (lit "#n\n"))) =
    some [(true, true), (true, true), (true, true), (true, true), (true, true), (true, true), (true, true)] := by
  kdecide

/-- a document passing through all eight description-opening states, with keyword, step, tag,
    table-row, comment, description and blank lines and the end of the text following them -/
def C16_allDoc : Str := lit ("Feature: f\nBackground:\n  Given b\n@t\nScenario Outline: s\n  Given <x>\n  Examples:\n    |x|\n" ++
  "Rule: r\n\n  text\nBackground:\n# old\n  Given c\nExample: e\n@u\nExamples:\n\nRule: q\nScenario: z\n  Examples:\n")

def C16_insertAt (src : Str) (k : Nat) : Str :=
  ((splitLines src).take k).flatten ++ lit "#n\n" ++ ((splitLines src).drop k).flatten

/-- EVERY position of that document, both error modes: where the new check holds, the conclusion
    holds; the positions where it fails (9 and 17: a blank line follows `Rule:`, `Examples:`); the
    positions where the old check `commentLineOk2B` fails -/
example : (MState.init Gen.dialects (lit "en")).map (fun μ =>
      ((List.range 22).all fun k => [false, true].all fun stop =>
        !Spec.commentLineOk3B Gen.dialects Gen.parserTable stop μ 0 C16_allDoc k (lit "#n\n") ||
          C16_commentConclusionB stop μ C16_allDoc (C16_insertAt C16_allDoc k) k,
       (List.range 22).filter fun k =>
        !Spec.commentLineOk3B Gen.dialects Gen.parserTable false μ 0 C16_allDoc k (lit "#n\n"),
       (List.range 22).filter fun k =>
        !Spec.commentLineOk2B Gen.dialects Gen.parserTable false μ 0 C16_allDoc k (lit "#n\n"))) =
    some (true, [9, 17], [1, 2, 5, 7, 9, 15, 17, 18, 19, 20, 21]) := by kdecide

/-- COUNTEREXAMPLE (the hypothesis on line `k+1` is needed): a blank line follows the scenario line;
    the new check fails, and so does the conclusion — the blank line becomes description text -/
example : (MState.init Gen.dialects (lit "en")).map (fun μ =>
      let a := lit "Feature: f\nScenario: s\n\n d\nGiven x\n"
      let a' := lit "Feature: f\nScenario: s\n#n\n\n d\nGiven x\n"
      (Spec.commentLineOk3B Gen.dialects Gen.parserTable false μ 0 a 2 (lit "#n\n"),
       C16_commentConclusionB false μ a a' 2,
       C16_scenarioDescr (parseWith Gen.dialects Gen.parserTable false μ 0 a).1,
       C16_scenarioDescr (parseWith Gen.dialects Gen.parserTable false μ 0 a').1)) =
    some (false, false, [lit " d"], [lit "\n d"]) := by kdecide

end GV
