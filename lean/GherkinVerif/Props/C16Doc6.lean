/-
  Props/C16Doc6.lean — property C16, goal G3, MAIN remaining case (PARTIAL — groundwork, table facts
  and kernel-checked evidence; the document-level theorem is NOT proved).

  CONJECTURE `C16_comment_line_document_all` (not proved): the conclusion of
  `C16_comment_line_document` (Props/C16Doc4.lean) — outcome of `src'` =
  `insertComment k ⟨⟨k+1, 1⟩, rstripCRLF c⟩` of the renamed outcome of `src` — holds under
  `Spec.commentLineOk3B` (Spec/LayoutChecks4.lean): `c` is a `#` line, not a language header where it is
  inserted, and the state `s` of the original run after `k` lines
    (a) has a comment test that builds and stays                         — PROVED (C16Doc4), or
    (b) opens the description with a comment (`Spec.commentOpensDescription`) and
        (b1) line `k+1` is description text or a comment                 — PROVED (C16Doc5), or
        (b2) line `k+1` is a step / keyword / tag / table-row line, or `k` is the end of the text
                                                                          — NOT PROVED (this file).
  (`commentLineOk3B` says for (b): line `k+1` does not exist or is not blank.)

  WHAT IS PROVED HERE for (b2).
  In case (b2) the second run opens a `Description` node for the comment and closes it EMPTY with the
  next line; the node that was open in state `s` thereby receives an item
  `(.rule .Description, .descr "")` which the first run does not have, and — for header nodes
  (`FeatureHeader`, `RuleHeader`, `Scenario`, `Examples`), which `transform_node` hands on raw — this
  item stays in the tree until the parent is transformed.
   1. Builder level, complete (Lemmas/LayoutDoc6Builder.lean, namespace `Layout6`): the relations
      `ItemsD`/`ValD` ("equal up to such extra items, provided the node has no other `Description`
      item") and `BD` on builder states; `transformNode_D` (`transform_node` yields the same ids and
      errors and `ValD`-related values — in particular `getDescription` is `""` in both);
      `BD.startRule`, `BD.build`, `BD.endRule`, `BD.result` (the final documents are EQUAL).
      `C16_emptyDescription_invisible` below is the instance for one node.
   2. The side condition of `BD.endRule` — a node never receives a SECOND `Description` item — and the
      precondition of opening the relation — in state `s` the open node has no `Description` item —
      are instances of ONE unary invariant of every run, stated as an abstract interpretation
      (`Spec.descFlagsOk`, flags per open node) and CHECKED on the generated table
      (`C16_fact_descFlags`).  Its soundness (loop invariant of `parseLinesPure` from `descFlagsOk`,
      in the style of Lemmas/LayoutDoc3Depth.lean) is NOT proved.
  WHAT IS MISSING.  (i) soundness of `descFlagsOk` (≈ `depth_prefix` with `List Bool` for `Nat`);
  (ii) the step for line `k+1`: the first run in row `s`, the second in row `descTarget s` read the same
  structural line with productions `ps` resp. `.end_ .Description :: ps` (table fact in the style of
  `rowsMatch`, which already gives "same tests, same guards" — to be extended by this production
  clause and "same target" for the non-Comment/Other tests), establishing `BD` after the step;
  (iii) a same-program simulation of the rest of the run under `BD` in the builder and `CtxR` in the
  rest of the context (matchers and look-ahead do not depend on the builder: `Layout5.BFrame`), and the
  body tail with `BD.result`; (iv) end of text: the same with the `EOF` test.
  The hypothesis cannot be replaced by a Boolean on the ORIGINAL run: the invariant is needed for the
  second run's node below the new `Description`, which is related to, not equal to, the first run's.
-/
import GherkinVerif.KDecide
import GherkinVerif.Props.C16Doc5
import GherkinVerif.Spec.LayoutChecks4
import GherkinVerif.Lemmas.LayoutDoc6Builder
namespace GV
open Lemmas Layout6

/-- an empty `Description` item in a node without one is invisible to `transform_node`: same ids
    consumed, same errors, and values equal up to such items in raw header nodes -/
theorem C16_emptyDescription_invisible (cs : List Comment) (rt : RuleType) (xs : List (Key × Val))
    (h : getItems xs (.rule .Description) = []) :
    BSim ValD (transformNode cs ⟨rt, xs⟩) (transformNode cs ⟨rt, (.rule .Description, .descr []) :: xs⟩) :=
  transformNode_D cs rt (.extraD (.refl xs) h)

/-- … and to the document: builder states related by `BD` give the same result -/
theorem C16_emptyDescription_result {β1 β2 : BState} (h : BD β1 β2) : β2.result = β1.result := h.result

/-- TABLE FACT: the generated table has an inductive flag assignment — no production ever puts a
    second `Description` item into a node, and in the eight description-opening states the open node
    has none -/
theorem C16_fact_descFlags :
    Spec.descFlagsOk Gen.parserTable (Spec.computeDescFlags Gen.parserTable 4) = true := by kdecide

/-! ### kernel-checked evidence for the conjecture -/

/-- equality of outcomes as a Boolean (accepted documents; rejections by their errors) -/
def C16_sameOutcomeB : Outcome → Outcome → Bool
  | .ok d1, .ok d2 => decide (d1 = d2)
  | .rejected e1 b1, .rejected e2 b2 => e1.map (fun e => (e.loc, e.message)) == e2.map (fun e => (e.loc, e.message)) && b1 == b2
  | _, _ => false

/-- the conclusion of `C16_comment_line_document` for `#n` inserted after line `k`, as a Boolean -/
def C16_commentConclusionB (stop : Bool) (μ : MState) (src src' : Str) (k : Nat) : Bool :=
  C16_sameOutcomeB (parseWith Gen.dialects Gen.parserTable stop μ 0 src').1
    (Spec.insertComment k ⟨⟨k + 1, some 1⟩, lit "#n"⟩
      (Spec.mapOutcome (Spec.insertMap k) (parseWith Gen.dialects Gen.parserTable stop μ 0 src).1))

/-- case (b2): a step follows the scenario line; the text ends after the feature line; a tag line
    follows the feature description-opening state; a table row follows `Examples:` — the old check
    fails, the new one holds, and so does the conclusion -/
example : (MState.init Gen.dialects (lit "en")).map (fun μ =>
      [(Spec.commentLineOk2B Gen.dialects Gen.parserTable false μ 0 (lit "Feature: f\nScenario: s\nGiven x\n") 2 (lit "#n\n"),
        Spec.commentLineOk3B Gen.dialects Gen.parserTable false μ 0 (lit "Feature: f\nScenario: s\nGiven x\n") 2 (lit "#n\n"),
        C16_commentConclusionB false μ (lit "Feature: f\nScenario: s\nGiven x\n") (lit "Feature: f\nScenario: s\n#n\nGiven x\n") 2),
       (Spec.commentLineOk2B Gen.dialects Gen.parserTable false μ 0 (lit "Feature: f\n") 1 (lit "#n\n"),
        Spec.commentLineOk3B Gen.dialects Gen.parserTable false μ 0 (lit "Feature: f\n") 1 (lit "#n\n"),
        C16_commentConclusionB false μ (lit "Feature: f\n") (lit "Feature: f\n#n\n") 1),
       (Spec.commentLineOk2B Gen.dialects Gen.parserTable false μ 0 (lit "Feature: f\n@t\nScenario: s\n") 1 (lit "#n\n"),
        Spec.commentLineOk3B Gen.dialects Gen.parserTable false μ 0 (lit "Feature: f\n@t\nScenario: s\n") 1 (lit "#n\n"),
        C16_commentConclusionB false μ (lit "Feature: f\n@t\nScenario: s\n") (lit "Feature: f\n#n\n@t\nScenario: s\n") 1)]) =
    some [(false, true, true), (false, true, true), (false, true, true)] := by kdecide

example : (MState.init Gen.dialects (lit "en")).map (fun μ =>
      let a := lit "Feature: f\nScenario Outline: s\nGiven <x>\nExamples:\n|x|\n|1|\n"
      let a' := lit "Feature: f\nScenario Outline: s\nGiven <x>\nExamples:\n#n\n|x|\n|1|\n"
      (Spec.commentLineOk2B Gen.dialects Gen.parserTable true μ 0 a 4 (lit "#n\n"),
       Spec.commentLineOk3B Gen.dialects Gen.parserTable true μ 0 a 4 (lit "#n\n"),
       C16_commentConclusionB true μ a a' 4)) = some (false, true, true) := by kdecide

/-- a rejected document (collecting mode): the comment after the scenario line, an unexpected line
    behind — the errors move down -/
example : (MState.init Gen.dialects (lit "en")).map (fun μ =>
      let a := lit "Feature: f\nScenario: s\nGiven x\nFeature: g\n"
      let a' := lit "Feature: f\nScenario: s\n#n\nGiven x\nFeature: g\n"
      (Spec.commentLineOk3B Gen.dialects Gen.parserTable false μ 0 a 2 (lit "#n\n"),
       C16_commentConclusionB false μ a a' 2)) = some (true, true) := by kdecide

/-- the cases (a), (b1) are covered by the new check as by the old one -/
example : (MState.init Gen.dialects (lit "en")).map (fun μ =>
      (List.range 7).map fun k =>
        (Spec.commentLineOk2B Gen.dialects Gen.parserTable false μ 0 C16_descDoc k (lit "#n\n"),
         Spec.commentLineOk3B Gen.dialects Gen.parserTable false μ 0 C16_descDoc k (lit "#n\n"))) =
    some [(true, true), (true, true), (true, true), (true, true), (true, true), (true, true), (true, true)] := by
  kdecide

/-- a document passing through all eight description-opening states, with keyword, step, tag,
    table-row, comment, description and blank lines and the end of the text following them -/
def C16_allDoc : Str := lit ("Feature: f\nBackground:\n  Given b\n@t\nScenario Outline: s\n  Given <x>\n  Examples:\n    |x|\n" ++
  "Rule: r\n\n  text\nBackground:\n# old\n  Given c\nExample: e\n@u\nExamples:\n\nRule: q\nScenario: z\n  Examples:\n")

def C16_insertAt (src : Str) (k : Nat) : Str :=
  ((splitLines src).take k).flatten ++ lit "#n\n" ++ ((splitLines src).drop k).flatten

/-- EVERY position of that document, both error modes: where the new check holds, the conclusion
    holds; the positions where it fails (9 and 17: a blank line follows `Rule:`, `Examples:`); the
    positions where the old check `commentLineOk2B` fails -/
example : (MState.init Gen.dialects (lit "en")).map (fun μ =>
      ((List.range 22).all fun k => [false, true].all fun stop =>
        !Spec.commentLineOk3B Gen.dialects Gen.parserTable stop μ 0 C16_allDoc k (lit "#n\n") ||
          C16_commentConclusionB stop μ C16_allDoc (C16_insertAt C16_allDoc k) k,
       (List.range 22).filter fun k =>
        !Spec.commentLineOk3B Gen.dialects Gen.parserTable false μ 0 C16_allDoc k (lit "#n\n"),
       (List.range 22).filter fun k =>
        !Spec.commentLineOk2B Gen.dialects Gen.parserTable false μ 0 C16_allDoc k (lit "#n\n"))) =
    some (true, [9, 17], [1, 2, 5, 7, 9, 15, 17, 18, 19, 20, 21]) := by kdecide

/-- COUNTEREXAMPLE (the hypothesis on line `k+1` is needed): a blank line follows the scenario line;
    the new check fails, and so does the conclusion — the blank line becomes description text -/
example : (MState.init Gen.dialects (lit "en")).map (fun μ =>
      let a := lit "Feature: f\nScenario: s\n\n d\nGiven x\n"
      let a' := lit "Feature: f\nScenario: s\n#n\n\n d\nGiven x\n"
      (Spec.commentLineOk3B Gen.dialects Gen.parserTable false μ 0 a 2 (lit "#n\n"),
       C16_commentConclusionB false μ a a' 2,
       C16_scenarioDescr (parseWith Gen.dialects Gen.parserTable false μ 0 a).1,
       C16_scenarioDescr (parseWith Gen.dialects Gen.parserTable false μ 0 a').1)) =
    some (false, false, [lit " d"], [lit "\n d"]) := by kdecide

end GV
