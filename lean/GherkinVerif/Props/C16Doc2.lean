/-
  Props/C16Doc2.lean — property C16, whole-document part, continued: trailing blanks.

  "Adding trailing blanks to keyword, step, tag, table-row and doc-string-delimiter lines changes
  nothing."  Props/C16.lean has the per-line theorem (`C16_trailing_blanks_line`: every kind but
  `Comment` and `Other`; `StepLine` under `StepTailFree`).  Here it is lifted to `parseWith` by the
  lock-step simulation of Lemmas/LayoutDoc2.lean.

  The statement that is true (found with `#eval`, then proved) — `src'` is the text with blanks
  added or removed, `src` the original; both error modes, accepted or rejected documents:

    * the two texts have the same number of physical lines and each pair of lines is equal or
      agrees up to trailing whitespace (`rstrip` equal; the line ending may change as well);
    * a line that differs is not a `#` line (a comment keeps its trailing blanks as text) and is
      step-tail-free for every dialect that can be in force (finding F8: "Etant donné que" + blank,
      "Given" + blank) — `C16_lineOk`, a Boolean on the two lines;
    * no line that differs is handed to the builder as `Other` by the ORIGINAL run (free text of a
      description or doc-string content keeps its trailing blanks): a condition on the ghost list
      `builds` of the original run only.  It cannot be made static: a keyword line inside a doc
      string IS read as `Other`.

  Then the outcome (document, or error list with kinds, locations and messages) and the final
  context are the same.  The dialects "in force" are any set `DS` containing the start dialect and
  closed under the `# language:` headers of the text: all of `Gen.dialects`
  (`C16_trailing_blanks_document_all_dialects`) or just the start dialect and those the headers
  name (`C16_trailing_blanks_document`, and as one Boolean check `C16_trailing_blanks_document_check`).
-/
import GherkinVerif.Props.C16Doc
import GherkinVerif.Lemmas.LayoutDoc2
import GherkinVerif.KDecide
namespace GV
open Lemmas

/-- facts about the regenerated table: an `Other` test is never guarded; no look-ahead tests `Other` -/
theorem C16_fact_other_unguarded : Spec.otherUnguarded Gen.parserTable = true := by kdecide
theorem C16_fact_lookaheads_no_other : Spec.lookaheadsNoOther Gen.parserTable = true := by kdecide

/-- Line `l'` may replace line `l`: they are equal, or agree up to trailing whitespace (blanks and
    line ending) and `l` is not a `#` line and is step-tail-free for the dialects `DS`. -/
def C16_lineOk (DS : List Dialect) (l' l : Str) : Bool :=
  l' == l || (rstrip l' == rstrip l && !lineStartsWith l [35] &&
    DS.all fun d => stepTailFreeB d.stepKeywords (rstrip l))

/-- no token the run handed to the builder as `Other` is of a line that differs -/
def C16_noOtherModified (ls' ls : List Str) (builds : List Token) : Prop :=
  ∀ t ∈ builds, t.mtype = some .Other → ls'[t.lineNo - 1]? = ls[t.lineNo - 1]?

/-- **Trailing blanks, whole document**, for any set `DS` of dialects containing the start dialect
    and the dialects named by the `# language:` headers of the text. -/
theorem C16_trailing_blanks_document_generic (DS : List Dialect) (stop : Bool) (μ : MState) (ids : Nat)
    (src' src : Str)
    (hlen : (splitLines src').length = (splitLines src).length)
    (hmod : ∀ (k : Nat) (l' l : Str), (splitLines src')[k]? = some l' → (splitLines src)[k]? = some l → C16_lineOk DS l' l = true)
    (hother : C16_noOtherModified (splitLines src') (splitLines src)
      (parseWith Gen.dialects Gen.parserTable stop μ ids src).2.builds)
    (hμ : (μ.reset Gen.dialects).dialect ∈ Gen.dialects)
    (hds : (μ.reset Gen.dialects).dialect ∈ DS)
    (hcl : ∀ l ∈ splitLines src, ∀ name d, languageRe (lineText l none) = some name →
      findDialect Gen.dialects name = some d → d ∈ DS) :
    (parseWith Gen.dialects Gen.parserTable stop μ ids src').1 =
      (parseWith Gen.dialects Gen.parserTable stop μ ids src).1 ∧
    C16_SameContext (parseWith Gen.dialects Gen.parserTable stop μ ids src').2
      (parseWith Gen.dialects Gen.parserTable stop μ ids src).2 := by
  let P : BlankParams :=
    ⟨fun i => (splitLines src')[i - 1]? ≠ (splitLines src)[i - 1]?, splitLines src, DS⟩
  have hl : LinesRel P 0 (splitLines src') (splitLines src) := by
    refine linesRel_of_index 0 _ _ hlen fun k l1 l2 h1 h2 => ⟨List.mem_of_getElem? h2, ?_⟩
    by_cases he : l1 = l2
    · subst he; exact .inl (LineRel.refl _)
    · have h0 := hmod k l1 l2 h1 h2
      unfold C16_lineOk at h0
      simp only [Bool.or_eq_true, Bool.and_eq_true, beq_iff_eq, Bool.not_eq_true', List.all_eq_true] at h0
      rcases h0 with h0 | ⟨⟨hr, hh⟩, ht⟩
      · exact absurd h0 he
      · refine .inr ⟨hr, ?_, hh, ht⟩
        show (splitLines src')[0 + k + 1 - 1]? ≠ (splitLines src)[0 + k + 1 - 1]?
        have e : 0 + k + 1 - 1 = k := by omega
        rw [e, h1, h2]
        intro e'; cases e'; exact he rfl
  rcases parseWith_simU C16_step_keywords_ok (P := P) hcl
      ⟨C16_fact_blank_taken, C16_fact_other_unguarded, C16_fact_lookaheads_no_other⟩ stop μ ids hl hμ hds with
    ⟨h1, h2⟩ | ⟨t, ht, hm, hM⟩
  · exact ⟨h1, h2.errors, h2.μ, h2.ids, h2.calls, h2.reads, h2.unexpected, h2.lineNo, h2.builds⟩
  · exact absurd (hother t ht hm) hM

/-- the dialects that can be in force while `src` is parsed: the one the parse starts with and
    those its `# language:` headers name -/
def C16_dialectsOf (μ : MState) (src : Str) : List Dialect :=
  (μ.reset Gen.dialects).dialect :: Spec.langDialects Gen.dialects (splitLines src)

/-- **Adding (or removing) trailing blanks on keyword, step, tag, table-row, doc-string-delimiter
    and blank lines changes nothing**: if every line that differs is not a `#` line and is
    step-tail-free for the dialects in force, and the original run built none of them as `Other`,
    then the outcome — the document, or the exact error list — is the same. -/
theorem C16_trailing_blanks_document (stop : Bool) (μ : MState) (ids : Nat) (src' src : Str)
    (hlen : (splitLines src').length = (splitLines src).length)
    (hmod : ∀ (k : Nat) (l' l : Str), (splitLines src')[k]? = some l' → (splitLines src)[k]? = some l →
      C16_lineOk (C16_dialectsOf μ src) l' l = true)
    (hother : C16_noOtherModified (splitLines src') (splitLines src)
      (parseWith Gen.dialects Gen.parserTable stop μ ids src).2.builds)
    (hμ : (μ.reset Gen.dialects).dialect ∈ Gen.dialects) :
    (parseWith Gen.dialects Gen.parserTable stop μ ids src').1 =
    (parseWith Gen.dialects Gen.parserTable stop μ ids src).1 := by
  refine (C16_trailing_blanks_document_generic (C16_dialectsOf μ src) stop μ ids src' src hlen hmod hother hμ
    List.mem_cons_self fun l hl name d h1 h2 => ?_).1
  refine List.mem_cons_of_mem _ ?_
  unfold Spec.langDialects
  rw [List.mem_filterMap]
  exact ⟨l, hl, by rw [h1]; exact h2⟩

/-- … and the same final context: error list, matcher state, id counter, number of matcher calls,
    lines read and reported unexpected; built tokens equal up to their physical line -/
theorem C16_trailing_blanks_document_context (stop : Bool) (μ : MState) (ids : Nat) (src' src : Str)
    (hlen : (splitLines src').length = (splitLines src).length)
    (hmod : ∀ (k : Nat) (l' l : Str), (splitLines src')[k]? = some l' → (splitLines src)[k]? = some l →
      C16_lineOk (C16_dialectsOf μ src) l' l = true)
    (hother : C16_noOtherModified (splitLines src') (splitLines src)
      (parseWith Gen.dialects Gen.parserTable stop μ ids src).2.builds)
    (hμ : (μ.reset Gen.dialects).dialect ∈ Gen.dialects) :
    C16_SameContext (parseWith Gen.dialects Gen.parserTable stop μ ids src').2
      (parseWith Gen.dialects Gen.parserTable stop μ ids src).2 := by
  refine (C16_trailing_blanks_document_generic (C16_dialectsOf μ src) stop μ ids src' src hlen hmod hother hμ
    List.mem_cons_self fun l hl name d h1 h2 => ?_).2
  refine List.mem_cons_of_mem _ ?_
  unfold Spec.langDialects
  rw [List.mem_filterMap]
  exact ⟨l, hl, by rw [h1]; exact h2⟩

/-- the same with the step-tail condition for every dialect of the table (no need to look for
    `# language:` headers; slightly more demanding on the lines that differ) -/
theorem C16_trailing_blanks_document_all_dialects (stop : Bool) (μ : MState) (ids : Nat) (src' src : Str)
    (hlen : (splitLines src').length = (splitLines src).length)
    (hmod : ∀ (k : Nat) (l' l : Str), (splitLines src')[k]? = some l' → (splitLines src)[k]? = some l →
      C16_lineOk Gen.dialects l' l = true)
    (hother : C16_noOtherModified (splitLines src') (splitLines src)
      (parseWith Gen.dialects Gen.parserTable stop μ ids src).2.builds)
    (hμ : (μ.reset Gen.dialects).dialect ∈ Gen.dialects) :
    (parseWith Gen.dialects Gen.parserTable stop μ ids src').1 =
    (parseWith Gen.dialects Gen.parserTable stop μ ids src).1 :=
  (C16_trailing_blanks_document_generic Gen.dialects stop μ ids src' src hlen hmod hother hμ hμ
    fun _ _ _ _ _ h2 => findDialect_mem h2).1

/-- all hypotheses of `C16_trailing_blanks_document` as one Boolean (it runs the original parse) -/
def C16_trailingBlanksOk (stop : Bool) (μ : MState) (ids : Nat) (src' src : Str) : Bool :=
  (splitLines src').length == (splitLines src).length &&
  ((splitLines src').zip (splitLines src)).all (fun p => C16_lineOk (C16_dialectsOf μ src) p.1 p.2) &&
  (parseWith Gen.dialects Gen.parserTable stop μ ids src).2.builds.all fun t =>
    !(t.mtype == some .Other) || (splitLines src')[t.lineNo - 1]? == (splitLines src)[t.lineNo - 1]?

/-- … which implies the conclusion. -/
theorem C16_trailing_blanks_document_check (stop : Bool) (μ : MState) (ids : Nat) (src' src : Str)
    (h : C16_trailingBlanksOk stop μ ids src' src = true)
    (hμ : (μ.reset Gen.dialects).dialect ∈ Gen.dialects) :
    (parseWith Gen.dialects Gen.parserTable stop μ ids src').1 =
    (parseWith Gen.dialects Gen.parserTable stop μ ids src).1 := by
  unfold C16_trailingBlanksOk at h
  simp only [Bool.and_eq_true, beq_iff_eq] at h
  obtain ⟨⟨hlen, hz⟩, hb⟩ := h
  refine C16_trailing_blanks_document stop μ ids src' src hlen (fun k l' l h1 h2 => zip_all_index hz k l' l h1 h2)
    (fun t ht hm => ?_) hμ
  rw [List.all_eq_true] at hb
  have := hb t ht
  simp only [hm, beq_self_eq_true, Bool.not_true, Bool.false_or, beq_iff_eq] at this
  exact this

/-- Blanks added to every line of a text none of whose lines is read as comment or free text: if
    `src'` is `src` with whitespace `ws i` inserted before the line ending of line `i`, the first
    two hypotheses reduce to the Boolean `C16_lineOk` of each pair; e.g. a line is related to itself
    with blanks appended. -/
theorem C16_lineOk_append (DS : List Dialect) (s ws eol : Str) (hws : AllSpace ws) (heol : AllSpace eol)
    (hh : lineStartsWith (s ++ eol) [35] = false)
    (ht : ∀ d ∈ DS, stepTailFreeB d.stepKeywords (rstrip (s ++ eol)) = true) :
    C16_lineOk DS (s ++ ws ++ eol) (s ++ eol) = true := by
  unfold C16_lineOk
  have hr : rstrip (s ++ ws ++ eol) = rstrip (s ++ eol) := by
    rw [List.append_assoc, rstrip_append_allSpace s (hws.append heol), rstrip_append_allSpace s heol]
  simp only [Bool.or_eq_true, Bool.and_eq_true, beq_iff_eq, Bool.not_eq_true', List.all_eq_true]
  exact .inr ⟨⟨hr, hh⟩, ht⟩

/-! ## blank lines: one step of the real parser (partial) -/

/-- PARTIAL (towards `C16_blank_line_document`, which is NOT proved here: it needs a simulation up
    to a shift of line numbers).  The real-parser counterpart of the kind-level `C16_blank_line_step`:
    in a state `s` that reads a blank line as `Empty` first, `match_token` on a whitespace-only line
    (fresh from the scanner or from the look-ahead queue) makes `n + 1` matcher calls, leaves the
    matcher state, the error list and the id counter alone, hands exactly one token — the line read
    as `Empty` — to the builder, which appends it to the node under construction, and returns to
    the same state `s`.  Both error modes. -/
theorem C16_blank_line_parse_step_partial (stop : Bool) (s : Nat) (hs : Spec.emptyFirst Gen.parserTable s = true)
    (t : Token) (l : Str) (hl : t.line = some l) (hb : lstrip l = []) (c : Ctx)
    (hμ : c.μ.dialect ∈ Gen.dialects) (top : Node) (rest : List Node) (hst : c.β.stack = top :: rest) :
    ∃ n, lrun (matchToken Gen.dialects Gen.parserTable stop s t) c =
      (.ok s, { c with
        calls := c.calls + (n + 1)
        β := { c.β with stack := { top with items := top.items ++ [(.tok .Empty, .tok (emptyTok c.μ t))] } :: rest }
        builds := c.builds ++ [emptyTok c.μ t] }) := by
  have hkw : ∀ kw ∈ c.μ.dialect.stepKeywords, kw ≠ [] := fun kw hkw =>
    ((stepKeywordOk_iff kw).1 (stepKwOk_of_mem C16_step_keywords_ok hμ kw hkw)).1
  obtain ⟨n, hn⟩ := matchToken_blank_step Gen.dialects Gen.parserTable C16_empty_self_loop stop hs hl hb c hkw
  refine ⟨n, ?_⟩
  rw [hn, lrun_runProd]
  simp only []
  rw [layBuild_other _ (emptyTok c.μ t) .Empty (by decide) rfl]
  simp only [hst, addToTop]

/-! ## non-vacuity and the counterexamples -/

/-- blanks (and a tab) added to a feature, a tag, a scenario, a step, a doc-string delimiter with
    media type, a table row, an examples line and a blank line; the doc-string CONTENT line is left
    alone: all hypotheses hold … -/
example : (MState.init Gen.dialects (lit "en")).map (fun μ =>
      C16_trailingBlanksOk false μ 0
        (lit "Feature: f  \n@t \t\nScenario Outline: s \n  Given <x>  \n  \"\"\" xml \n  Given y\n  \"\"\"  \n   \n  Examples: \n  | x | \n")
        (lit "Feature: f\n@t\nScenario Outline: s\n  Given <x>\n  \"\"\" xml\n  Given y\n  \"\"\"\n\n  Examples:\n  | x |\n")) =
    some true := by kdecide

/-- … and the parse is not trivial: accepted, 5 ids -/
example : (MState.init Gen.dialects (lit "en")).map (fun μ =>
      let r := parseWith Gen.dialects Gen.parserTable false μ 0
        (lit "Feature: f  \n@t \t\nScenario Outline: s \n  Given <x>  \n  \"\"\" xml \n  Given y\n  \"\"\"  \n   \n  Examples: \n  | x | \n")
      ((match r.1 with | .ok d => some (d.feature.map Feature.name) | _ => none), r.2.ids)) =
    some (some (some (lit "f")), 5) := by kdecide

/-- the dynamic hypothesis is needed: a blank added to a description line (read as `Other`) fails the
    check, and the documents differ (the description keeps the blank) -/
example : (MState.init Gen.dialects (lit "en")).map (fun μ =>
      let a := lit "Feature: f\n desc \nScenario: s\n"
      let b := lit "Feature: f\n desc\nScenario: s\n"
      (C16_trailingBlanksOk false μ 0 a b,
       (match (parseWith Gen.dialects Gen.parserTable false μ 0 a).1 with
        | .ok d => d.feature.map Feature.description | _ => none),
       (match (parseWith Gen.dialects Gen.parserTable false μ 0 b).1 with
        | .ok d => d.feature.map Feature.description | _ => none))) =
    some (false, some (lit " desc "), some (lit " desc")) := by kdecide

/-- the static hypotheses are needed: "Given" + blank becomes a step (F8), a comment keeps its blank -/
example : C16_lineOk [Gen.d_en] (lit "Given \n") (lit "Given\n") = false ∧
    C16_lineOk [Gen.d_en] (lit "# c \n") (lit "# c\n") = false ∧
    C16_lineOk [Gen.d_en] (lit "  Given x \n") (lit "  Given x\n") = true := by kdecide

end GV
