/-
  Props/C03Roundtrip3.lean — property C03 "from the document outwards", third model: the model of
  Props/C03Roundtrip2.lean (steps with optional data tables) plus an optional BACKGROUND (extension 3).

  Model (Spec/Render3.lean): `MFeature3 = (tags, kw, name, background : Option MBackground, scenarios)`,
  `MBackground = (kw, name, steps : List MStep2)`; `render3` writes `<background kw>: <name>` at
  column 1 after the feature line, then the background's steps (and their tables) as in a scenario.
  `WF3 d m` = `WF2` plus `backgroundOK`: the keyword is in `d.background`, the name is `cleanText`, the
  steps are `stepOK2`.  `expectedDoc3`: the background is the FIRST child of the feature; its steps
  (rows first) draw their ids, then the background, then the scenarios; feature tags last.

  PROVED
  * `C03R3_fact_table` (kernel): `Lemmas.rt3Facts` — the facts of the second model, the
    `BackgroundLine` branch of state 3, and for the background states 5 / 7 / 8 the step, table-row,
    scenario, look-ahead-0 tag and EOF branches.
  * builder: `Lemmas.endRule_background`, `Lemmas.endRule_feature3` (feature with / without background).
  * blocks: `Lemmas.rows_loopB`, `Lemmas.step_blockB`, `Lemmas.steps_loopB` (the step blocks of states
    5 / 7 / 8: the proofs of the scenario case line by line), `Lemmas.background_block`,
    `Lemmas.scenario_blockG` / `Lemmas.scenarios_loopG` / `Lemmas.finishG` (a scenario or the end of
    file after ANY of the states 3, 5, 7, 8, 10, 12, 13: `Lemmas.ClosesG`), `Lemmas.roundtrip3_pure`.
  * **`C03_roundtrip3`**, **`C03_roundtrip3_counter`**: every matcher state whose default dialect is in
    the table, every `WF3` model, both error modes, every incoming id counter.
  * `C03_roundtrip3_model2`: the second model embeds (`MFeature2.toModel3`) with the same rendering.
  * non-vacuity; necessity of each clause of `backgroundOK` by kernel-evaluated counterexamples.

  NOT DONE (not started; no statement left open): Examples blocks on a scenario (extension 4), doc
  strings, descriptions, comments, Rules, `# language:` header.
-/
import GherkinVerif.Lemmas.Roundtrip3Doc
import GherkinVerif.Props.C03Roundtrip2
namespace GV
open Spec

/-- the parser-table facts of the third round trip -/
theorem C03R3_fact_table : Lemmas.rt3Facts Gen.parserTable = true := by kdecide

/-- **C03, round trip, optional background, steps with data tables.** -/
theorem C03_roundtrip3 (stop : Bool) (μ : MState)
    (hμ : (μ.reset Gen.dialects).dialect ∈ Gen.dialects) (ids : Nat) (m : MFeature3)
    (hwf : WF3 (μ.reset Gen.dialects).dialect m = true) :
    (parseWith Gen.dialects Gen.parserTable stop μ ids (render3 m)).1 =
      .ok (expectedDoc3 (μ.reset Gen.dialects).dialect (μ.reset Gen.dialects).name m ids) := by
  obtain ⟨ho, -⟩ := C18_queue_refines_peek_fields stop μ ids (render3 m) hμ
  rw [ho]
  exact (Lemmas.roundtrip3_pure C03R_fact_keywords C03R_fact_render Gen.dialects Gen.parserTable
    (Lemmas.RtTable3.of_facts C03R3_fact_table) stop μ hμ ids m hwf).1

/-- … and the id counter afterwards: one id per table row, step, background, tag and scenario. -/
theorem C03_roundtrip3_counter (stop : Bool) (μ : MState)
    (hμ : (μ.reset Gen.dialects).dialect ∈ Gen.dialects) (ids : Nat) (m : MFeature3)
    (hwf : WF3 (μ.reset Gen.dialects).dialect m = true) :
    (parseWith Gen.dialects Gen.parserTable stop μ ids (render3 m)).2.ids = idsAfter3 m ids := by
  obtain ⟨-, -, -, -, -, -, hi, -⟩ := C18_queue_refines_peek_fields stop μ ids (render3 m) hμ
  rw [hi]
  exact (Lemmas.roundtrip3_pure C03R_fact_keywords C03R_fact_render Gen.dialects Gen.parserTable
    (Lemmas.RtTable3.of_facts C03R3_fact_table) stop μ hμ ids m hwf).2

/-- the second model is the background-free part of the third: same text, same well-formedness -/
theorem C03_roundtrip3_model2 (d : Dialect) (m : MFeature2) :
    render3 m.toModel3 = render2 m ∧ WF3 d m.toModel3 = WF2 d m := by
  constructor
  · simp [render3, render2, lineBodies3, lineBodies2, MFeature2.toModel3, bgLinesOf]
  · simp [WF3, WF2, MFeature2.toModel3]

/-! ### non-vacuity -/
section examples

def C03R3_demo : MFeature3 := MFeature3.ofStrings ["@f"] "Feature" "F"
  [("Background", "bg", [("Given ", "a", [["x", "yy"], ["", "1 2"]]), ("And ", "b", [])])]
  [([], "Scenario", "one", [("When ", "b", []), ("Then ", "c", [["q"]])]),
   (["@t"], "Scenario", "two", [("* ", "d", [["h"], ["v"]])])]

/-- a background whose last step carries a table, directly followed by the end of file (state 8) -/
def C03R3_demoB : MFeature3 := MFeature3.ofStrings [] "Feature" "F"
  [("Background", "", [("Given ", "a", [["x"]])])] []

example : (MState.init Gen.dialects (lit "en")).map (fun μ =>
    (WF3 μ.dialect C03R3_demo, WF3 μ.dialect C03R3_demoB,
     render3 C03R3_demo == lit "@f\nFeature: F\nBackground: bg\n  Given a\n    | x | yy |\n    |  | 1 2 |\n  And b\nScenario: one\n  When b\n  Then c\n    | q |\n@t\nScenario: two\n  * d\n    | h |\n    | v |\n",
     decide (C03R_okDoc (parseWith Gen.dialects Gen.parserTable false μ 7 (render3 C03R3_demo)).1 =
       some (expectedDoc3 μ.dialect μ.name C03R3_demo 7)),
     decide (C03R_okDoc (parseWith Gen.dialects Gen.parserTable true μ 7 (render3 C03R3_demo)).1 =
       some (expectedDoc3 μ.dialect μ.name C03R3_demo 7)),
     (parseWith Gen.dialects Gen.parserTable true μ 7 (render3 C03R3_demo)).2.ids == idsAfter3 C03R3_demo 7)) =
    some (true, true, true, true, true, true) := by kdecide

example : (MState.init Gen.dialects (lit "en")).map (fun μ =>
    decide (C03R_okDoc (parseWith Gen.dialects Gen.parserTable false μ 3 (render3 C03R3_demoB)).1 =
       some (expectedDoc3 μ.dialect μ.name C03R3_demoB 3))) = some true := by kdecide

end examples

/-! ### necessity of the clauses of `backgroundOK` -/
section necessity

def C03R3_variant (kw name : String) (steps : List (String × String × List (List String))) : Option (Bool × Bool) :=
  (MState.init Gen.dialects (lit "en")).map fun μ =>
    let m := MFeature3.ofStrings [] "Feature" "f" [(kw, name, steps)] [([], "Scenario", "s", [("Given ", "x", [])])]
    (WF3 μ.dialect m,
     decide (C03R_okDoc (parseWith Gen.dialects Gen.parserTable false μ 0 (render3 m)).1 =
       some (expectedDoc3 μ.dialect μ.name m 0)))

example : C03R3_variant "Background" "b" [("Given ", "y", [])] = some (true, true) := by kdecide
/-- a keyword of another role (a second scenario instead of a background) / no keyword -/
example : C03R3_variant "Scenario" "b" [("Given ", "y", [])] = some (false, false) := by kdecide
example : C03R3_variant "Backgrund" "b" [("Given ", "y", [])] = some (false, false) := by kdecide
/-- a name with a trailing blank -/
example : C03R3_variant "Background" "b " [("Given ", "y", [])] = some (false, false) := by kdecide
/-- a step that is not `stepOK2` (keyword without its blank; ragged table) -/
example : C03R3_variant "Background" "b" [("Given", "y", [])] = some (false, false) := by kdecide
example : C03R3_variant "Background" "b" [("Given ", "y", [["a"], ["b", "c"]])] = some (false, false) := by kdecide

end necessity

end GV
