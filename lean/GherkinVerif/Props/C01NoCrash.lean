/-
  Props/C01NoCrash.lean — property C01, "no other exception type ever escapes", builder side:
  on the token tree of an accepted document the AST builder never ends in a Python run-time
  error (`AttributeError` on a missing token, `IndexError`, a `None` field — the model's explicit
  outcome `BErr.crash`); the only error it can raise is the `AstBuilderException` for a ragged
  table.  Property theorems only; proofs are in Lemmas/NoCrash.lean.

  The notions of the statements (Lemmas/NoCrash.lean, namespace `Spec`; trees, `astOf`, `opsOf`,
  `applyOps` as in Props/C03Tree.lean):

  * `Spec.WellMatched tk`: the token is matched, `mtype = some K`, and carries the fields the
    builder dereferences for kind `K` (`Spec.fieldsRead`): `StepLine`: keyword, keyword type and
    text; the five title lines: keyword and text; `DocStringSeparator`: keyword; `Comment` and
    `Other`: text; nothing for `TagLine`, `TableRow` (their items are a list), `Empty`,
    `Language`, `EOF`.  Every successful `match_<K>` leaves such a token
    (`C01_match_well_matched`).  Since a well-matched token is matched, the tree's projection to
    line kinds `t.kinds` (which reads an unmatched token as free text) shows each leaf under its
    own kind (`C01_kinds_of_well_matched`).
  * `Spec.leaves t`: the tokens at the leaves of `t`, in order.
  * `Spec.Complete t`: every node has the children the builder reads unconditionally
    (`Spec.required`): a `Step` its `StepLine`, a `Background` / `Scenario` / `Examples` node its
    keyword line, a `ScenarioDefinition` / `ExamplesDefinition` its `Scenario` / `Examples` node, a
    `DataTable` a row, a `DocString` a separator.  It follows from the grammar
    (`C01_complete_of_valid`).  `Spec.GrammarShaped` (Props/C11Tree.lean) does not say this
    — it constrains order and multiplicity, not presence, except for the headers — and is not
    needed here: first example below.
  * `Spec.DocStringsOpened t`: in every `DocString` node the first `DocStringSeparator` line has
    its text set.  `match_DocStringSeparator` sets the text of an OPENING separator (the media
    type, possibly empty) and leaves the text of a CLOSING separator `None`; which of the two a
    line is depends on the matcher's state (`C01_docsep_text`).  That the first separator of a
    `DocString` node of an accepted run is an opening one is a fact about the matcher state
    along the run, not about the tree; it is kept as an explicit hypothesis.
  * `Spec.Ragged r`: `r` is the error `AstBuilderException` of kind `raggedTable`.
-/
import GherkinVerif.Lemmas.NoCrash
import GherkinVerif.Props.C03Tree
import GherkinVerif.KDecide
namespace GV
open Spec

/-! ### the matcher sets what the builder reads -/

/-- Every successful `match_<K>` on a line — all thirteen line kinds; `match_EOF` never matches a
    line — leaves a token with `mtype = some K` that carries the fields the builder reads for
    `K`. -/
theorem C01_match_well_matched (D : List Dialect) (K : Kind) (μ : MState) (t : Token) (l : Str)
    (h : (matchLine D K μ t l).res = .matched) :
    (matchLine D K μ t l).tok.mtype = some K ∧ WellMatched (matchLine D K μ t l).tok :=
  Lemmas.match_well_matched D K μ t l h

/-- The same for any token, line or end of file (`match_EOF` matches exactly the end-of-file
    token). -/
theorem C01_matchTok_well_matched (D : List Dialect) (K : Kind) (μ : MState) (t : Token)
    (h : (matchTok D K μ t).1.res = .matched) :
    (matchTok D K μ t).1.tok.mtype = some K ∧ WellMatched (matchTok D K μ t).1.tok :=
  Lemmas.matchTok_well_matched D K μ t h

/-- Doc string separators.  A successful `match_DocStringSeparator` outside a doc string
    (`μ.inDocString = false`: no active separator) is an opening one: the token's text is set and
    the matcher is inside a doc string afterwards; inside a doc string it is the closing one: the
    text is `None` and the matcher is outside afterwards.  The keyword (the delimiter) is set
    either way. -/
theorem C01_docsep_text (D : List Dialect) (μ : MState) (t : Token) (l : Str)
    (h : (matchLine D .DocStringSeparator μ t l).res = .matched) :
    let o := matchLine D .DocStringSeparator μ t l
    o.tok.mtype = some .DocStringSeparator ∧ o.tok.keyword.isSome = true ∧
      o.tok.text.isSome = !μ.inDocString ∧ o.μ.inDocString = !μ.inDocString :=
  Lemmas.docsep_match D μ t l h

/-- A well-matched leaf appears under its own kind in the tree's projection to line kinds. -/
theorem C01_kinds_of_well_matched (tk : Token) (hw : WellMatched tk) :
    ∃ K, tk.mtype = some K ∧ (TTree.leaf tk).kinds = .leaf K :=
  Lemmas.kinds_leaf_of_wellMatched tk hw

/-! ### the trees of accepted documents are complete -/

/-- Every token tree whose projection to line kinds is a valid derivation tree of gherkin.berp
    (`C02_events_valid_tree`) is complete.  (`Lemmas.completeCheck` is a Boolean check of the
    grammar's right-hand sides — each required child occurs in every word —, evaluated by the
    kernel on the regenerated `Gen.grammar`; `Lemmas.complete_of_validTree` lifts it to all valid
    trees of any grammar that passes it.) -/
theorem C01_complete_of_valid (t : TTree) (hv : ValidTree Gen.grammar .GherkinDocument t.kinds) :
    Complete t :=
  Lemmas.complete_of_valid_gen t hv

/-! ### no crash -/

/-- The AST as a function of the tree never crashes.  For every complete token tree whose leaves
    are well matched and whose doc strings start with an opening separator, every comment list
    `cs` and every counter `n`: `astOf cs t` returns a value, or raises the
    `AstBuilderException` for a ragged table. -/
theorem C01_astOf_no_crash (t : TTree) (hc : Complete t) (hl : ∀ tk ∈ leaves t, WellMatched tk)
    (hd : DocStringsOpened t) (cs : List Comment) (n : Nat) :
    (∃ v, ((astOf cs t).run.run n).1 = .ok v) ∨
    (∃ e, ((astOf cs t).run.run n).1 = .error (.ast e) ∧ e.kind = .raggedTable) :=
  Lemmas.astOf_no_crash t hc hl hd cs n

/-- … so its outcome is never `BErr.crash` … -/
theorem C01_astOf_never_crash (t : TTree) (hc : Complete t) (hl : ∀ tk ∈ leaves t, WellMatched tk)
    (hd : DocStringsOpened t) (cs : List Comment) (n : Nat) (what : String) :
    ((astOf cs t).run.run n).1 ≠ .error (.crash what) :=
  Lemmas.astOf_not_crash t hc hl hd cs n what

/-- … and a ragged table is the ONLY builder error. -/
theorem C01_only_ragged (t : TTree) (hc : Complete t) (hl : ∀ tk ∈ leaves t, WellMatched tk)
    (hd : DocStringsOpened t) (cs : List Comment) (n : Nat) (err : BErr)
    (h : ((astOf cs t).run.run n).1 = .error err) : ∃ e, err = .ast e ∧ e.kind = .raggedTable := by
  rcases Lemmas.astOf_no_crash t hc hl hd cs n with ⟨v, hv⟩ | ⟨e, he, hk⟩
  · rw [h] at hv; cases hv
  · rw [h] at he; cases he; exact ⟨e, rfl, hk⟩

/-- Accepted documents: completeness comes from the grammar. -/
theorem C01_astOf_no_crash_accepted (t : TTree) (hv : ValidTree Gen.grammar .GherkinDocument t.kinds)
    (hl : ∀ tk ∈ leaves t, WellMatched tk) (hd : DocStringsOpened t) (cs : List Comment) (n : Nat) :
    (∃ v, ((astOf cs t).run.run n).1 = .ok v) ∨
    (∃ e, ((astOf cs t).run.run n).1 = .error (.ast e) ∧ e.kind = .raggedTable) :=
  Lemmas.astOf_no_crash t (Lemmas.complete_of_valid_gen t hv) hl hd cs n

/-! ### the builder's run -/

/-- The stack machine does not crash either (with `C03_ast_of_tree`).  For a document tree (root
    `GherkinDocument`, no other such node) satisfying the three hypotheses, from a fresh builder
    and any counter `n`: the builder's run on the calls of the tree ends without error and
    `get_result()` returns a document — or the run stops with the ragged-table error (then the
    parser reports it and never calls `get_result()`). -/
theorem C01_builder_no_crash (t : TTree) (ht : t.isDocument = true) (hc : Complete t)
    (hl : ∀ tk ∈ leaves t, WellMatched tk) (hd : DocStringsOpened t) (n : Nat) :
    (∃ β n' d, applyOps (opsOf t) BState.reset n = (.ok (), β, n') ∧ β.result = .ok (some d)) ∨
    (∃ e, (applyOps (opsOf t) BState.reset n).1 = .error (.ast e) ∧ e.kind = .raggedTable) :=
  Lemmas.builder_no_crash t ht hc hl hd n

/-- Accepted documents, builder side: if the token tree of a document projects to a valid
    derivation tree of the grammar, its leaves are well matched and its doc strings opened, the
    builder's run from a fresh state does not crash, and neither does `get_result()`. -/
theorem C01_builder_no_crash_accepted (t : TTree) (hv : ValidTree Gen.grammar .GherkinDocument t.kinds)
    (hl : ∀ tk ∈ leaves t, WellMatched tk) (hd : DocStringsOpened t) (n : Nat) :
    (∃ β n' d, applyOps (opsOf t) BState.reset n = (.ok (), β, n') ∧ β.result = .ok (some d)) ∨
    (∃ e, (applyOps (opsOf t) BState.reset n).1 = .error (.ast e) ∧ e.kind = .raggedTable) :=
  Lemmas.builder_no_crash_accepted t hv hl hd n

/-! ### non-vacuity -/
section examples
open Lemmas.Ex

/-- the error of an outcome, flattened for comparison: the message of a crash, or the kind of an
    `AstBuilderException` -/
def errOf {α} : Except BErr α × Nat → Option (String ⊕ ErrKind)
  | (.ok _, _) => none
  | (.error (.crash what), _) => some (.inl what)
  | (.error (.ast e), _) => some (.inr e.kind)

/-- a closing separator: no text -/
def closeTok : Token := { sepTok with lineNo := 14, text := none }

/-- a scenario whose step carries a doc string (a comment line inside the `DocString` node
    before the opening separator: possible at tree level, harmless) -/
def docStringTree : TTree :=
  .node .GherkinDocument
    [.node .Feature
      [.node .FeatureHeader [.leaf featTok],
       .node .ScenarioDefinition
         [.node .Scenario
            [.leaf scTok,
             .node .Step [.leaf stepTok,
               .node .DocString [.leaf commentTok, .leaf sepTok, .leaf (otherTok 13 "{}"), .leaf closeTok]]]]],
     .leaf eofTok]

/-- the hypotheses are satisfiable: the example tree of Props/C03Tree.lean and the doc string
    tree are complete, their leaves well matched, their doc strings opened — and they are document
    trees, so `C01_builder_no_crash` applies; both succeed -/
example : Complete docTree ∧ DocStringsOpened docTree ∧ (∀ tk ∈ leaves docTree, WellMatched tk) ∧
    docTree.isDocument = true := by kdecide
example : Complete docStringTree ∧ DocStringsOpened docStringTree ∧
    (∀ tk ∈ leaves docStringTree, WellMatched tk) ∧ docStringTree.isDocument = true := by kdecide
example : (docOf ((astOf [] docStringTree).run.run 0)).map (fun d => d.feature.map fun f => f.children.length) =
    some (some 1) := by kdecide
example : (applyOps (opsOf docStringTree) BState.reset 0).2.1.result.toOption.join.isSome = true := by
  kdecide

/-- the ragged-table outcome occurs: a complete, well-matched tree whose value is that error -/
example :
    let t : TTree := .node .DataTable [.leaf rowTok1, .leaf rowTokShort]
    Complete t ∧ DocStringsOpened t ∧ (∀ tk ∈ leaves t, WellMatched tk) ∧
    errOf ((astOf [] t).run.run 0) = some (.inr .raggedTable) := by
  kdecide

/-- Why completeness is assumed, and why grammar shape does not replace it: a `Step` node without
    its step line is grammar-shaped, has (no) well-matched leaves — and crashes. -/
example :
    let t : TTree := .node .Step []
    GrammarShaped t ∧ ¬ Complete t ∧ (∀ tk ∈ leaves t, WellMatched tk) ∧
    errOf ((astOf [] t).run.run 0) = some (.inl "AttributeError: get_token(StepLine) is None") := by
  kdecide

/-- Why the leaves must be well matched: a step line whose keyword type was never set. -/
example :
    let t : TTree := .node .Step [.leaf badStepTok]
    Complete t ∧ ¬ WellMatched badStepTok ∧
    errOf ((astOf [] t).run.run 0) = some (.inl "missing field step.keywordType") := by
  kdecide

/-- Why the doc strings must be opened: with the closing separator (well matched: it has its
    keyword) first, the builder reads the media type of a separator that has none. -/
example :
    let t : TTree := .node .DocString [.leaf closeTok, .leaf sepTok]
    Complete t ∧ (∀ tk ∈ leaves t, WellMatched tk) ∧ ¬ DocStringsOpened t ∧
    errOf ((astOf [] t).run.run 0) = some (.inl "missing field docstring separator text") := by
  kdecide

/-- A feature without header, a header without keyword line: `None`, not an error — which is why
    they are not among the required children. -/
example : ((astOf [] (.node .Rule [])).run.run 0).1.toOption.isSome = true ∧
    ((astOf [] (.node .Feature [.node .FeatureHeader []])).run.run 0).1.toOption.isSome = true := by
  kdecide

/-- the matcher lemmas are not vacuous: an opening separator matches outside a doc string and
    gets its text; inside a doc string opened by the same delimiter the line closes it and gets
    none -/
example :
    let μ : MState := { defaultName := lit "en", name := lit "en", dialect := default }
    let t : Token := { line := some (lit "```json"), lineNo := 1 }
    let o := matchLine [] .DocStringSeparator μ t (lit "```json")
    let c := matchLine [] .DocStringSeparator o.μ t (lit "```json")
    (decide (o.res matches .matched), o.tok.text.isSome, o.μ.inDocString) = (true, true, true) ∧
    (decide (c.res matches .matched), c.tok.text.isSome, c.μ.inDocString) = (true, false, false) := by
  kdecide

end examples
end GV
