/-
  Props/C03Tree.lean — property C03, whole-document composition: the AST is a structural
  function of the derivation tree.  Property theorems only; proofs are in Lemmas/AstOf.lean,
  the notions of the statements in Spec/AstOf.lean:

  * `Spec.TTree`     derivation trees whose leaves are the matched tokens;
  * `Spec.opsOf t`   the `start_rule` / `build` / `end_rule` calls the parser makes for `t`;
  * `Spec.applyOps`  the AST builder of Model/Builder.lean run on such a call sequence from a
                     builder state and id counter (stops at the first error);
  * `Spec.astOf cs t` the value of `t` by recursion on the tree: children left to right (a line
                     contributes the item `(kind, token)`, a comment line nothing, a child node
                     `(rule, its value)`), then `transformNode cs` on the node holding these items;
  * `Spec.commentsOf t` the comments of `t`'s comment lines in order;
  * `Spec.docFree t` / `t.isDocument`: no (inner) `GherkinDocument` node.

  * `Spec.srcLocs d` the locations of all elements of the AST read off in source order (tags,
                     then the tagged element, then what it contains; a step, then its table rows or
                     its doc string; header and body rows of an examples table); `Spec.srcLines`
                     their line numbers;
  * `Spec.elemLocs t` the locations of the elements carried by the lines of the tree, line by line
                     (`Spec.leafLocs`: a tag line one per tag; a keyword line, table row or doc
                     string separator its own — of the two separators of a doc string only the
                     first; nothing for comments, blank lines, free text, the language header,
                     the end of file); `Spec.elemLines` their line numbers;
  * `Spec.GrammarShaped t` see Props/C11Tree.lean; it follows from the grammar
                     (`C03_leaves_once_accepted`).

  Which comment list `transformNode` sees: the model passes the comments collected when the
  node's `end_rule` runs.  Only the `GherkinDocument` case reads them, so for every other node
  the parameter `cs` of `astOf` is arbitrary, and for the root it is all comments of the document.
  With a `GherkinDocument` node nested inside another (the grammar has none, see
  `C11_shaped_of_valid` / `Lemmas.isDocument_of_shaped`) a single `cs` would be wrong — last
  example below.
-/
import GherkinVerif.Lemmas.AstLocs
import GherkinVerif.Lemmas.AstShape
import GherkinVerif.KDecide
namespace GV
open Spec

/-- The stack machine computes the fold.  Take any node tree `t` without inner document node, any
    builder state whose stack is non-empty (`top :: rest`), any counter `n` and ANY comment
    list `cs`.  If `astOf cs t` from `n` gives value `v` and counter `n'`, then running the calls
    of `t` succeeds and changes the state in exactly three ways: the single item `(r, v)` is
    appended to the items of `top`; the comments of `t` are appended to the comment list; the
    counter is `n'`.  Nothing else about the stack matters, and nothing else changes. -/
theorem C03_ops_compute_fold (cs : List Comment) (r : RuleType) (ch : List TTree)
    (hd : docFree (.node r ch) = true) (β : BState) (top : Node) (rest : List Node) (n n' : Nat) (v : Val)
    (hs : β.stack = top :: rest) (h : (astOf cs (.node r ch)).run.run n = (.ok v, n')) :
    applyOps (opsOf (.node r ch)) β n =
      (.ok (), { stack := ⟨top.rt, top.items ++ [(.rule r, v)]⟩ :: rest,
                 comments := β.comments ++ commentsOf (.node r ch) }, n') :=
  Lemmas.applyOps_node cs r ch hd β top rest n n' v hs h

/-- The error case: if `astOf cs t` fails with error `e` at counter `n'` — the first `build` or
    `transformNode`, in tree order, that fails — the call sequence stops with the same error
    and the same counter (ids drawn before the failure stay consumed). -/
theorem C03_ops_error (cs : List Comment) (r : RuleType) (ch : List TTree)
    (hd : docFree (.node r ch) = true) (β : BState) (top : Node) (rest : List Node) (n n' : Nat) (e : BErr)
    (hs : β.stack = top :: rest) (h : (astOf cs (.node r ch)).run.run n = (.error e, n')) :
    ∃ β', applyOps (opsOf (.node r ch)) β n = (.error e, β', n') :=
  Lemmas.applyOps_node_error cs r ch hd β top rest n n' e hs h

/-- The same for lines and lists of siblings, in terms of the items they contribute
    (`Spec.itemsOf`): the items are appended to the top node in order. -/
theorem C03_ops_compute_items (cs : List Comment) (t : TTree) (hd : docFree t = true)
    (β : BState) (top : Node) (rest : List Node) (n n' : Nat) (is : List (Key × Val))
    (hs : β.stack = top :: rest) (h : (itemsOf cs t).run.run n = (.ok is, n')) :
    applyOps (opsOf t) β n =
      (.ok (), { stack := ⟨top.rt, top.items ++ is⟩ :: rest, comments := β.comments ++ commentsOf t }, n') :=
  (Lemmas.opsSpec_of_docFree cs t hd β top rest n hs).1 is n' h

/-- Whole documents.  For a document tree `t` (root `GherkinDocument`, no other such node), from
    a fresh builder and counter `n`: if `astOf` — given all comments of the tree — returns `v` and
    `n'`, then the builder's run on the calls of `t` succeeds with counter `n'`, `v` is a document
    `d`, `get_result()` returns `d`, the stack is back to the single bottom node, and the
    document's comments are the comment lines of the tree in order.  So the AST is a structural
    function of the tree: no stack state other than the tree matters. -/
theorem C03_ast_of_tree (t : TTree) (ht : t.isDocument = true) (n n' : Nat) (v : Val)
    (h : (astOf (commentsOf t) t).run.run n = (.ok v, n')) :
    ∃ β, applyOps (opsOf t) BState.reset n = (.ok (), β, n') ∧
      β.stack = [⟨.None_, [(.rule .GherkinDocument, v)]⟩] ∧ β.comments = commentsOf t ∧
      ∃ d, v = .doc d ∧ β.result = .ok (some d) ∧ d.comments = commentsOf t :=
  (Lemmas.ast_of_tree t ht n).1 v n' h

/-- … and if `astOf` fails, the run fails with the same error at the same counter. -/
theorem C03_ast_of_tree_error (t : TTree) (ht : t.isDocument = true) (n n' : Nat) (e : BErr)
    (h : (astOf (commentsOf t) t).run.run n = (.error e, n')) :
    ∃ β, applyOps (opsOf t) BState.reset n = (.error e, β, n') :=
  (Lemmas.ast_of_tree t ht n).2 e n' h

/-- Every element once, in source order.  For a grammar-shaped tree `t` whose value is the
    document `d`: the locations (line and column) of all elements of the AST — features, rules,
    backgrounds, scenarios, examples blocks, steps, table rows, doc strings, tags — read off in
    source order are exactly the locations of the elements carried by the lines of the tree, line
    by line.  So every line that carries an element (every non-comment, non-blank, non-free-text
    line except the language header, the closing doc string separator and the end of file)
    appears in the AST exactly once — a tag line once per tag —, under the node the tree puts it,
    in source order, and nothing else has a location in the AST.  (Comments: `C03_ast_of_tree`,
    `d.comments = commentsOf t`.  Not covered: descriptions and doc string content, which are
    text without location; cells, which are part of their row; a data table's own location,
    which is its first row's.) -/
theorem C03_leaves_once_in_order (t : TTree) (hs : GrammarShaped t) (cs : List Comment) (n n' : Nat) (d : Doc)
    (h : (astOf cs t).run.run n = (.ok (.doc d), n')) :
    srcLocs d = elemLocs t ∧ srcLines d = elemLines t :=
  ⟨Lemmas.leaves_once_in_order t hs cs n n' d h, Lemmas.lines_once_in_order t hs cs n n' d h⟩

/-- … in particular for every accepted document: a tree whose projection to line kinds is a valid
    derivation tree of gherkin.berp (`C02_events_valid_tree`) is grammar-shaped. -/
theorem C03_leaves_once_accepted (t : TTree) (hv : ValidTree Gen.grammar .GherkinDocument t.kinds)
    (cs : List Comment) (n n' : Nat) (d : Doc) (h : (astOf cs t).run.run n = (.ok (.doc d), n')) :
    srcLocs d = elemLocs t ∧ srcLines d = elemLines t :=
  C03_leaves_once_in_order t (Lemmas.shaped_of_valid_gen t hv) cs n n' d h

/-- The same for every subtree: the element locations inside the value of any grammar-shaped node
    tree (`Lemmas.valLocs` extends `srcLocs` to all values of the builder) are those of its lines. -/
theorem C03_subtree_locs (r : RuleType) (ch : List TTree) (hs : GrammarShaped (.node r ch))
    (cs : List Comment) (n n' : Nat) (v : Val) (h : (astOf cs (.node r ch)).run.run n = (.ok v, n')) :
    Lemmas.valLocs v = elemLocs (.node r ch) :=
  Lemmas.valLocs_astOf r ch hs cs n n' v h

/-! ### non-vacuity -/
section examples
open Lemmas.Ex

/-- the hypotheses of `C03_ast_of_tree` are satisfiable: `astOf` succeeds on the tree, from
    counter 5 to counter 15, with both comments and one feature child -/
example : docTree.isDocument = true := rfl
example : ((astOf (commentsOf docTree) docTree).run.run 5).2 = 15 := by kdecide
example : (docOf ((astOf (commentsOf docTree) docTree).run.run 5)).map (fun d =>
      (d.comments.map (·.loc.line), d.feature.map (·.children.length))) = some ([2, 6], some 1) := by
  kdecide
/-- … and the builder's run gives the same document -/
example : (applyOps (opsOf docTree) BState.reset 5).2.1.result.toOption.join =
    docOf ((astOf (commentsOf docTree) docTree).run.run 5) := by kdecide

/-- a failing tree: the short row makes the data table ragged; the error is raised when the
    `DataTable` node ends, after its three row ids were drawn -/
example : (itemsOf [] (.node .DataTable [.leaf rowTok1, .leaf rowTokShort, .leaf rowTok2])).run.run 5 =
    (.error (.ast ⟨.raggedTable, ⟨11, some 1⟩, lit "inconsistent cell count within the table"⟩), 8) := rfl

/-- Why `docFree` is assumed: a document node nested in another is given only the comments
    collected before its own `end_rule` (here two), the outer one all three — one fixed `cs`
    cannot serve both: the fold with the root's `cs` would give the inner document three. -/
example :
    let inner : TTree := .node .GherkinDocument [.leaf commentTok2]
    let nested : TTree := .node .GherkinDocument [.leaf commentTok, inner, .leaf commentTok2]
    (applyOps ([.start .GherkinDocument, .build commentTok] ++ opsOf inner) BState.reset 0).2.1.stack.head?.map
        (fun nd => nd.items.map fun kv => (docOf (.ok kv.2, 0)).map (·.comments.length)) = some [some 2] ∧
    (docOf ((astOf (commentsOf nested) inner).run.run 0)).map (·.comments.length) = some 3 ∧
    (applyOps (opsOf nested) BState.reset 0).2.1.result.toOption.join.map (·.comments.length) = some 3 := by
  kdecide

/-- `docTree` is grammar-shaped; its eleven elements in source order: the feature, three tags,
    the scenario, the step, two data-table rows, the examples block, header and body row — and
    these are the locations carried by its lines (the example tokens carry arbitrary line numbers) -/
example : GrammarShaped docTree := by kdecide
example : (docOf ((astOf [] docTree).run.run 5)).map srcLocs = some (elemLocs docTree) ∧
    elemLines docTree = [1, 6, 6, 7, 5, 3, 9, 10, 8, 9, 10] := by kdecide

/-- Why the shape is needed: a step line directly under the `Feature` node (not derivable from
    the grammar) is built without error and carries a location, but no element of the AST. -/
example :
    let bad : TTree := .node .GherkinDocument [.node .Feature [.node .FeatureHeader [.leaf featTok], .leaf stepTok]]
    GrammarShaped bad = False ∧
    (docOf ((astOf [] bad).run.run 0)).map srcLines = some [1] ∧ elemLines bad = [1, 3] := by
  kdecide

end examples
end GV
