/-
  Props/C18AnyRun.lean — property C18 for EVERY run: accepted, rejected in either error mode,
  aborted by the error cap.  (`C03_parse_tokens`, Props/C03Doc.lean, has the token statement for
  accepted documents in collecting mode only; `C18_partition`, Props/C18.lean, the partition as
  line NUMBERS of the tokens read; `C18_reads_in_order`, Props/C18Order.lean, the order of reading.)

  For every source text, both error modes, every outcome, every incoming matcher state whose
  dialect after `reset()` is one of the dialect table, every id counter:

  * `C18_built_tokens_are_lines`: every token handed to the builder is the end-of-file token
    (no text, kind `EOF`, numbered one more than the number of physical lines) or the matcher's
    output on the FRESH token of the physical line with the token's number: `t.lineNo`-th line `l`,
    `t.line = some l`, and `t = (matchLine D K μᵢ (freshTok l t.lineNo) l).tok` for a kind `K` and a
    matcher state `μᵢ` of the dialect table on which `match_<K>` succeeds; `t.mtype = some K`.
    Whatever earlier FAILED tests or a look-ahead wrote into the token (e.g. the `Language` test
    that raises "Language not supported" leaves its fields behind) is overwritten.
    `C18_built_token_fields`: hence a built table row carries `tableCells l` and column
    indent + 1, a tag line the tags of `l`, steps / separators / keyword lines column indent + 1,
    comments / blank lines / `Other` lines column 1 — of their OWN physical line.
  * `C18_builds_strictly_increasing`: the line numbers handed to the builder are strictly
    increasing, so are the line numbers reported as unexpected, no number is in both, and all lie
    in `1 … (number of lines) + 1`.
  * `C18_rejected_partition_lines`: when the run reached the end of the source — the document was
    accepted, or rejected with a composite error of at most `errorCap` errors (collecting mode;
    a composite error with `errorCap + 1` entries is the abort by the cap) — the built and the
    reported line numbers together are exactly `1 … (number of lines) + 1`: every physical line
    and the end of file was delivered to the builder or reported as unexpected, never both, never
    neither.  `C18_line_delivered_xor_reported` is the per-line reading of it, with the text of the
    line for a delivered one.

  Method: a run invariant on the queue-free parse (Lemmas/AnyRun.lean), transferred to the parser
  with its token queue by `C18_queue_refines_peek`; the per-test lemma is `Lemmas.matchTok_fresh` of
  the accepted-case development (Lemmas/ParseDoc.lean), which is outcome-independent.  Generic
  forms (`…_generic`) hold for every table and dialect table passing the Boolean checks
  `queueDialectFacts`, `queueFacts`, `commentBlankTested`, `oneBuildLast`.

  Not claimed here: which kind `K` is chosen (for accepted documents `Spec.LineToks` adds
  `passes (intrinsicKind …) K` and the evolution of the matcher state by `Spec.muAfter`; on a
  rejected run the state after an unexpected line is the error tail's, which the accepted-case
  trace does not describe); `Spec.sepOK μᵢ` (no matcher-level preservation lemma exists yet).
-/
import GherkinVerif.Lemmas.AnyRunFields
import GherkinVerif.Props.C18
import GherkinVerif.Props.C18Pure
import GherkinVerif.KDecide
namespace GV
open Spec

/-! ### (1) every built token is the matcher's output on its own physical line -/

/-- generic form -/
theorem C18_built_tokens_are_lines_generic (D : List Dialect) (T : Table)
    (hD : queueDialectFacts D = true) (hQ : queueFacts T = true) (hCB : commentBlankTested T = true)
    (hB : oneBuildLast T = true) (stop : Bool) (μ : MState) (ids : Nat) (src : Str) (hμ : (μ.reset D).dialect ∈ D) :
    ∀ t ∈ (parseWith D T stop μ ids src).2.builds,
      (t.line = none ∧ t.mtype = some .EOF ∧ t.lineNo = (splitLines src).length + 1) ∨
      (∃ l, (splitLines src)[t.lineNo - 1]? = some l ∧ 1 ≤ t.lineNo ∧ t.line = some l ∧
        ∃ K μi, μi.dialect ∈ D ∧ (matchLine D K μi (freshTok l t.lineNo) l).res = .matched ∧
          t = (matchLine D K μi (freshTok l t.lineNo) l).tok ∧ t.mtype = some K) :=
  (AnyRun.anyrun hD hQ hCB hB stop μ ids src hμ).1

/-- **Every run.**  Whatever the outcome and the error mode: each token handed to the AST builder is
    the end-of-file token, or the matcher's output on the fresh token of the physical line that has
    the token's number. -/
theorem C18_built_tokens_are_lines (stop : Bool) (μ : MState) (ids : Nat) (src : Str)
    (hμ : (μ.reset Gen.dialects).dialect ∈ Gen.dialects) :
    ∀ t ∈ (parseWith Gen.dialects Gen.parserTable stop μ ids src).2.builds,
      (t.line = none ∧ t.mtype = some .EOF ∧ t.lineNo = (splitLines src).length + 1) ∨
      (∃ l, (splitLines src)[t.lineNo - 1]? = some l ∧ 1 ≤ t.lineNo ∧ t.line = some l ∧
        ∃ K μi, μi.dialect ∈ Gen.dialects ∧
          (matchLine Gen.dialects K μi (freshTok l t.lineNo) l).res = .matched ∧
          t = (matchLine Gen.dialects K μi (freshTok l t.lineNo) l).tok ∧ t.mtype = some K) :=
  C18_built_tokens_are_lines_generic _ _ C18_fact_keywords C18_fact_queue C18_fact_comment_blank C18_fact_builds
    stop μ ids src hμ

/-- … in particular the fields the builder reads are those of the token's OWN physical line `l`:
    a table row carries the cells of `l` and column indent + 1; a tag line the tags of `l`; steps,
    doc-string separators and keyword lines column indent + 1; comments, blank lines and `Other`
    lines column 1.  (The end-of-file token has no text.) -/
theorem C18_built_token_fields (stop : Bool) (μ : MState) (ids : Nat) (src : Str)
    (hμ : (μ.reset Gen.dialects).dialect ∈ Gen.dialects) :
    ∀ t ∈ (parseWith Gen.dialects Gen.parserTable stop μ ids src).2.builds,
      (t.line = none ∧ t.mtype = some .EOF ∧ t.lineNo = (splitLines src).length + 1) ∨
      (∃ l, (splitLines src)[t.lineNo - 1]? = some l ∧ t.line = some l ∧
        (t.mtype = some .TableRow → t.items = tableCells l ∧ t.col = some (lineIndent l + 1)) ∧
        (t.mtype = some .TagLine → lineTags l = .ok t.items ∧ t.col = some (lineIndent l + 1)) ∧
        (t.mtype = some .StepLine ∨ t.mtype = some .DocStringSeparator ∨ t.mtype = some .FeatureLine ∨
          t.mtype = some .RuleLine ∨ t.mtype = some .BackgroundLine ∨ t.mtype = some .ScenarioLine ∨
          t.mtype = some .ExamplesLine → t.col = some (lineIndent l + 1)) ∧
        (t.mtype = some .Comment ∨ t.mtype = some .Empty ∨ t.mtype = some .Other → t.col = some 1)) := by
  intro t ht
  rcases (AnyRun.anyrun C18_fact_keywords C18_fact_queue C18_fact_comment_blank C18_fact_builds
    stop μ ids src hμ).1 t ht with h | h
  · exact .inl h
  · exact .inr (AnyRun.lineTok_fields h)

/-! ### (2) order -/

/-- generic form -/
theorem C18_builds_strictly_increasing_generic (D : List Dialect) (T : Table)
    (hD : queueDialectFacts D = true) (hQ : queueFacts T = true) (hCB : commentBlankTested T = true)
    (hB : oneBuildLast T = true) (stop : Bool) (μ : MState) (ids : Nat) (src : Str) (hμ : (μ.reset D).dialect ∈ D) :
    let ctx := (parseWith D T stop μ ids src).2
    (ctx.builds.map (·.lineNo)).Pairwise (· < ·) ∧ ctx.unexpected.Pairwise (· < ·) ∧
    (∀ k ∈ ctx.builds.map (·.lineNo), k ∉ ctx.unexpected) ∧
    (∀ k ∈ ctx.builds.map (·.lineNo) ++ ctx.unexpected, 1 ≤ k ∧ k ≤ (splitLines src).length + 1) := by
  intro ctx
  obtain ⟨hp, hs1, hs2⟩ := Lemmas.partition D T hB stop μ ids src
  obtain ⟨-, ⟨n, hn, hr⟩, -⟩ := AnyRun.anyrun hD hQ hCB hB stop μ ids src hμ
  obtain ⟨h1, h2, h3, h4⟩ := AnyRun.order_of_partition hr hp hs1 hs2
  exact ⟨h1, h2, h3, fun k hk => ⟨(h4 k hk).1, Nat.le_trans (h4 k hk).2 hn⟩⟩

/-- **Every run.**  The line numbers of the tokens handed to the builder are strictly increasing; so
    are the line numbers reported as unexpected; no line number is in both; all are numbers of
    physical lines or of the end of file. -/
theorem C18_builds_strictly_increasing (stop : Bool) (μ : MState) (ids : Nat) (src : Str)
    (hμ : (μ.reset Gen.dialects).dialect ∈ Gen.dialects) :
    let ctx := (parseWith Gen.dialects Gen.parserTable stop μ ids src).2
    (ctx.builds.map (·.lineNo)).Pairwise (· < ·) ∧ ctx.unexpected.Pairwise (· < ·) ∧
    (∀ k ∈ ctx.builds.map (·.lineNo), k ∉ ctx.unexpected) ∧
    (∀ k ∈ ctx.builds.map (·.lineNo) ++ ctx.unexpected, 1 ≤ k ∧ k ≤ (splitLines src).length + 1) :=
  C18_builds_strictly_increasing_generic _ _ C18_fact_keywords C18_fact_queue C18_fact_comment_blank C18_fact_builds
    stop μ ids src hμ

/-! ### (3) a run that reaches the end of the source delivers or reports every line -/

/-- generic form -/
theorem C18_rejected_partition_lines_generic (D : List Dialect) (T : Table)
    (hD : queueDialectFacts D = true) (hQ : queueFacts T = true) (hCB : commentBlankTested T = true)
    (hB : oneBuildLast T = true) (stop : Bool) (μ : MState) (ids : Nat) (src : Str) (hμ : (μ.reset D).dialect ∈ D)
    (hfin : (∃ d, (parseWith D T stop μ ids src).1 = .ok d) ∨
      (∃ es, (parseWith D T stop μ ids src).1 = .rejected es true ∧ es.length ≤ T.errorCap)) :
    let ctx := (parseWith D T stop μ ids src).2
    (ctx.builds.map (·.lineNo) ++ ctx.unexpected).Perm (List.range' 1 ((splitLines src).length + 1)) ∧
    ctx.reads = List.range' 1 ((splitLines src).length + 1) ∧
    ∀ k, 1 ≤ k → k ≤ (splitLines src).length + 1 →
      (k ∈ ctx.builds.map (·.lineNo) ∧ k ∉ ctx.unexpected) ∨ (k ∉ ctx.builds.map (·.lineNo) ∧ k ∈ ctx.unexpected) := by
  intro ctx
  obtain ⟨-, -, h⟩ := AnyRun.anyrun hD hQ hCB hB stop μ ids src hμ
  obtain ⟨hfull, hr⟩ := h hfin
  have hp : (ctx.builds.map (·.lineNo) ++ ctx.unexpected).Perm (List.range' 1 ((splitLines src).length + 1)) := by
    rw [← hr]; exact hfull.1
  have hdis := (C18_builds_strictly_increasing_generic D T hD hQ hCB hB stop μ ids src hμ).2.2.1
  exact ⟨hp, hr, fun k h1 h2 => AnyRun.xor_of_full hp hdis k h1 h2⟩

/-- **Rejected within the cap (or accepted).**  Collecting mode, the parse ended with a composite
    error of at most `errorCap` errors (or accepted the document): the line numbers delivered to the
    builder and the line numbers reported as unexpected together are exactly
    `1 … (number of physical lines) + 1` — each physical line and the end of file delivered or
    reported, never both, never neither; all of them were read, in order. -/
theorem C18_rejected_partition_lines (stop : Bool) (μ : MState) (ids : Nat) (src : Str)
    (hμ : (μ.reset Gen.dialects).dialect ∈ Gen.dialects)
    (hfin : (∃ d, (parseWith Gen.dialects Gen.parserTable stop μ ids src).1 = .ok d) ∨
      (∃ es, (parseWith Gen.dialects Gen.parserTable stop μ ids src).1 = .rejected es true ∧
        es.length ≤ Gen.parserTable.errorCap)) :
    let ctx := (parseWith Gen.dialects Gen.parserTable stop μ ids src).2
    (ctx.builds.map (·.lineNo) ++ ctx.unexpected).Perm (List.range' 1 ((splitLines src).length + 1)) ∧
    ctx.reads = List.range' 1 ((splitLines src).length + 1) ∧
    ∀ k, 1 ≤ k → k ≤ (splitLines src).length + 1 →
      (k ∈ ctx.builds.map (·.lineNo) ∧ k ∉ ctx.unexpected) ∨ (k ∉ ctx.builds.map (·.lineNo) ∧ k ∈ ctx.unexpected) :=
  C18_rejected_partition_lines_generic _ _ C18_fact_keywords C18_fact_queue C18_fact_comment_blank C18_fact_builds
    stop μ ids src hμ hfin

/-- the same, line by line and with the text: the `i`-th physical line `l` (0-based) was delivered to
    the builder as a token with number `i + 1` and text `l`, the matcher's output on its fresh token,
    and not reported — or reported as unexpected and not delivered -/
theorem C18_line_delivered_xor_reported (stop : Bool) (μ : MState) (ids : Nat) (src : Str)
    (hμ : (μ.reset Gen.dialects).dialect ∈ Gen.dialects)
    (hfin : (∃ d, (parseWith Gen.dialects Gen.parserTable stop μ ids src).1 = .ok d) ∨
      (∃ es, (parseWith Gen.dialects Gen.parserTable stop μ ids src).1 = .rejected es true ∧
        es.length ≤ Gen.parserTable.errorCap))
    (i : Nat) (l : Str) (hi : (splitLines src)[i]? = some l) :
    let ctx := (parseWith Gen.dialects Gen.parserTable stop μ ids src).2
    ((∃ t ∈ ctx.builds, t.lineNo = i + 1 ∧ t.line = some l ∧
        ∃ K μi, μi.dialect ∈ Gen.dialects ∧
          (matchLine Gen.dialects K μi (freshTok l (i + 1)) l).res = .matched ∧
          t = (matchLine Gen.dialects K μi (freshTok l (i + 1)) l).tok ∧ t.mtype = some K) ∧
      i + 1 ∉ ctx.unexpected) ∨
    ((∀ t ∈ ctx.builds, t.lineNo ≠ i + 1) ∧ i + 1 ∈ ctx.unexpected) := by
  intro ctx
  have hlen : i < (splitLines src).length := by
    rcases Nat.lt_or_ge i (splitLines src).length with h | h
    · exact h
    · rw [List.getElem?_eq_none h] at hi; cases hi
  obtain ⟨-, -, hx⟩ := C18_rejected_partition_lines stop μ ids src hμ hfin
  rcases hx (i + 1) (Nat.le_add_left _ _) (by omega) with ⟨hb, hu⟩ | ⟨hb, hu⟩
  · left
    refine ⟨?_, hu⟩
    obtain ⟨t, ht, hno⟩ := List.mem_map.1 hb
    have hno : t.lineNo = i + 1 := hno
    refine ⟨t, ht, hno, ?_⟩
    rcases C18_built_tokens_are_lines stop μ ids src hμ t ht with ⟨-, -, h3⟩ | ⟨l', hl', -, hline, K, μi, h1, h2, h3, h4⟩
    · omega
    · rw [hno] at hl' h2 h3
      have : l' = l := by
        rw [Nat.add_sub_cancel, hi] at hl'
        exact (Option.some.inj hl').symm
      subst this
      exact ⟨hline, K, μi, h1, h2, h3, h4⟩
  · right
    exact ⟨fun t ht hno => hb (List.mem_map.2 ⟨t, ht, hno⟩), hu⟩

/-! ### non-vacuity -/
section examples

/-- `foo` in line 4 is unexpected after a step; the parse carries on -/
def C18A_demo : Str := lit "Feature: f\nScenario: s\nGiven x\nfoo\nGiven y\n"

/-- collecting mode: rejected with one error; lines 1, 2, 3, 5 and the end of file (6) were
    delivered to the builder, line 4 was reported; all six tokens were read -/
example : (MState.init Gen.dialects (lit "en")).map (fun μ =>
      let r := parseWith Gen.dialects Gen.parserTable false μ 0 C18A_demo
      ((match r.1 with | .rejected es true => some es.length | _ => none),
       r.2.builds.map (·.lineNo), r.2.unexpected, r.2.reads, (splitLines C18A_demo).length)) =
    some (some 1, [1, 2, 3, 5, 6], [4], [1, 2, 3, 4, 5, 6], 5) := by kdecide

/-- all fields equal (tokens have no decidable equality of their own) -/
def C18A_same (a b : Token) : Bool :=
  decide (a.line = b.line) && decide (a.lineNo = b.lineNo) && decide (a.col = b.col) && decide (a.mtype = b.mtype) &&
  decide (a.text = b.text) && decide (a.keyword = b.keyword) && decide (a.ktype = b.ktype) &&
  decide (a.indent = b.indent) && decide (a.items = b.items) && decide (a.dialect = b.dialect)

def C18A_sameList : List Token → List Token → Bool
  | [], [] => true
  | a :: as, b :: bs => C18A_same a b && C18A_sameList as bs
  | _, _ => false

/-- the built tokens are the matcher's outputs on the fresh tokens of lines 1, 2, 3, 5 (under the
    matcher state made for `en`, which no line of the demo changes), then the end-of-file token -/
example : (MState.init Gen.dialects (lit "en")).map (fun μ =>
      C18A_sameList (parseWith Gen.dialects Gen.parserTable false μ 0 C18A_demo).2.builds
        [(matchLine Gen.dialects .FeatureLine (μ.reset Gen.dialects) (freshTok (lit "Feature: f\n") 1) (lit "Feature: f\n")).tok,
         (matchLine Gen.dialects .ScenarioLine (μ.reset Gen.dialects) (freshTok (lit "Scenario: s\n") 2) (lit "Scenario: s\n")).tok,
         (matchLine Gen.dialects .StepLine (μ.reset Gen.dialects) (freshTok (lit "Given x\n") 3) (lit "Given x\n")).tok,
         (matchLine Gen.dialects .StepLine (μ.reset Gen.dialects) (freshTok (lit "Given y\n") 5) (lit "Given y\n")).tok,
         (matchTok Gen.dialects .EOF (μ.reset Gen.dialects) { line := none, lineNo := 6 }).1.tok]) =
    some true := by kdecide

/-- stop-at-first-error mode: the run ends at line 4 with the bare exception; lines 1, 2, 3 were
    delivered, line 4 reported, lines 5 and the end of file never read -/
example : (MState.init Gen.dialects (lit "en")).map (fun μ =>
      let r := parseWith Gen.dialects Gen.parserTable true μ 0 C18A_demo
      ((match r.1 with | .rejected es false => some es.length | _ => none),
       r.2.builds.map (·.lineNo), r.2.unexpected, r.2.reads)) =
    some (some 1, [1, 2, 3], [4], [1, 2, 3, 4]) := by kdecide

/-- a failed test leaves its mark but the delivered token does not carry it: `#language: xx` (unknown
    language) makes `match_Language` raise and write the token; in collecting mode the same token is
    then matched as a `Comment`, and what the builder receives is the `Comment` match of the FRESH
    token of line 1 -/
example : (MState.init Gen.dialects (lit "en")).map (fun μ =>
      let r := parseWith Gen.dialects Gen.parserTable false μ 0 (lit "#language: xx\nFeature: f\n")
      (r.2.builds.map (·.lineNo), r.2.unexpected, r.2.errors.length,
       C18A_sameList (r.2.builds.take 1) [(matchLine Gen.dialects .Comment (μ.reset Gen.dialects)
         (freshTok (lit "#language: xx\n") 1) (lit "#language: xx\n")).tok])) =
    some ([1, 2, 3], [], 1, true) := by kdecide

end examples

end GV
