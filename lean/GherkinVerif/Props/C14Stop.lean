/-
  Props/C14Stop.lean — property C14, last sentence, first half: "Stop-at-first-error mode raises
  precisely the first error that collecting mode lists."  Proved for every dialect list, every
  table, every matcher state, id counter and source text, by a simulation between the two runs of
  the glue model (Lemmas/StopFirst.lean): while nothing has been reported the two modes do
  exactly the same thing; the first `add_error` of collecting mode is the `raise` of stop mode;
  afterwards collecting mode only ever appends to its list.

  "First" means first in the order collecting mode lists them, which is the order in which they
  are detected — not line order (see the example at the end).
-/
import GherkinVerif.Lemmas.StopFirst
import GherkinVerif.Gen.ParserTable
import GherkinVerif.Gen.Dialects
import GherkinVerif.KDecide
namespace GV

/-- If collecting mode rejects a document with the error list `e :: rest`, stop-at-first-error
    mode rejects the same document with exactly the one error `e` (a bare `ParserException`,
    not a composite). -/
theorem C14_stop_is_first (D : List Dialect) (T : Table) (μ : MState) (ids : Nat) (src : Str)
    (e : PErr) (rest : List PErr) (comp : Bool)
    (h : (parseWith D T false μ ids src).1 = .rejected (e :: rest) comp) :
    (parseWith D T true μ ids src).1 = .rejected [e] false :=
  Lemmas.stop_is_first D T μ ids src e rest comp h

/-- Conversely: if stop mode rejects a document with the error `e`, then collecting mode rejects
    it with a composite whose first error is `e` — or its run, which carries on after `e`, ends
    in one of the model's explicit `crash` / `fuel` outcomes.  (The collecting run continues past
    the point where the stop run ended; that the AST builder never raises a non-parser exception
    on what follows is not proved yet, so `crash` cannot be excluded here.  `fuel` is excluded
    below for tables whose look-aheads stop at end of file.) -/
theorem C14_stop_rejects_iff (D : List Dialect) (T : Table) (μ : MState) (ids : Nat) (src : Str)
    (e : PErr) (comp : Bool) (h : (parseWith D T true μ ids src).1 = .rejected [e] comp) :
    (∃ rest, (parseWith D T false μ ids src).1 = .rejected (e :: rest) true) ∨
    (∃ w, (parseWith D T false μ ids src).1 = .crash w) ∨
    (parseWith D T false μ ids src).1 = .fuel :=
  Lemmas.stop_rejects D T μ ids src e comp h

/-- The same without the `fuel` alternative, for a table whose look-aheads stop at end of file
    (`C01_fact_lookaheads` checks this for the generated table). -/
theorem C14_stop_rejects_iff_term (D : List Dialect) (T : Table) (hT : Spec.lookaheadsStopAtEOF T = true)
    (μ : MState) (ids : Nat) (src : Str)
    (e : PErr) (comp : Bool) (h : (parseWith D T true μ ids src).1 = .rejected [e] comp) :
    (∃ rest, (parseWith D T false μ ids src).1 = .rejected (e :: rest) true) ∨
    (∃ w, (parseWith D T false μ ids src).1 = .crash w) :=
  Lemmas.stop_rejects_term D T hT μ ids src e comp h

/-- Stop mode accepts a document exactly when collecting mode does, with the same AST. -/
theorem C14_accept_same (D : List Dialect) (T : Table) (μ : MState) (ids : Nat) (src : Str) (d : Doc) :
    (parseWith D T true μ ids src).1 = .ok d ↔ (parseWith D T false μ ids src).1 = .ok d :=
  Lemmas.accept_same D T μ ids src d

/-- When either mode accepts, the two runs are identical throughout: same outcome and same final
    context (matcher state, id counter, tokens read, tokens built, match calls). -/
theorem C14_accept_same_run (D : List Dialect) (T : Table) (μ : MState) (ids : Nat) (src : Str) (d : Doc)
    (h : (parseWith D T true μ ids src).1 = .ok d ∨ (parseWith D T false μ ids src).1 = .ok d) :
    parseWith D T true μ ids src = parseWith D T false μ ids src :=
  Lemmas.accept_same_run D T μ ids src d h

/-- The complete picture.  Either the two modes run identically and the outcome is a document, a
    crash or fuel; or stop mode raises one error `e` and collecting mode lists `e` first (or ends
    in crash / fuel after having recorded `e`). -/
theorem C14_modes (D : List Dialect) (T : Table) (μ : MState) (ids : Nat) (src : Str) :
    (parseWith D T true μ ids src = parseWith D T false μ ids src ∧
      ((∃ d, (parseWith D T false μ ids src).1 = .ok d) ∨ (∃ w, (parseWith D T false μ ids src).1 = .crash w) ∨
        (parseWith D T false μ ids src).1 = .fuel)) ∨
    (∃ e, (parseWith D T true μ ids src).1 = .rejected [e] false ∧
      ((∃ rest, (parseWith D T false μ ids src).1 = .rejected (e :: rest) true) ∨
        (∃ w, (parseWith D T false μ ids src).1 = .crash w) ∨ (parseWith D T false μ ids src).1 = .fuel)) :=
  Lemmas.parse_modes D T μ ids src

/-! ### non-vacuity, on the generated table and dialects -/

/-- (line, column) of the errors of a rejected parse -/
def rejectedAt : Outcome → Option (List (Nat × Nat))
  | .rejected es _ => some (es.map fun e => (e.loc.line, e.loc.col.getD 0))
  | _ => none

/-- A ragged table (line 5) followed by a stray line (line 6): collecting mode lists the stray
    line first, because the table is only checked when it is closed (here at end of file), then
    the ragged row; stop mode raises the stray-line error alone. -/
example :
    (MState.init Gen.dialects (lit "en")).map
      (fun μ => rejectedAt (parseWith Gen.dialects Gen.parserTable false μ 0
        (lit "Feature: f\nScenario: s\nGiven x\n|a|b|\n|c|\nbogus\n")).1) =
      some (some [(6, 1), (5, 1)]) ∧
    (MState.init Gen.dialects (lit "en")).map
      (fun μ => rejectedAt (parseWith Gen.dialects Gen.parserTable true μ 0
        (lit "Feature: f\nScenario: s\nGiven x\n|a|b|\n|c|\nbogus\n")).1) =
      some (some [(6, 1)]) := by kdecide

end GV
