/-
  Props/C01.lean — property C01: the parse/compile pipeline is total and fails only with typed,
  located errors.  (Linear matching work: not proved, see the note below.)

  Status: the outcome-form, termination and stream-kind statements are proved for every source
  text and every (regenerated) table satisfying the kernel-checked facts below.  Crash-freedom of
  the *builder* on arbitrary inputs (C01_no_crash: no AttributeError/IndexError) is NOT proved
  yet — it needs the typed-stack invariant; the model represents those crashes explicitly and the
  correspondence streams compare them (see DESIGN.md §C01).
-/
import GherkinVerif.Lemmas.Glue
import GherkinVerif.Lemmas.Compile
import GherkinVerif.Spec.TableFacts
import GherkinVerif.Gen.ParserTable
import GherkinVerif.KDecide
namespace GV

/-- facts about the regenerated table used below -/
theorem C01_fact_lookaheads : Spec.lookaheadsStopAtEOF Gen.parserTable = true := by kdecide

/-- Outcome form: a rejected parse carries exactly one error in stop-at-first-error mode and, in
    collecting mode, between one and `cap + 1` (= eleven) errors with pairwise distinct messages. -/
theorem C01_parse_outcome (D : List Dialect) (T : Table) (stop : Bool) (μ : MState) (ids : Nat) (src : Str)
    (es : List PErr) (comp : Bool) (h : (parseWith D T stop μ ids src).1 = .rejected es comp) :
    (stop = true → es.length = 1 ∧ comp = false) ∧
    (stop = false → comp = true ∧ 1 ≤ es.length ∧ es.length ≤ T.errorCap + 1 ∧ (es.map PErr.message).Nodup) :=
  Lemmas.parse_outcome D T stop μ ids src es comp h

theorem C01_error_cap_is_ten : Gen.parserTable.errorCap + 1 = 11 := by decide

/-- Nothing hangs: the parse loop and both look-ahead loops finish within their fuel for every
    source text — the model's `fuel` outcome is unreachable.  (Look-ahead re-queues what it read
    and never reads past the end of file.) -/
theorem C01_parse_terminates (D : List Dialect) (T : Table) (hT : Spec.lookaheadsStopAtEOF T = true)
    (stop : Bool) (μ : MState) (ids : Nat) (src : Str) :
    (parseWith D T stop μ ids src).1 ≠ .fuel :=
  Lemmas.parse_terminates D T hT stop μ ids src

/-- Every reported error lies within the document: line between 1 and (number of lines + 1). -/
theorem C01_error_lines (D : List Dialect) (T : Table) (hT : Spec.lookaheadsStopAtEOF T = true)
    (stop : Bool) (μ : MState) (ids : Nat) (src : Str) (es : List PErr) (comp : Bool)
    (h : (parseWith D T stop μ ids src).1 = .rejected es comp) :
    ∀ e ∈ es, 1 ≤ e.loc.line ∧ e.loc.line ≤ (splitLines src).length + 1 :=
  Lemmas.parse_error_lines D T hT stop μ ids src es comp h

/- Linear matching work: false for an arbitrary table (counter-example in Lemmas/Glue.lean); proved for
   the regenerated table under kernel-checked queue facts in Props/C01Linear.lean
   (`C01_match_calls_linear`: calls ≤ workPerToken T · (lines + 1), workPerToken = 20 today). -/

/-- Compiling any rectangular document returns a list of pickles (totality; from C06). -/
theorem C01_compile_total (uri : Str) (doc : Doc) (n : Nat) (h : Spec.rectangular doc) :
    ∃ r, compile uri doc n = some r :=
  Lemmas.compile_total uri doc n h

/-- The stream turns any source into source / gherkinDocument / pickle / parseError envelopes
    only — unless the model's explicit crash outcome occurs, which is what C01_no_crash (not yet
    proved) excludes. -/
theorem C01_stream_kinds (D : List Dialect) (T : Table) (opts : Opts) (ids : Nat) (uri data : Str) :
    ∀ e ∈ (streamEnum D T opts ids uri data).1,
      (∃ u d, e = .source u d) ∨ (∃ u d, e = .gherkinDocument u d) ∨ (∃ p, e = .pickle p) ∨
      (∃ u x, e = .parseError u x) ∨ (∃ w, e = .crash w) :=
  Lemmas.stream_kinds D T opts ids uri data

end GV
