/-
  Driver/GenAst.lean — harness tooling (not part of the model): decode a list of natural
  numbers into a synthetic GherkinDocument of the parser_types.py shape, including shapes the
  parser never produces (several backgrounds, backgrounds after scenarios, header-only and
  header-less examples, duplicate tags).  Every choice is read from the descriptor, so a case
  replays exactly and shrinks by shortening/zeroing the descriptor.
-/
import GherkinVerif.Model.Ast
open GV

namespace Driver

structure GS where
  data : List Nat
  nextId : Nat := 0

abbrev GM := StateM GS

def pick (bound : Nat) : GM Nat := do
  let s ← get
  match s.data with
  | [] => pure 0
  | x :: xs => set { s with data := xs }; pure (if bound == 0 then 0 else x % bound)

def fresh : GM Nat := do
  let s ← get
  set { s with nextId := s.nextId + 1 }
  pure s.nextId

def pool : List Str := [
  lit "", lit "a", lit "<a>", lit "x <a> y <b>", lit "<b><a>", lit "<c>", lit "a.b", lit "<a.b>", lit "<axb>",
  lit "\\", lit "$1", lit "\\1 \\g<0>", lit "<<a>>", lit "<a", lit "b>", lit "é😀", lit "<a(b>", lit "a(b",
  lit "line1\nline2 <a>", lit "text", lit "<>", lit "<a><a>", lit "[x]", lit "^$", lit "*", lit "<*>"]

def headerPool : List Str := [lit "a", lit "b", lit "c", lit "a.b", lit "a(b", lit "", lit "*", lit "a>", lit "<a", lit "é", lit "\\", lit "$"]

def pickStr : GM Str := do
  let i ← pick pool.length
  pure (pool.getD i [])

def pickLoc : GM Loc := do
  let l ← pick 50
  let c ← pick 20
  pure ⟨l + 1, some (c + 1)⟩

def listOf {α} (maxN : Nat) (g : GM α) : GM (List α) := do
  let n ← pick (maxN + 1)
  let mut out := []
  for _ in [0:n] do
    let a ← g
    out := out ++ [a]
  pure out

def genTag : GM Tag := do
  let id ← fresh
  let loc ← pickLoc
  let i ← pick 4
  pure { id := id, loc := loc, name := [lit "@t1", lit "@t2", lit "@dup", lit "@é"].getD i [] }

def genCellsN (n : Nat) (strs : GM Str) : GM (List Cell) := do
  let mut out := []
  for _ in [0:n] do
    let loc ← pickLoc
    let v ← strs
    out := out ++ [{ loc := loc, value := v }]
  pure out

def genRowN (n : Nat) (strs : GM Str) : GM Row := do
  let id ← fresh
  let loc ← pickLoc
  let cells ← genCellsN n strs
  pure { id := id, loc := loc, cells := cells }

def genArg : GM StepArg := do
  let k ← pick 4
  match k with
  | 1 =>
    let loc ← pickLoc
    let ncol ← pick 3
    let rows ← listOf 2 (genRowN ncol pickStr)
    pure (.table { loc := loc, rows := rows })
  | 2 =>
    let loc ← pickLoc
    let content ← pickStr
    let m ← pick 3
    let media ← pickStr
    let d ← pick 2
    pure (.doc { loc := loc, content := content, delimiter := if d == 0 then dq3' else bt3',
                 mediaType := if m == 0 then none else some media })
  | _ => pure .none
where
  dq3' : Str := [34, 34, 34]
  bt3' : Str := [96, 96, 96]

def ktypes : List KType := [.Unknown, .Context, .Action, .Outcome, .Conjunction]

def genStep : GM Step := do
  let id ← fresh
  let loc ← pickLoc
  let k ← pick 5
  let text ← pickStr
  let arg ← genArg
  pure { id := id, loc := loc, keyword := lit "* ", ktype := ktypes.getD k .Unknown, text := text, arg := arg }

def genBackground : GM Background := do
  let id ← fresh
  let loc ← pickLoc
  let steps ← listOf 3 genStep
  pure { id := id, loc := loc, keyword := lit "Background", name := lit "bg", description := [], steps := steps }

def genExamples : GM Examples := do
  let id ← fresh
  let tags ← listOf 2 genTag
  let loc ← pickLoc
  let shape ← pick 5      -- 0: no table, 1: header only, ≥2: header + body
  let ncol ← pick 4
  let header ← genRowN ncol (do let i ← pick headerPool.length; pure (headerPool.getD i []))
  let body ← listOf 3 (genRowN ncol pickStr)
  pure { id := id, tags := tags, loc := loc, keyword := lit "Examples", name := [], description := [],
         header := if shape == 0 then none else some header,
         body := if shape ≤ 1 then [] else body }

def genScenario : GM Scenario := do
  let id ← fresh
  let tags ← listOf 2 genTag
  let loc ← pickLoc
  let name ← pickStr
  let steps ← listOf 4 genStep
  let outline ← pick 2
  let examples ← if outline == 0 then pure [] else listOf 3 genExamples
  pure { id := id, tags := tags, loc := loc, keyword := lit "Scenario", name := name, description := [],
         steps := steps, examples := examples }

def genRuleChild : GM RuleChild := do
  let k ← pick 4
  if k == 0 then do let b ← genBackground; pure (.background b)
  else do let s ← genScenario; pure (.scenario s)

def genRule : GM Rule := do
  let id ← fresh
  let tags ← listOf 2 genTag
  let loc ← pickLoc
  let children ← listOf 4 genRuleChild
  pure { id := id, tags := tags, loc := loc, keyword := lit "Rule", name := lit "r", description := [], children := children }

def genFeatureChild : GM FeatureChild := do
  let k ← pick 6
  if k == 0 then do let b ← genBackground; pure (.background b)
  else if k ≤ 2 then do let r ← genRule; pure (.rule r)
  else do let s ← genScenario; pure (.scenario s)

def genDocM : GM Doc := do
  let hasF ← pick 8
  if hasF == 7 then pure { feature := none, comments := [] }
  else
    let tags ← listOf 2 genTag
    let loc ← pickLoc
    let lang ← pick 3
    let children ← listOf 5 genFeatureChild
    pure { feature := some { tags := tags, loc := loc, language := [lit "en", lit "fr", lit "em"].getD lang [],
                             keyword := lit "Feature", name := lit "f", description := [], children := children },
           comments := [] }

def genDocWithMax (desc : List Nat) : Doc × Nat :=
  let (d, s) := genDocM.run { data := desc }
  (d, s.nextId)

def genDoc (desc : List Nat) : Doc := (genDocWithMax desc).1

end Driver
