/-
  Driver/Main.lean — line-protocol driver for the correspondence check.

  One request per input line: `<op> <arg> | <arg> | …` where every `<arg>` is a
  space-separated list of natural numbers (code points or small integers).  One JSON reply
  per line.  Only this file does I/O; everything it calls is the model under `GherkinVerif/`.
-/
import GherkinVerif.Model.Stream
import GherkinVerif.Model.Md
import GherkinVerif.Model.Formatter
import GherkinVerif.Gen.ParserTable
import GherkinVerif.Gen.Dialects
import GherkinVerif.Gen.Grammar
import GherkinVerif.Spec.Grammar
import GherkinVerif.Spec.PureParse
import GherkinVerif.Spec.TextLevel
import Driver.GenAst
import GherkinVerif.Spec.LayoutChecks
import GherkinVerif.Spec.LayoutChecks2
import GherkinVerif.Spec.LayoutChecks3
import GherkinVerif.Spec.LayoutChecks4
import GherkinVerif.Spec.LayoutChecks5
import GherkinVerif.Spec.RecoverChecks
import GherkinVerif.Spec.RecoverChecks2
import GherkinVerif.Spec.Render
import GherkinVerif.Spec.Render2
import GherkinVerif.Spec.Render3
import GherkinVerif.Spec.Render4
import GherkinVerif.Spec.Render5
open GV

namespace Driver

partial def render : J → String
  | .null => "null"
  | .bool b => if b then "true" else "false"
  | .num n => toString n
  | .str s => escStr s
  | .arr xs => "[" ++ ",".intercalate (xs.map render) ++ "]"
  | .obj kvs => "{" ++ ",".intercalate (kvs.map fun (k, v) => "\"" ++ k ++ "\":" ++ render v) ++ "}"

def parseArgs (s : String) : List (List Nat) :=
  (s.splitOn "|").map fun part =>
    (part.splitOn " ").filterMap fun w => if w.isEmpty then none else w.toNat?

def D := GV.Gen.dialects
def T := GV.Gen.parserTable

def outcomeJ (o : Outcome) (ctx : Ctx) (extra : List (String × J) := []) : J :=
  let base : List (String × J) := match o with
    | .ok d => [("ok", d.toJ)]
    | .rejected es comp => [("errors", .arr (es.map PErr.toJ)), ("composite", .bool comp)]
    | .crash w => [("crash", .str (lit w))]
    | .fuel => [("crash", .str (lit "fuel"))]
  .obj (base ++ [("ids", .num ctx.ids), ("calls", .num ctx.calls),
                 ("dialectAfter", .str ctx.μ.name)] ++ extra)

def arg (as : List (List Nat)) (i : Nat) : List Nat := as.getD i []
def flag (as : List (List Nat)) (i : Nat) : Bool := (arg as i).head? == some 1
def num (as : List (List Nat)) (i : Nat) : Nat := (arg as i).headD 0

/-- reply of op `tokens`: as `outcomeJ`, for a run with the token-formatter builder
    (`formatToken` is the Model's: GherkinVerif/Model/Formatter.lean) -/
def outcomeFJ (o : OutcomeF) (ctx : CtxF) : J :=
  let base : List (String × J) := match o with
    | .ok s => [("ok", .str s)]
    | .rejected es comp => [("errors", .arr (es.map PErr.toJ)), ("composite", .bool comp)]
    | .crash w => [("crash", .str (lit w))]
    | .fuel => [("crash", .str (lit "fuel"))]
  .obj (base ++ [("calls", .num ctx.calls), ("dialectAfter", .str ctx.μ.name),
                 ("builds", .arr (ctx.builds.map fun t => .str (formatToken t))),
                 ("buildLines", .arr (ctx.builds.map fun t => .num t.lineNo)),
                 ("reads", .arr (ctx.reads.map J.num)), ("unexpected", .arr (ctx.unexpected.map J.num))])

/-- fields terminated by code point 0 (an unterminated last field is dropped) -/
def split0Aux : List Nat → List Nat → List (List Nat)
  | [], _ => []
  | c :: cs, acc => if c == 0 then acc.reverse :: split0Aux cs [] else split0Aux cs (c :: acc)

def split0 (cs : List Nat) : List (List Nat) := split0Aux cs []

def decNat (s : List Nat) : Nat := s.foldl (fun a c => a * 10 + (c - 48)) 0

/-- `n` rows, each as: cell count (decimal), then that many cells -/
def decRows : Nat → List (List Nat) → List (List (List Nat)) × List (List Nat)
  | 0, xs => ([], xs)
  | _ + 1, [] => ([], [])
  | n + 1, c :: xs =>
    let k := decNat c
    let (rs, rest) := decRows n (xs.drop k)
    (xs.take k :: rs, rest)

/-- steps as fields: keyword, text, number of table rows (decimal), the rows (`decRows`) -/
def decSteps : Nat → List (List Nat) → List (List Nat × List Nat × List (List (List Nat)))
  | 0, _ => []
  | f + 1, kw :: tx :: r :: rest =>
    let (rows, rest') := decRows (decNat r) rest
    (kw, tx, rows) :: decSteps f rest'
  | _ + 1, _ => []

/-- examples blocks as fields: number of tags (decimal), the tags, keyword, name, number of rows, the rows -/
def decExamples : Nat → List (List Nat) → List (List (List Nat) × List Nat × List Nat × List (List (List Nat)))
  | 0, _ => []
  | _ + 1, [] => []
  | f + 1, nt :: rest =>
    let k := decNat nt
    match rest.drop k with
    | kw :: nm :: r :: rest2 =>
      let (rows, rest3) := decRows (decNat r) rest2
      (rest.take k, kw, nm, rows) :: decExamples f rest3
    | _ => []

/-- scenarios in groups of five arguments: tags | keyword | name | steps | examples blocks -/
def decScs4 : List (List Nat) → List (List (List Nat) × List Nat × List Nat × List (List Nat × List Nat × List (List (List Nat))) × List (List (List Nat) × List Nat × List Nat × List (List (List Nat))))
  | t :: k :: n :: st :: ex :: rest =>
    (split0 t, k, n, decSteps (st.length + 1) (split0 st), decExamples (ex.length + 1) (split0 ex)) :: decScs4 rest
  | _ => []

def decBg (a : List Nat) : List (List Nat × List Nat × List (List Nat × List Nat × List (List (List Nat)))) :=
  match split0 a with
  | k :: n :: rest => [(k, n, decSteps (rest.length + 1) rest)]
  | _ => []

/-- rules: tags | keyword | name | background | number of scenarios (decimal) | that many scenario groups -/
def decRules : Nat → List (List Nat) → List (List (List Nat) × List Nat × List Nat × List (List Nat × List Nat × List (List Nat × List Nat × List (List (List Nat)))) × List (List (List Nat) × List Nat × List Nat × List (List Nat × List Nat × List (List (List Nat))) × List (List (List Nat) × List Nat × List Nat × List (List (List Nat)))))
  | 0, _ => []
  | f + 1, t :: k :: n :: bg :: ns :: rest =>
    let cnt := decNat ns
    (split0 t, k, n, decBg bg, decScs4 (rest.take (5 * cnt))) :: decRules f (rest.drop (5 * cnt))
  | _ + 1, _ => []

def pairUp : List (List Nat) → List (List Nat × List Nat)
  | a :: b :: r => (a, b) :: pairUp r
  | _ => []

def handle (op : String) (as : List (List Nat)) : J :=
  match op with
  | "ws" => .arr (((List.range 0x110000).filter isSpace).map J.num)
  | "parse" =>
    -- stop | default dialect | ids | src
    match MState.init D (arg as 1) with
    | none => .obj [("crash", .str (lit "no such default dialect"))]
    | some μ =>
      let (o, ctx) := parseWith D T (flag as 0) μ (num as 2) (arg as 3)
      outcomeJ o ctx [("builds", .arr (ctx.builds.map fun t => .str (formatToken t))),
                      ("buildLines", .arr (ctx.builds.map fun t => .num t.lineNo)),
                      ("reads", .arr (ctx.reads.map J.num)), ("unexpected", .arr (ctx.unexpected.map J.num))]
  | "tokens" =>
    -- stop | default dialect | src : Parser(TokenFormatterBuilder()).parse — the token listing (Model/Formatter.lean)
    match MState.init D (arg as 1) with
    | none => .obj [("crash", .str (lit "no such default dialect"))]
    | some μ =>
      let (o, ctx) := parseWithF D T (flag as 0) μ (arg as 2)
      outcomeFJ o ctx
  | "parsepure" =>
    -- stop | default dialect | ids | src : the queue-free parse (Spec/PureParse.lean), same reply shape as `parse`
    match MState.init D (arg as 1) with
    | none => .obj [("crash", .str (lit "no such default dialect"))]
    | some μ =>
      let (o, ctx) := Spec.parseWithPure D T (flag as 0) μ (num as 2) (arg as 3)
      outcomeJ o ctx [("builds", .arr (ctx.builds.map fun t => .str (formatToken t))),
                      ("buildLines", .arr (ctx.builds.map fun t => .num t.lineNo)),
                      ("reads", .arr (ctx.reads.map J.num)), ("unexpected", .arr (ctx.unexpected.map J.num))]
  | "layoutok" =>
    -- stop | default dialect | src | src' | comment line : hypotheses of the whole-document C16 theorems (Spec/LayoutChecks.lean):
    -- `blank`: the positions k (0 … number of lines) where a whitespace-only line may be inserted after the
    -- first k lines of src; `indent`: src' is an admissible indentation of src (src' may be empty: not asked)
    match MState.init D (arg as 1) with
    | none => .obj [("crash", .str (lit "no such default dialect"))]
    | some μ =>
      let src := arg as 2
      let src' := arg as 3
      let n := (splitLines src).length
      let c := arg as 4   -- a comment line (with its line feed); empty: not asked
      .obj [("blank", .arr (((List.range (n + 1)).filter fun k => Spec.blankLineOkB D T (flag as 0) μ 0 src k).map J.num)),
            ("indent", .bool (!src'.isEmpty && Spec.indentOkB D T (flag as 0) μ 0 src' src)),
            ("indent2", .bool (!src'.isEmpty && Spec.indentOk2B D T (flag as 0) μ 0 src' src)),
            ("comment", .arr (if c.isEmpty then [] else
              ((List.range (n + 1)).filter fun k => Spec.commentLineOk3B D T (flag as 0) μ 0 src k c).map J.num)),
            ("comment2", .arr (if c.isEmpty then [] else
              ((List.range (n + 1)).filter fun k => Spec.commentLineOk2B D T (flag as 0) μ 0 src k c).map J.num)),
            -- a sixth argument: a variant in which doc strings move as blocks (Props/C16Doc7.lean)
            ("indent3", .bool (!(arg as 5).isEmpty && Spec.indentBlockOkB D T (flag as 0) μ 0 (arg as 5) src))]
  | "render" =>
    -- dialect name | feature tags (0-terminated) | feature keyword | feature name | then per scenario four arguments:
    -- tags (0-terminated) | keyword | name | steps (kw 0 text 0 …)  — Spec/Render.lean, Props/C03Roundtrip.lean:
    -- the rendered text, whether the model is well formed for the dialect, and the AST `C03_roundtrip` says the parse returns
    match MState.init D (arg as 0), findDialect D (arg as 0) with
    | some _, some d =>
      let rec scs : List (List Nat) → List (List Str × Str × Str × List (Str × Str))
        | t :: k :: n :: st :: rest => (split0 t, k, n, pairUp (split0 st)) :: scs rest
        | _ => []
      let m := Spec.MFeature.ofLists (split0 (arg as 1)) (arg as 2) (arg as 3) (scs (as.drop 4))
      .obj [("wf", .bool (Spec.WF d m)), ("text", .str (Spec.render m)),
            ("expected", (Spec.expectedDoc d (arg as 0) m 0).toJ), ("idsAfter", .num (Spec.idsAfter m 0))]
    | _, _ => .obj [("crash", .str (lit "no such dialect"))]
  | "render2" =>
    -- as `render`, for the richer model of Spec/Render2.lean (steps may carry a data table): the steps argument is
    -- kw 0 text 0 R 0 then R rows, each as C 0 cell 0 … (R, C decimal)  — Props/C03Roundtrip2.lean
    match MState.init D (arg as 0), findDialect D (arg as 0) with
    | some _, some d =>
      let rec scs2 : List (List Nat) → List (List Str × Str × Str × List (Str × Str × List (List Str)))
        | t :: k :: n :: st :: rest => (split0 t, k, n, decSteps (st.length + 1) (split0 st)) :: scs2 rest
        | _ => []
      let m := Spec.MFeature2.ofLists (split0 (arg as 1)) (arg as 2) (arg as 3) (scs2 (as.drop 4))
      .obj [("wf", .bool (Spec.WF2 d m)), ("text", .str (Spec.render2 m)),
            ("expected", (Spec.expectedDoc2 d (arg as 0) m 0).toJ), ("idsAfter", .num (Spec.idsAfter2 m 0))]
    | _, _ => .obj [("crash", .str (lit "no such dialect"))]
  | "render3" =>
    -- as `render2`, with an optional Background (Spec/Render3.lean, Props/C03Roundtrip3.lean): a fifth argument
    -- `kw 0 name 0 steps…` (empty: no background) precedes the scenarios
    match MState.init D (arg as 0), findDialect D (arg as 0) with
    | some _, some d =>
      let rec scs3 : List (List Nat) → List (List Str × Str × Str × List (Str × Str × List (List Str)))
        | t :: k :: n :: st :: rest => (split0 t, k, n, decSteps (st.length + 1) (split0 st)) :: scs3 rest
        | _ => []
      let bg := match split0 (arg as 4) with
        | k :: n :: rest => [(k, n, decSteps (rest.length + 1) rest)]
        | _ => []
      let m := Spec.MFeature3.ofLists (split0 (arg as 1)) (arg as 2) (arg as 3) bg (scs3 (as.drop 5))
      .obj [("wf", .bool (Spec.WF3 d m)), ("text", .str (Spec.render3 m)),
            ("expected", (Spec.expectedDoc3 d (arg as 0) m 0).toJ), ("idsAfter", .num (Spec.idsAfter3 m 0))]
    | _, _ => .obj [("crash", .str (lit "no such dialect"))]
  | "render4" =>
    -- as `render3`, scenarios in groups of FIVE arguments: tags | keyword | name | steps | examples blocks
    -- (Spec/Render4.lean, Props/C03Roundtrip4.lean)
    match MState.init D (arg as 0), findDialect D (arg as 0) with
    | some _, some d =>
      let rec scs4 : List (List Nat) → List (List Str × Str × Str × List (Str × Str × List (List Str)) × List (List Str × Str × Str × List (List Str)))
        | t :: k :: n :: st :: ex :: rest =>
          (split0 t, k, n, decSteps (st.length + 1) (split0 st), decExamples (ex.length + 1) (split0 ex)) :: scs4 rest
        | _ => []
      let bg := match split0 (arg as 4) with
        | k :: n :: rest => [(k, n, decSteps (rest.length + 1) rest)]
        | _ => []
      let m := Spec.MFeature4.ofLists (split0 (arg as 1)) (arg as 2) (arg as 3) bg (scs4 (as.drop 5))
      .obj [("wf", .bool (Spec.WF4 d m)), ("text", .str (Spec.render4 m)),
            ("expected", (Spec.expectedDoc4 d (arg as 0) m 0).toJ), ("idsAfter", .num (Spec.idsAfter4 m 0))]
    | _, _ => .obj [("crash", .str (lit "no such dialect"))]
  | "render5" =>
    -- as `render4`, with Rules (Spec/Render5.lean, Props/C03Roundtrip5.lean): a sixth argument gives the number of
    -- feature-level scenarios; after their groups come the rules (`decRules`)
    match MState.init D (arg as 0), findDialect D (arg as 0) with
    | some _, some d =>
      let cnt := decNat (arg as 5)
      let rest := as.drop 6
      let m := Spec.MFeature5.ofLists (split0 (arg as 1)) (arg as 2) (arg as 3) (decBg (arg as 4))
        (decScs4 (rest.take (5 * cnt))) (decRules (rest.length + 1) (rest.drop (5 * cnt)))
      .obj [("wf", .bool (Spec.WF5 d m)), ("text", .str (Spec.render5 m)),
            ("expected", (Spec.expectedDoc5 d (arg as 0) m 0).toJ), ("idsAfter", .num (Spec.idsAfter5 m 0))]
    | _, _ => .obj [("crash", .str (lit "no such dialect"))]
  | "recoverok" =>
    -- default dialect | src' : the 0-based positions k such that line k+1 of src' is an unexpected line to which
    -- `C14_unexpected_line_check` applies (Spec/RecoverChecks.lean: unexpectedLineOkB), collecting mode
    match MState.init D (arg as 0) with
    | none => .obj [("crash", .str (lit "no such default dialect"))]
    | some μ =>
      let src' := arg as 1
      let n := (splitLines src').length
      .obj [("skippable", .arr (((List.range n).filter fun k => Spec.unexpectedLineOk2B D T μ 0 src' k).map J.num)),
            ("skippable1", .arr (((List.range n).filter fun k => Spec.unexpectedLineOkB D T μ 0 src' k).map J.num)),
            ("stop", .arr (((List.range n).filter fun k => Spec.unexpectedLineStopB D T μ 0 src' k).map J.num))]
  | "textaccepts" =>
    -- default dialect | src : text-level acceptor (Spec/TextLevel.lean) and the intrinsic kinds along the run
    match MState.init D (arg as 0) with
    | none => .obj [("crash", .str (lit "no such default dialect"))]
    | some μ =>
      let lines := splitLines (arg as 1)
      let ks := Spec.textKinds D T 0 (μ.reset D) lines
      .obj [("accepts", .bool (Spec.textAccepts D T 0 (μ.reset D) lines)),
            ("kinds", .arr (ks.map fun k => .str (lit k.name))),
            ("sentence", .bool (Spec.Sentence GV.Gen.grammar T.startRule ks))]
  | "pickles" =>
    -- default dialect | uri | src  (fresh counter; parse then compile)
    match MState.init D (arg as 0) with
    | none => .obj [("crash", .str (lit "no such default dialect"))]
    | some μ =>
      let (o, ctx) := parseWith D T false μ 0 (arg as 2)
      match o with
      | .ok d =>
        match compile (arg as 1) d ctx.ids with
        | some (ps, n) => .obj [("pickles", .arr (ps.map Pickle.toJ)), ("ids", .num n)]
        | none => .obj [("crash", .str (lit "IndexError"))]
      | _ => outcomeJ o ctx
  | "stream" =>
    -- opts(3 flags) | uri1 | data1 | uri2 | data2 …
    let o := arg as 0
    let opts : Opts := ⟨o.getD 0 0 == 1, o.getD 1 0 == 1, o.getD 2 0 == 1⟩
    let rec pairs : List (List Nat) → List (Str × Str)
      | u :: d :: rest => (u, d) :: pairs rest
      | _ => []
    -- a fourth flag switches the stream's parser to stop-at-first-error mode
    if o.getD 3 0 == 1 then
      .arr ((streamAllMode D T true opts (pairs (as.drop 1)) 0).map fun es => .arr (es.map Envelope.toJ))
    else
    .arr ((streamAll D T opts (pairs (as.drop 1)) 0).map fun es => .arr (es.map Envelope.toJ))
  | "cells" => .arr ((tableCells (arg as 0)).map fun c => .obj [("column", .num c.1), ("text", .str c.2)])
  | "tags" =>
    match lineTags (arg as 0) with
    | .ok ts => .obj [("tags", .arr (ts.map fun c => .obj [("column", .num c.1), ("text", .str c.2)]))]
    | .error c => .obj [("error", .num c)]
  | "match" =>
    -- kind | default dialect | current dialect | indentToRemove | activeSep (empty = none) | line
    match MState.init D (arg as 1), findDialect D (arg as 2) with
    | some μ0, some d =>
      let μ : MState := { μ0 with name := arg as 2, dialect := d, indentToRemove := num as 3,
                                  activeSep := if (arg as 4).isEmpty then none else some (arg as 4) }
      let t : Token := { line := some (arg as 5), lineNo := 1 }
      let out := matchLine D (Kind.fromNat (num as 0)) μ t (arg as 5)
      .obj [("res", match out.res with
                    | .matched => .str (lit "matched") | .no => .str (lit "no")
                    | .raised e => e.toJ),
            ("token", out.tok.toJ), ("dialect", .str out.μ.name), ("indentToRemove", .num out.μ.indentToRemove),
            ("activeSep", optStrJ out.μ.activeSep)]
    | _, _ => .obj [("crash", .str (lit "no such dialect"))]
  | "interp" =>
    -- template | h1 | v1 | h2 | v2 …
    let rec hv : List (List Nat) → List Str × List Str
      | h :: v :: rest => let (hs, vs) := hv rest; (h :: hs, v :: vs)
      | _ => ([], [])
    let (hs, vs) := hv (as.drop 1)
    match interp (arg as 0) hs vs with
    | some s => .str s
    | none => .null
  | "genast" =>
    -- uri | descriptor  → synthetic AST, its pickles
    let (doc, start) := Driver.genDocWithMax (arg as 1)
    match compile (arg as 0) doc start with
    | some (ps, n) => .obj [("doc", doc.toJ), ("pickles", .arr (ps.map Pickle.toJ)), ("ids", .num n), ("start", .num start)]
    | none => .obj [("doc", doc.toJ), ("crash", .str (lit "IndexError")), ("start", .num start)]
  | "kinds" =>
    -- kinds of the lines (no EOF) → grammar verdict (Spec), table verdict, events, unexpected indices
    let ks := (arg as 0).map Kind.fromNat
    let evJ (e : Ev) : J := match e with
      | .start r => .str (lit ("start:" ++ r.name))
      | .end_ r => .str (lit ("end:" ++ r.name))
      | .build k => .str (lit ("build:" ++ k.name))
    .obj [("sentence", .bool (Spec.Sentence GV.Gen.grammar T.startRule ks)),
          ("accepts", .bool (acceptsAbs T ks)),
          ("events", match eventsAbs T ks with | some es => .arr (es.map evJ) | none => .null),
          ("errors", .arr ((errorsAbs T 0 0 (ks ++ [.EOF])).map J.num)),
          ("trace", .arr ((traceAbs T 0 (ks ++ [.EOF])).map fun (s, b) =>
              .arr [.num s, match b with | some i => .num i | none => .null]))]
  | "mdmatch" =>
    -- kind | dialect | line
    match MState.init D (arg as 1) with
    | some μ =>
      let t : Token := { line := some (arg as 2), lineNo := 1 }
      match Md.matchLine (Kind.fromNat (num as 0)) μ t (arg as 2) with
      | some (some t') => .obj [("res", .str (lit "matched")), ("token", t'.toJ)]
      | some none => .obj [("res", .str (lit "no"))]
      | none => .obj [("res", .str (lit "not-modelled"))]
    | none => .obj [("crash", .str (lit "no such dialect"))]
  | "dialects" =>
    .arr (D.map fun d => .obj [("name", .str d.name),
      ("and", .arr (d.and_.map J.str)), ("background", .arr (d.background.map J.str)),
      ("but", .arr (d.but_.map J.str)), ("examples", .arr (d.examples.map J.str)),
      ("feature", .arr (d.feature.map J.str)), ("given", .arr (d.given.map J.str)),
      ("rule", .arr (d.rule.map J.str)), ("scenario", .arr (d.scenario.map J.str)),
      ("scenarioOutline", .arr (d.scenarioOutline.map J.str)), ("then", .arr (d.then_.map J.str)),
      ("when", .arr (d.when_.map J.str))])
  | _ => .obj [("bad-op", .str (lit op))]

partial def loop (hin hout : IO.FS.Stream) : IO Unit := do
  let line ← hin.getLine
  if line.isEmpty then return ()
  let line := line.trimAscii.toString
  if !line.isEmpty then
    let (op, rest) := match line.splitOn " " with
      | [] => ("", "")
      | op :: _ => (op, (line.drop op.length).toString)
    hout.putStrLn (render (handle op (parseArgs rest)))
    hout.flush
  loop hin hout

end Driver

def main : IO Unit := do
  Driver.loop (← IO.getStdin) (← IO.getStdout)
