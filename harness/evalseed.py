"""Evaluate the registered checks against the seeded regressions under /verif/seeded/<id>/.

For each seed: apply patch.diff to /repo, confirm the repository's own tests still pass and the
demonstration fails, run every claimed check (quick tier), record which checks report a
VIOLATION, undo the patch.  Usage:  python -m harness.evalseed [seed-id …] [--checks C01,C02]
Never run concurrently with anything else that uses /repo."""
from __future__ import annotations

import json
import os
import subprocess
import sys
import time

VERIF = os.path.dirname(os.path.dirname(os.path.abspath(__file__)))
REPO = "/repo"


def sh(cmd, cwd=None, timeout=1800, env=None):
    p = subprocess.run(cmd, cwd=cwd, capture_output=True, text=True, timeout=timeout, env=env, shell=isinstance(cmd, str))
    return p.returncode, p.stdout + p.stderr


def claimed():
    man = json.load(open(os.path.join(VERIF, "MANIFEST.json")))
    return [c["property_id"] for c in man["checks"]]


def main(argv):
    only_checks = None
    seeds = []
    for a in argv:
        if a.startswith("--checks"):
            only_checks = a.split("=", 1)[1].split(",")
        else:
            seeds.append(a)
    sdir = os.path.join(VERIF, "seeded")
    if not seeds:
        seeds = sorted(d for d in os.listdir(sdir) if os.path.isdir(os.path.join(sdir, d)))
    checks = only_checks or claimed()
    rc, out = sh(["git", "-C", REPO, "status", "--porcelain"])
    if out.strip():
        print("refusing: /repo has uncommitted changes:\n" + out)
        return 2
    results = {}
    for sid in seeds:
        d = os.path.join(sdir, sid)
        meta = json.load(open(os.path.join(d, "meta.json")))
        row = {"property": meta["property"], "tests_pass": None, "demo_fails": None, "flagged": [], "clean": []}
        rc, out = sh(["git", "-C", REPO, "apply", os.path.join(d, "patch.diff")])
        if rc != 0:
            row["error"] = "patch does not apply: " + out[-300:]
            results[sid] = row
            continue
        try:
            rc, out = sh("/venv/bin/python -m pytest -q -p no:cacheprovider -x 2>&1 | tail -3", cwd=REPO)
            row["tests_pass"] = " passed" in out and "failed" not in out
            demo = os.path.join(d, "demo.py")
            rc, out = sh(["/venv/bin/python", demo], cwd=REPO, env={**os.environ, "PYTHONPATH": os.path.join(REPO, "python")})
            row["demo_fails"] = rc != 0
            targets = checks if only_checks else ([meta["property"]] + [c for c in checks if c != meta["property"]])
            if os.environ.get("EVALSEED_ONLY_OWN"):
                targets = [meta["property"]] if meta["property"] in checks else []
            for c in targets:
                t0 = time.time()
                rc, out = sh([os.path.join(VERIF, "check"), c, "--tier", "quick"], cwd=VERIF, timeout=1500)
                line = next((l for l in out.splitlines() if l.startswith("VIOLATION")), "")
                if rc == 1 and line:
                    row["flagged"].append(c + (" (no-failing-input-found)" if line.endswith("no-failing-input-found") else ""))
                elif rc == 0:
                    row["clean"].append(c)
                else:
                    row.setdefault("errors", []).append(f"{c}: exit {rc}: {out[-200:]}")
                row.setdefault("secs", {})[c] = round(time.time() - t0, 1)
        finally:
            sh(["git", "-C", REPO, "checkout", "--", "."])
        results[sid] = row
        print(sid, json.dumps(row), flush=True)
    # restore generated files / evidence for the clean tree
    sh(["git", "-C", VERIF, "checkout", "--", "lean/GherkinVerif/Gen"])
    out_path = os.path.join(VERIF, "seeded", "RESULTS.json")
    prev = {}
    if os.path.exists(out_path):
        prev = json.load(open(out_path))
    prev.update(results)
    json.dump(prev, open(out_path, "w"), indent=1)
    return 0


if __name__ == "__main__":
    sys.exit(main(sys.argv[1:]))
