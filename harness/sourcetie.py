"""Source tie for the HAND-MODELLED parts of the code.

The generated parts of the model are regenerated from /repo on every run (translate/).  The
hand-written parts (scanner, GherkinLine, TokenMatcher, Markdown matcher, AST builder, compiler,
stream layer, error classes, parser glue) are tied by the correspondence check, whose depth is a
budget.  This module makes that budget depend on what the code says NOW:

  * every function / method / module body of python/gherkin (except the generated state functions of
    parser.py, which have their own translator) is fingerprinted by the SHA-1 of its `ast.dump`
    (comments, formatting and docstrings do not count);
  * the fingerprints of the tree the model was written against are committed in
    harness/source_fingerprints.json (`python -m harness.sourcetie --write` on a clean tree);
  * a check that finds a fingerprint changed, added or removed reports the functions in its evidence
    (`coverage.source_tie`) and runs its correspondence streams at the THOROUGH size even in the quick
    tier: a hand-modelled function that is not what the model was validated against gets the deepest
    comparison available before the property is reported as held.

A changed fingerprint is never a violation by itself (a harmless refactoring changes it too); it only
decides how hard the check looks.
"""
from __future__ import annotations

import ast
import hashlib
import json
import os
import sys

from . import core

BASELINE = os.path.join(os.path.dirname(os.path.abspath(__file__)), "source_fingerprints.json")
PKG = "python/gherkin"
# non-Python data the hand-written model depends on and no translator reads
DATA = []


def _strip_doc(node):
    body = getattr(node, "body", None)
    if isinstance(body, list) and body and isinstance(body[0], ast.Expr) and isinstance(getattr(body[0], "value", None), ast.Constant) \
            and isinstance(body[0].value.value, str):
        node.body = body[1:] or [ast.Pass()]


def _h(node) -> str:
    return hashlib.sha1(ast.dump(node, annotate_fields=True, include_attributes=False).encode()).hexdigest()[:16]


def _walk(prefix, body, out, generated):
    rest = []
    for st in body:
        if isinstance(st, (ast.FunctionDef, ast.AsyncFunctionDef)):
            name = f"{prefix}{st.name}"
            if generated and (st.name.startswith("match_token_at_") or st.name in ("lookahead_0", "lookahead_1")):
                continue            # tied by translate/parser_table.py + parser_behaviour.py
            _strip_doc(st)
            out[name] = _h(st)
        elif isinstance(st, ast.ClassDef):
            _strip_doc(st)
            _walk(f"{prefix}{st.name}.", st.body, out, generated)
            hdr = ast.ClassDef(name=st.name, bases=st.bases, keywords=st.keywords, body=[], decorator_list=st.decorator_list)
            out[f"{prefix}{st.name}.<class>"] = _h(hdr)
        else:
            rest.append(st)
    if rest:
        m = ast.Module(body=rest, type_ignores=[])
        out[f"{prefix}<body>"] = _h(m)


def fingerprint(repo=None) -> dict:
    repo = repo or core.REPO
    out = {}
    root = os.path.join(repo, PKG)
    for dirpath, _dirs, files in sorted(os.walk(root)):
        for fn in sorted(files):
            if not fn.endswith(".py"):
                continue
            path = os.path.join(dirpath, fn)
            rel = os.path.relpath(path, repo)
            try:
                with open(path, encoding="utf-8") as fh:
                    tree = ast.parse(fh.read())
            except Exception as e:      # does not even parse: everything in it counts as changed
                out[f"{rel}::<unparsable>"] = hashlib.sha1(repr(e).encode()).hexdigest()[:16]
                continue
            _strip_doc(tree)
            _walk(f"{rel}::", tree.body, out, generated=fn == "parser.py")
    for rel in DATA:
        try:
            with open(os.path.join(repo, rel), "rb") as fh:
                out[rel] = hashlib.sha1(fh.read()).hexdigest()[:16]
        except OSError:
            out[rel] = "missing"
    return out


def load_baseline() -> dict:
    try:
        with open(BASELINE) as fh:
            return json.load(fh)["fingerprints"]
    except Exception:
        return {}


def status(repo=None) -> dict:
    """{'functions': N, 'changed': [...], 'added': [...], 'removed': [...], 'differs': bool}"""
    now = fingerprint(repo)
    base = load_baseline()
    changed = sorted(k for k in now if k in base and base[k] != now[k])
    added = sorted(k for k in now if k not in base)
    removed = sorted(k for k in base if k not in now)
    return {"functions": len(now), "changed": changed, "added": added, "removed": removed,
            "differs": bool(changed or added or removed), "baseline_present": bool(base)}


# which checks look harder when a file changes (files not listed: every check)
_ONLY = {
    "python/gherkin/pickles/compiler.py": {"C01", "C06", "C07", "C08", "C09", "C10", "C11", "C15", "C17"},
    "python/gherkin/stream/gherkin_events.py": {"C01", "C11", "C15", "C16", "C17"},
    "python/gherkin/stream/source_events.py": {"C01", "C15", "C16", "C17"},
    "python/gherkin/stream/id_generator.py": {"C01", "C11", "C15", "C17"},
    "python/gherkin/token_matcher_markdown.py": {"C04", "C15", "C19"},
    "python/gherkin/token_formatter_builder.py": {"C17", "C18"},
    "python/gherkin/inout.py": set(),
}


def relevant(prop: str, keys) -> list:
    out = []
    for k in keys:
        f = k.split("::", 1)[0]
        only = _ONLY.get(f)
        if only is None or prop in only:
            out.append(k)
    return out


def main(argv):
    if "--write" in argv:
        rc, out, err = core.sh(["git", "-C", core.REPO, "status", "--porcelain", "--", PKG])
        if out.strip():
            print("refusing: /repo has uncommitted changes under", PKG, "\n" + out)
            return 2
        rc, head, err = core.sh(["git", "-C", core.REPO, "rev-parse", "HEAD"])
        fp = fingerprint()
        with open(BASELINE, "w") as fh:
            json.dump({"repo_head": head.strip(), "fingerprints": fp}, fh, indent=1, sort_keys=True)
        print("wrote", BASELINE, len(fp), "entries")
        return 0
    print(json.dumps(status(), indent=1))
    return 0


if __name__ == "__main__":
    sys.exit(main(sys.argv[1:]))
