"""Child-process probe: run the public pipeline (Parser.parse -> Compiler.compile, and GherkinEvents over a
FILE holding the same text) on the documents listed in a JSON file and print one line per document with a
digest of everything observable.  The parent (harness/props.py: env_matrix) runs this under several
interpreter modes / process environments (python -O, -OO, LC_ALL=C without UTF-8 mode, other hash seeds,
another working directory) and compares the lines: the result of the pipeline must not depend on any of
them.  Usage: python [-O] envprobe.py <docs.json> <scratch dir>"""
import hashlib
import json
import os
import sys


def main():
    docs = json.load(open(sys.argv[1], encoding="utf-8"))
    scratch = sys.argv[2]
    from gherkin.parser import Parser
    from gherkin.pickles.compiler import Compiler
    from gherkin.stream.gherkin_events import GherkinEvents
    from gherkin.stream.source_events import SourceEvents
    out = []
    for i, src in enumerate(docs):
        rec = {}
        try:
            d = Parser().parse(src)
            rec["doc"] = d
            rec["pickles"] = Compiler().compile({**d, "uri": "u"})
        except Exception as e:  # noqa: BLE001 - everything observable is recorded
            rec["error"] = f"{type(e).__name__}: {e}"
        try:
            path = os.path.join(scratch, f"d{i}.feature")
            with open(path, "wb") as fh:
                fh.write(src.encode("utf-8"))
            ge = GherkinEvents(GherkinEvents.Options(True, True, True))
            envs = []
            for ev in SourceEvents([path]).enum():
                envs.extend(ge.enum(ev))
            rec["stream"] = json.loads(json.dumps(envs).replace(json.dumps(path)[1:-1], "PATH"))
        except Exception as e:  # noqa: BLE001
            rec["stream_error"] = f"{type(e).__name__}: {e}"
        blob = json.dumps(rec, sort_keys=True, ensure_ascii=True)
        out.append(hashlib.sha1(blob.encode()).hexdigest() + " " + (rec.get("error", "")[:60] + "|" + rec.get("stream_error", "")[:80]).replace("\n", " "))
    sys.stdout.write("\n".join(out) + "\n")


if __name__ == "__main__":
    main()
