"""Write /verif/MANIFEST.json from the per-property table below.  A property is *claimed* only when
all of its theorem modules exist under lean/GherkinVerif/Props; otherwise it is listed under
not_applicable with the reason "not yet decided by this framework" (never silently dropped)."""
from __future__ import annotations

import json
import os

VERIF = os.path.dirname(os.path.dirname(os.path.abspath(__file__)))

LEVEL = {
    "C01": ("Theorems (all source texts, both modes, any table satisfying kernel-checked facts): outcome form of a rejected parse (1 error in stop mode; 1..cap+1 distinct messages in collecting mode), termination of the parse and look-ahead loops (the fuel outcome is unreachable), stream envelope kinds, totality of compile on rectangular documents. Builder crash-freedom on arbitrary input and the linear call bound are not proved: the model represents Python run-time errors explicitly and the tie compares them, the call bound is checked on the implementation against a constant computed from the table.",
            "partial: C01_no_crash and the linear bound are decided by the correspondence/oracle only; filesystem overload of TokenScanner is known finding F4"),
    "C02": ("Theorem C02_accept_iff_sentence: for every finite sequence of line kinds the regenerated 42-state table (ordered tests, fallback chain, both look-aheads) accepts exactly the sentences of the regenerated gherkin.berp grammar; proved by generic look-ahead elimination + subset construction + bisimulation-checker soundness, with the finite certificate computed and kernel-checked on the current table/grammar. C02_events_valid_tree (typed-stack checker): the events of every accepted run form a derivation tree of the grammar. C02_siblings_equal: the five sibling tables, regenerated from their sources, equal Python's (decide +kernel). Tie: all kind sequences up to a bound through the real Parser with a stub matcher, real-text documents.",
            "text level: C02_kind_unique (each physical line has exactly one intrinsic kind), textAccepts = kind-level acceptance + no raise, and parse outcome vs textAccepts are proved up to the model crash outcome and the error cap"),
    "C03": ("Theorems about the AST builder model: field rules of every node kind, description joining and trimming, children kept in insertion (= source) order. The whole-document statement (AST = function of the derivation tree, every leaf once) is not yet composed; the tie compares complete ASTs (minus locations/ids) of generated and corpus documents with the model.",
            "partial: C03_ast_of_tree / C03_roundtrip not proved"),
    "C04": ("Theorems: line splitting at LF only; column = indent+1 with the source at that column starting with the reported keyword/delimiter for title, step and doc-string lines; comment/empty/other at column 1; tag columns point at '@' and increase; cell columns per the two-phase specification; unexpected-token location. Tie: all locations of ASTs and errors vs the model; independent slicing oracle on the implementation.",
            "tag name slice is proved under 'no blank after @' (the excluded case is known finding F5)"),
    "C05": ("Theorems for every dialect of the regenerated table satisfying kernel-checked facts (no ':' in title keywords, no keyword starting with blank/#/@/|): a line ws++k++':'++rest is matched in k's role with keyword k, trimmed title, column |ws|+1; steps report the first prefixing keyword and its category (Unknown iff listed more than once — only '* '); language header pattern; shipped table = master table (decide +kernel). Tie: complete enumeration dialect × keyword × role × layout through the real matcher.",
            "document-level composition (C05_role_in_document) is by the tie"),
    "C06": ("Refinement theorem C06_pickles_eq_spec: for every document (any child arrangement), uri and counter, the compiler model's pickles with ids erased equal the specification comprehension (one pickle per scenario without examples, one per body row of each examples block with a header, in document order); totality on rectangular documents; count formula. Tie: compile on parsed and synthetic ASTs.", ""),
    "C07": ("Corollaries of the refinement: pickle steps point, in order, at the in-scope background steps then the scenario's own steps; no steps when the scenario has none; scopes contain only feature-level backgrounds before and the own rule's backgrounds; the rule works on a copy of the accumulator; arguments carried cell by cell.", "heap aliasing of Python lists is outside a functional model; the aliasing mutant is caught by the tie"),
    "C08": ("Corollaries of the refinement: pickle tags = feature ++ rule ++ scenario (++ examples) tags mapped to (id, name), in order with repetitions.", ""),
    "C09": ("Theorems about the repaired _interpolate: leftmost non-overlapping literal replacement characterised (no occurrence ⇒ unchanged; first occurrence ⇒ prefix ++ value ++ rest replaced, value never rescanned), columns applied in header order, short rows are IndexError, background steps not substituted. Tie: exhaustive small-alphabet templates × adversarial headers.", ""),
    "C10": ("Theorems: step types = scan of keyword types from Unknown across background+own steps; never Conjunction; plain = outline.", ""),
    "C11": ("Theorem C11_pickle_ids: the compiler draws consecutive ids in the order steps-then-pickle, hence pairwise distinct; builder-side: ids drawn by one end_rule are consecutive in the canonical local order. Whole-document density for the AST is by the tie (independent traversal oracle).", "partial: C11_ast_ids_canonical not composed"),
    "C12": ("Theorem C12_split_eq_spec: for every physical line the single-pass splitter of the code equals the documented two-phase reading (texts and columns); round trip for all trimmed cell texts with any padding; ragged-table detection reports the first deviating row. Tie: every row string up to length L over the six distinguishing classes.", ""),
    "C13": ("Theorems: in a content state every line of any kind but the delimiter is read as Other and the state stays (generic in the table + kernel-checked fact); only the active delimiter closes; content line = unescape(rstrip CRLF(drop min(indent of opening, own indent))); open/close state changes; DocString node fields.", ""),
    "C14": ("Theorems: message form, unexpected-line body, expected list = the state's de-duplicated tests (kernel-checked on the regenerated table; equal to every sibling's by C02Siblings), error tail returns its own state, de-duplication and cap, rejected ⇒ only parseError envelopes. C14_stop_is_first and the text-level C14_reject_iff are decided by oracles on the implementation.", "partial"),
    "C15": ("Theorems: reset makes the parse independent of the matcher's previous state (for consistent states, invariant proved); generic frame lemma for interleavings; determinism. Tie (carries the weight): all ordered pairs/triples of state-perturbing documents through one Parser+TokenMatcher vs fresh instances; random schedules of concurrent parses gated at every token read.", "heap aliasing and preemption inside a match call cannot be exhibited by a functional model"),
    "C16": ("Per-line invariance theorems of the matcher model (CRLF, final newline, trailing blanks, indentation shifts only columns) and kind-level insertion lemmas for blank/comment lines under kernel-checked table facts. Tie: metamorphic pairs on the implementation at sampled positions; file loading.", "whole-document composition is by the tie"),
    "C17": ("Theorems: envelope order for all 8 option combinations; every envelope's JSON is well-shaped per the written-out Cucumber Messages shape; locality of each source. Tie: streams of several sources, json round trip, shape oracle.", "json.dumps is trusted"),
    "C18": ("Theorems: every token read is built or reported unexpected, never both (partition), for every table whose branches build exactly once (kernel-checked); accepted ⇒ builds = reads; look-ahead re-queues exactly what it read (conservation). In-order reading through the queue is decided by the tie (ghost reads/builds vs the real parser).", "partial: C18_reads_in_order not proved"),
    "C19": ("Theorems about the Markdown matcher model: header depth 1–6 + blank + keyword + ':' recognised with keyword/trimmed title/column; bullets; table indentation 2–5 and GFM separators; backtick tags with columns. Tie: complete enumeration dialect × keyword × depth/bullet × indentation.", ""),
}

LEVEL.update({
    "C01": ("Theorems (all source texts, both modes): outcome form of a rejected parse (1 error in stop mode; 1..cap+1 distinct messages in collecting mode; cap+1 = 11 on the regenerated table), termination of the parse and look-ahead loops (the fuel outcome is unreachable), every error line within 1..lines+1, stream envelope kinds, totality of compile on rectangular documents, and the linear bound calls <= workPerToken(T)*(lines+1) (= 20 per line, computed from the regenerated table) under kernel-checked queue facts. C01_no_crash: for every source text and both modes the parse outcome is never the explicit crash outcome that models AttributeError/IndexError/unknown state (abstract interpretation of the builder stack computed from the regenerated table and kernel-checked; invariant proved for accepted and rejected runs), hence the outcome is a document or a rejection (C01_parse_outcome_total); parsed documents are rectangular, compile is total on them and the stream never yields anything but source/gherkinDocument/pickle/parseError envelopes (C01_pipeline_total). Per-call cost is outside the model: every document of the run is first parsed in a child process under a watchdog together with inputs built to make each regular expression backtrack.",
            "filesystem overload of TokenScanner is known finding F4; per-call cost and wall-clock are outside the model (watchdog)"),
    "C03": ("Node-level theorems (field rules of every node kind, description joining and trimming characterised uniquely, children kept in insertion = source order, crashes only when a needed token/field is missing) and the whole-document composition over token trees: the builder's stack machine computes exactly the structural recursion astOf of the tree (error paths included), and for grammar-shaped trees (shape derived from ValidTree of the regenerated grammar by a kernel-checked fact) the element locations of the AST in source order equal the element-carrying leaves of the tree in order: every element once, nothing else. Tie: complete ASTs (minus locations/ids) of generated and corpus documents vs the model.",
            "C03_parse_is_astOf links every accepted imperative parse to its token tree; C03_roundtrip (generated models) not proved"),
    "C11": ("Theorems: C11_pickle_ids (compiler draws consecutive ids, steps then pickle), builder node-level id theorems, and C11_ast_ids_canonical: for every grammar-shaped token tree the ids of the document, traversed in the canonical order of the property, are exactly n, n+1, ... (distinct, dense, canonical); C15_id_offset gives the shared-generator case. Tie/oracle: all ids vs the model; independent oracle on the implementation (distinct, 0..N-1, references resolve to nodes of the right kind); several sources through one stream. Whole pipeline (Props/C11Pipeline): C11_pipeline_ids (AST ids in canonical order then pickle ids = ids..n'-1 for every accepted document, compile total), C11_refs_resolve (every id a pickle mentions is the id of exactly one AST node of the right kind), C11_stream_ids (ids shown by a stream strictly increasing and pairwise distinct for any mix of accepted and rejected sources; dense when all sources are accepted and all options on).",
            "C11_parse_ids_canonical states it for the document of every accepted parse"),
    "C15": ("Theorems: the matcher state stays consistent through every parse (invariant), reset makes a parse independent of everything the matcher was used for before (C15_used_equals_fresh for any history), the builder/queue/errors are fresh per parse, ids shift uniformly with the counter (parser, compiler, stream), generic frame lemma for arbitrary schedules and its instance for the parse loop, determinism. Tie (carries the weight for heap effects): all ordered pairs/triples of state-perturbing documents through one Parser+TokenMatcher vs fresh instances, one shared Compiler/TokenMatcher through long document sequences, random schedules of concurrent parses gated at every token read (with and without an explicit matcher).",
            "heap aliasing and preemption inside a match call cannot be exhibited by a functional model"),
    "C16": ("Per-line invariance theorems of the matcher model for the token it actually sees (CRLF for all 14 kinds, final newline, trailing blanks, indentation shifting only columns / tag-error column / the doc string's indent) under kernel-checked dialect facts and a proved separator invariant; kind-level whole-run theorems, generic in the table under kernel-checked facts: an inserted blank line adds exactly one build Empty, a comment before a structural line adds exactly one build Comment. Whole documents, both error modes, on the imperative model (lock-step simulation of two runs): C16_crlf_document, C16_final_newline_document, C16_trailing_blanks_document (outcome - document or exact error list - and final context equal). C16_blank_line_document / C16_indent_document: the outcome of the text with a blank line inserted outside descriptions and doc strings / with keyword, step, tag, row lines indented further is exactly the renamed outcome of the original (line numbers after the insertion point +1 / columns of moved lines +w), accepted or rejected, both modes. C16_comment_line_document_all: a comment line inserted in ANY state that reads it as a comment (self-loop states, and the description-opening states directly after a keyword line when the next line is absent or not blank) yields the original outcome with later lines moved down and exactly this comment added. C16_indent_docstring_block_document: a doc string moving as one block (opening delimiter and content by the same number of blanks, closing delimiter by any) changes only columns. Tie: metamorphic pairs on the implementation (LF/CRLF, final newline, trailing blanks, indentation, doc-string block indentation, blank line, comment line) at sampled admissible positions; file loading incl. BOM and long paths; theorem-driven: the driver evaluates the theorems' hypotheses (op layoutok) and the implementation must give exactly the renamed outcome wherever they hold.",
            "C16_comment_line_document_all (Props/C16Doc6) covers every state, including the eight states directly after a keyword line (next line absent or not blank; the blank-line follower is where the conclusion is false, kernel-checked); C16_indent_docstring_block_document (Props/C16Doc7) is the doc string moving as one block at document level; file loading (open/readline) is outside the model and compared by the tie; trailing blanks after a step line that is a keyword prefix is known finding F8 (the theorem carries the hypothesis StepTailFree)"),
    "C17": ("Theorems: exact envelope list and counter for all 8 option combinations (accepted and rejected sources), source/uri/parseError fields, every envelope's JSON satisfies the written-out Cucumber Messages shape (Spec.wellShaped) incl. compiler output never having a Conjunction step type, locality and order of sources; Props/C17Stop: a stream whose parser was switched to stop-at-first-error mode yields for an accepted source exactly what the collecting stream yields and for a rejected source exactly one parseError envelope, that of the first collected error. Tie/oracle: sequences of sources x options (a quarter of them in stop mode) vs the model, json round trip, shape validator, SourceEvents on files with CRLF/CR/BOM and on path lists with repeated paths.",
            "json.dumps is trusted"),
    "C18": ("Theorems: C18_reads_in_order (the main loop reads the tokens of lines 1,2,3,... in order however often look-ahead moved them through the queue) and C18_accepted_sequence (for an accepted document the builder receives exactly one token per physical line, in order, with that line's text and number, then one EOF) from matcher determinism, dialect facts and kernel-checked queue facts of the regenerated table; partition (every token read is built xor reported unexpected); look-ahead conserves the queue. Tie: built tokens and line numbers vs the model; all tag/comment/blank runs <= L and long runs through the look-ahead queue; one Parser reused; corpus token listings.",
            "TokenFormatterBuilder is modelled (Model/Formatter.lean) and C18_listing_is_builds / C18_listing_lockstep / C18_listing_accepted_lines tie the printed listing to the tokens of the AST-builder run; equality with the corpus reference listings is a finite comparison (a test)"),
})

TECH = "Lean 4 theorems about an executable model + correspondence check (model/spec vs real code, in-process)"


def main():
    props_dir = os.path.join(VERIF, "lean", "GherkinVerif", "Props")
    have = {f[:-5] for f in os.listdir(props_dir) if f.endswith(".lean")}
    from harness import props
    checks, na = [], []
    for pid in sorted(props.PROPS):
        mods = props.PROPS[pid]["modules"]
        if not all(m in have for m in mods):
            na.append({"property_id": pid, "reason": "not yet decided: theorem module(s) " +
                       ", ".join(m for m in mods if m not in have) + " still under construction (see DESIGN.md)"})
            continue
        text, note = LEVEL[pid]
        checks.append({
            "property_id": pid,
            "quick_cmd": f"./check {pid} --tier quick",
            "thorough_cmd": f"./check {pid} --tier thorough",
            "evidence_file": f"evidence/{pid}.json",
            "replay_cmd_template": f"./check {pid} --replay {{path}}",
            "engine": "lean4+correspondence",
            "level_claimed": {"category": "proof", "text": text, "design_ref": f"DESIGN.md §7 {pid}"},
            "level_note": ("Trusted: Lean kernel; axioms ⊆ {propext, Classical.choice, Quot.sound}; translators and correspondence harness; "
                           "CPython str/re/list semantics as modelled. " + note).strip(),
            "technique": TECH,
        })
    man = {
        "version": 1,
        "setup_cmd": "./setup.sh",
        "hooks": {
            "guard": "GHERKIN_VERIF_HOOKS",
            "enable": "no source hooks are needed: instrumentation is done with subclasses inside /verif/harness (counting matcher, recording builder, gated scanner)",
            "baseline_off_cmd": "cd /repo && /venv/bin/python -m pytest -ra -q -p no:cacheprovider --timeout=900 --continue-on-collection-errors",
            "source_commits": [],
            "add_only": True,
        },
        "engines": [{"name": "lean4+correspondence", "path": "lean/ , harness/ , translate/",
                     "serves_properties": [c["property_id"] for c in checks],
                     "kind_free_text": "Lean 4.33 library GherkinVerif (model, specs, lemmas, property theorems) + compiled model driver + Python in-process harness"}],
        "checks": checks,
        "not_applicable": na,
        "notes": "fix: commits in /repo repair defects F1,F2,F3,F6,F7 (known_findings.json); F4,F5 are recorded known findings.",
    }
    with open(os.path.join(VERIF, "MANIFEST.json"), "w") as f:
        json.dump(man, f, indent=1)
    print("claimed:", [c["property_id"] for c in checks], "pending:", [n["property_id"] for n in na])


if __name__ == "__main__":
    main()
