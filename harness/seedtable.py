"""Refresh the seeded-regression table in DESIGN.md (between the SEEDTABLE markers) from
seeded/*/meta.json and seeded/RESULTS.json."""
import json, os, re
V = os.path.dirname(os.path.dirname(os.path.abspath(__file__)))
res = json.load(open(os.path.join(V, "seeded", "RESULTS.json"))) if os.path.exists(os.path.join(V, "seeded", "RESULTS.json")) else {}
rows = ["| seed | property | what was changed | needs to manifest | flagged by |", "|---|---|---|---|---|"]
def key(s):
    m = re.match(r"C(\d+)-(?:.*-)?(\d+)$", s); return (int(m.group(1)), int(m.group(2))) if m else (999, 0)
for sid in sorted((d for d in os.listdir(os.path.join(V, "seeded")) if os.path.isdir(os.path.join(V, "seeded", d))), key=key):
    m = json.load(open(os.path.join(V, "seeded", sid, "meta.json")))
    r = res.get(sid, {})
    fl = ", ".join(r.get("flagged", [])) or ("**missed**" if r else "not yet evaluated")
    clean = lambda t: re.sub(r"\s+", " ", str(t)).replace("|", "\\|")[:170]
    rows.append(f"| {sid} | {m['property']} | {clean(m.get('summary',''))} | {clean(m.get('needs',''))} | {fl} |")
table = "\n".join(rows)
p = os.path.join(V, "DESIGN.md")
s = open(p).read()
s = re.sub(r"<!-- SEEDTABLE BEGIN -->.*?<!-- SEEDTABLE END -->", lambda _m: "<!-- SEEDTABLE BEGIN -->\n" + table + "\n<!-- SEEDTABLE END -->", s, flags=re.S)
open(p, "w").write(s)
print(len(rows) - 2, "seeds")
