"""Entry point of every registered check:  ./check <Cxx> [--tier quick|thorough] [--replay file]

  1. regenerate the model's generated parts from /repo's current tree (translators);
  2. `lake build` the property's theorem module(s) and the model driver;
  3. audit: `#print axioms` of every property theorem, source grep for sorry/axiom/native_decide;
  4. run the property's correspondence streams (model/spec vs the real code, in-process);
  5. on any broken obligation or stream, report the concrete failing input found (or, when none is
     found, the obligation that no longer checks, ending the line with no-failing-input-found);
  6. write evidence/<Cxx>.json from what this run measured.
Exit 0 = held on everything explored; 1 = VIOLATION; 2 = infrastructure failure / timeout.
"""
from __future__ import annotations

import argparse
import json
import os
import random
import sys
import time
import traceback

from . import core
from .core import Infra


def main(argv=None):
    ap = argparse.ArgumentParser()
    ap.add_argument("prop")
    ap.add_argument("--tier", default=os.environ.get("VERIF_TIER", "quick"))
    ap.add_argument("--replay", default=None)
    args = ap.parse_args(argv)
    seed = int(os.environ.get("VERIF_SEED", "0") or 0)
    t0 = time.time()
    # global watchdog: a check that does not finish is an infrastructure failure (exit 2), never a verdict
    import signal

    def _timeout(signum, frame):
        raise Infra("check timed out")
    signal.signal(signal.SIGALRM, _timeout)
    signal.alarm(5400 if args.tier != "thorough" else 6 * 3600)
    try:
        from . import props
        spec = props.PROPS.get(args.prop)
        if spec is None:
            print(f"unknown property {args.prop}", file=sys.stderr)
            return 2
        with core.Scratch() as scratch:
            if args.replay:
                return props.replay(args.prop, args.replay, scratch)
            return run(args.prop, spec, args.tier, seed, scratch, t0)
    except Infra as e:
        print(f"INFRA-FAILURE {e}", file=sys.stderr)
        return 2
    except Exception:
        traceback.print_exc()
        return 2


def run(prop, spec, tier, seed, scratch, t0):
    from . import props
    thorough = tier == "thorough"
    # 1. translators
    gen_status = core.regenerate()
    broken = []          # obligations that no longer check: {"kind", "name", "detail"}
    for name, st in gen_status.items():
        if st["error"] and name in spec.get("translators", []):
            broken.append({"kind": "translator", "name": name, "detail": st["error"]})
    # 2. build
    ok, out = core.lake_build(["driver"])
    if not ok:
        # the model itself does not build with the regenerated parts: fall back to the committed
        # baseline for the driver so that the search can still run
        restored = props.restore_baseline_gen()
        ok2, out2 = core.lake_build(["driver"])
        if not ok2:
            raise Infra("model driver does not build: " + out2[-1500:])
        broken.append({"kind": "translator", "name": "generated model parts do not type-check",
                       "detail": out[-800:], "restored": restored})
    modules = spec["modules"]
    theorems = {}
    discharged = 0
    obligations = 0
    for mod in modules:
        names = core.theorem_names(mod)
        theorems[mod] = names
        obligations += len(names)
        okm, outm = core.lake_build([f"GherkinVerif.Props.{mod}"])
        if not okm:
            decls = core.failing_decls(outm)
            failed = sorted({d["decl"] for d in decls if d["decl"]})
            broken.append({"kind": "proof", "name": f"Props/{mod}.lean", "detail": decls[:6] or outm[-800:],
                           "failed_decls": failed})
        else:
            ax, problems = core.axiom_audit(mod, names, scratch.dir)
            for p in problems:
                broken.append({"kind": "audit", "name": p, "detail": ""})
            discharged += sum(1 for n in names if n in ax and all(a in core.ALLOWED_AXIOMS for a in ax[n]))
    hits = core.source_audit()
    for h in hits:
        broken.append({"kind": "audit", "name": "forbidden construct in Lean sources", "detail": h})
    if thorough and not broken:
        okc, outc = props.leanchecker(modules)
        if not okc:
            broken.append({"kind": "audit", "name": "leanchecker rejected the compiled theorems", "detail": outc[-800:]})

    # 3b. source tie of the hand-modelled parts: a function that is no longer what the model was
    # validated against gets the deepest comparison available (thorough stream sizes) in every tier
    from . import sourcetie
    try:
        tie = sourcetie.status()
    except Exception as e:
        tie = {"functions": 0, "changed": [], "added": [], "removed": [], "differs": True, "error": repr(e)}
    tie["relevant"] = sourcetie.relevant(prop, tie["changed"] + tie["added"] + tie["removed"]) if tie["differs"] else []
    escalated = bool(tie["relevant"] or tie.get("error")) and not thorough
    tie["escalated_to_thorough_streams"] = escalated
    if escalated:
        print(f"source tie: {len(tie['relevant'])} hand-modelled function(s) differ from the validated baseline "
              f"({', '.join(tie['relevant'][:4])}{' …' if len(tie['relevant']) > 4 else ''}): streams run at thorough size",
              file=sys.stderr)

    # 4. streams
    rng = random.Random((seed << 8) ^ hash(prop) % 251)
    rng = random.Random(f"{seed}:{prop}")
    ctx = props.Ctx(prop=prop, rng=rng, thorough=thorough or escalated, seed=seed, scratch=scratch, broken=broken,
                    scale=1 if (escalated and not thorough) else 0)
    from .streams import EnoughFailures
    try:
        res = spec["run"](ctx)
    except EnoughFailures as e:
        res = e.result

    # the module-level language table must be exactly what the shipped JSON says after everything the
    # check ran (nothing may mutate shared data)
    try:
        from . import impl as _impl
        with open(os.path.join(core.REPO, "python/gherkin/gherkin-languages.json"), encoding="utf-8") as fh:
            on_disk = json.load(fh)
        if _impl.dialects() != on_disk:
            diff_ = next((n for n in on_disk if _impl.dialects().get(n) != on_disk[n]), "?")
            res.failures.insert(0, {"stream": "shared-state", "input": {"dialect": diff_},
                                    "impl": _impl.dialects().get(diff_), "expected": on_disk.get(diff_),
                                    "what": "gherkin.dialect.DIALECTS (module-level, shared by every matcher) no longer equals the shipped "
                                            "language table after the run: something mutated it in place"})
    except Exception:
        pass

    # 5. verdict
    known = core.load_known_findings()
    unknown_failures = []
    known_hits = {}
    for f in res.failures:
        k = props.match_known(prop, f, known)
        if k:
            known_hits.setdefault(k["id"], (k, f))
        else:
            unknown_failures.append(f)
    for kid in sorted(ctx.known_seen):
        k = next((x for x in known if x["id"] == kid and x["status"] == "known" and prop in x["properties"]), None)
        if k:
            known_hits.setdefault(kid, (k, None))
    for kid, (k, f) in sorted(known_hits.items()):
        print(f"KNOWN-FINDING: property={prop} {k['id']} {k['what']}")
    violation = None
    replay_path = None
    if unknown_failures:
        f = props.shrink(prop, unknown_failures[0])
        replay_path = props.write_replay(prop, seed, tier, f, broken)
        violation = f"VIOLATION property={prop} replay={replay_path}"
    elif broken:
        replay_path = props.write_replay(prop, seed, tier, None, broken)
        violation = f"VIOLATION property={prop} replay={replay_path} no-failing-input-found"

    # 6. evidence
    ev = {
        "property_id": prop, "tier": "thorough" if thorough else "quick", "seed": seed, "level": "proof",
        "coverage": {
            "obligations": obligations, "discharged": discharged if not any(b["kind"] == "proof" for b in broken) else
            sum(len(theorems[m]) for m in modules if not any(b["kind"] == "proof" and b["name"] == f"Props/{m}.lean" for b in broken)),
            "checker_cmd": "cd lean && lake build " + " ".join(f"GherkinVerif.Props.{m}" for m in modules) +
                           " driver && lake env lean <#print axioms of every property theorem>",
            "trusted_base": core.TRUSTED_BASE,
            "theorems": theorems,
            "broken_obligations": broken,
            "evaluations": res.evaluations,
            "distinct_nontrivial": len(res.keys),
            "rule": spec["rule"],
            "samples": res.samples[:4] or [{"note": "no stream case was non-trivial in this run"}],
            "input_distribution": dict(res.stats),
            "exhaustive": bool(spec.get("exhaustive", False)),
            "generated_parts": gen_status,
            "source_tie": tie,
            "known_findings_seen": sorted(known_hits),
        },
        "assumptions": spec.get("assumptions", []),
        "wall_s": round(time.time() - t0, 2),
        "violations": len(unknown_failures) + (1 if (broken and not unknown_failures) else 0),
    }
    core.write_evidence(prop, ev)
    if violation:
        print(violation)
        return 1
    print(f"OK property={prop} tier={tier} seed={seed} theorems={discharged}/{obligations} "
          f"cases={res.evaluations} distinct={len(res.keys)} wall={ev['wall_s']}s")
    return 0


if __name__ == "__main__":
    sys.exit(main())
