"""Correspondence streams: run the real code and the Lean model (or the Lean specification) on the
same inputs and report, per property projection, where they differ.  A stream returns a
`Result`; a failure is a concrete input on which the implementation's observable output differs
from what the (proved) model/specification gives for the part the property talks about."""
from __future__ import annotations

import glob
import json
import os
import random
from collections import Counter
from dataclasses import dataclass, field

from . import driver, gens, impl
from .core import REPO, digest


class EnoughFailures(Exception):
    """raised when a run has already collected plenty of failing inputs: no need to go on
    (a badly broken tree can also make the remaining cases very slow)"""

    def __init__(self, result):
        super().__init__("enough failures")
        self.result = result


@dataclass
class Result:
    evaluations: int = 0
    keys: set = field(default_factory=set)          # digests of distinct non-trivial cases
    samples: list = field(default_factory=list)
    failures: list = field(default_factory=list)
    stats: Counter = field(default_factory=Counter)

    def note(self, case, nontrivial: bool):
        self.evaluations += 1
        if nontrivial:
            self.keys.add(digest(case))
        if len(self.samples) < 3 and nontrivial:
            self.samples.append(case)

    def fail(self, stream, case, impl_out, expected, what):
        if len(self.failures) < 50:
            self.failures.append({"stream": stream, "input": case, "impl": impl_out, "expected": expected, "what": what})
        self.stats["failures"] += 1
        if self.stats["failures"] >= 60:
            raise EnoughFailures(self)

    def merge(self, other: "Result"):
        self.evaluations += other.evaluations
        self.keys |= other.keys
        self.samples += other.samples[: max(0, 4 - len(self.samples))]
        self.failures += other.failures
        self.stats.update(other.stats)
        return self


def first_diff(a, b, path=""):
    """human-readable location of the first difference between two JSON-like values"""
    if type(a) != type(b):
        return f"{path}: {json.dumps(a, default=str)[:120]} != {json.dumps(b, default=str)[:120]}"
    if isinstance(a, dict):
        for k in sorted(set(a) | set(b)):
            if k not in a:
                return f"{path}.{k}: missing in implementation output"
            if k not in b:
                return f"{path}.{k}: not expected (value {json.dumps(a[k], default=str)[:80]})"
            d = first_diff(a[k], b[k], f"{path}.{k}")
            if d:
                return d
        return None
    if isinstance(a, list):
        for i, (x, y) in enumerate(zip(a, b)):
            d = first_diff(x, y, f"{path}[{i}]")
            if d:
                return d
        if len(a) != len(b):
            return f"{path}: length {len(a)} != {len(b)}"
        return None
    return None if a == b else f"{path}: {json.dumps(a, default=str)[:120]} != {json.dumps(b, default=str)[:120]}"


# ---------------------------------------------------------------- corpus

def edge_docs():
    """size and count thresholds, rare characters in header names: a fixed set of documents every
    parse-based property runs (beyond 9/10/16/64/128/255/256/1000/8192 of everything)"""
    docs = []
    long_ = "x" * 9000
    docs.append(f"Feature: f\n  {long_}\n  Scenario: s\n    Given {long_} tail\n      | {long_} | b |\n")
    docs.append("Feature: " + "n" * 70000 + "\n  Scenario: s\n    Given a\n")
    docs.append("Feature: f\n  " + " ".join(f"@t{i}" for i in range(300)) + "\n  Scenario: s\n    Given a\n")
    for w in (255, 256, 257, 300):
        row = "      |" + "".join(f" c{i} |" for i in range(w)) + "\n"
        docs.append("Feature: f\n  Scenario: s\n    Given wide\n" + row * 3)
        docs.append("Feature: f\n  Scenario Outline: s\n    Given <c1>\n    Examples:\n" + row * 2 + row.replace("| c3 |", "|", 1))
    for n in (17, 127, 128, 129, 300):
        run = "".join(["  @t\n", "  # c\n", "\n"][i % 3] for i in range(n))
        docs.append("Feature: f\n  Scenario Outline: o\n    Given <a>\n  @first\n" + run + "    Examples:\n      | a |\n      | 1 |\n")
        docs.append("Feature: f\n  Scenario: o\n    Given a\n  @first\n" + run + "  Scenario: next\n    Given b\n")
        docs.append("Feature: f\n  Scenario: o\n    Given a\n  @first\n" + run + "  junk\n")
    docs.append("Feature: f\n  Scenario: s\n    Given t\n" + "".join(f"      | r{i} | v |\n" for i in range(1200)))
    docs.append("Feature: f\n  Scenario: s\n" + "".join(f"    And step {i}\n" for i in range(1100)))
    docs.append("Feature: f\n  Background:\n" + "".join(f"    But b{i}\n" for i in range(600)) + "  Scenario Outline: s\n" +
                "".join(f"    And <a> {i}\n" for i in range(700)) + "    Examples:\n      | a |\n      | 1 |\n")
    docs.append("Feature: f\n  Scenario Outline: s\n    Given <a>\n" + "".join(f"    Examples: e{i}\n      | a |\n      | {i} |\n" for i in range(70)))
    docs.append("Feature: f\n  Scenario: s\n    Given d\n      \"\"\"\n" + "".join(f"      line {i}\n" for i in range(1100)) + "      \"\"\"\n")
    docs.append("Feature: f\n" + "".join(f"  Rule: r{i}\n    Example: e\n      Given x\n" for i in range(70)))
    docs.append("".join(f"junk {i}\n" for i in range(30)))
    for k in (8, 9, 10, 11):      # exactly k errors, then ONE line that yields two (tag error + unexpected line)
        docs.append("".join(f"junk {i}\n" for i in range(k)) + "@a b\nFeature: f\n")
        docs.append("Feature: f\n  Scenario: s\n    Given x\n" + "".join(f"      junk {i}\n" for i in range(k)) + "    @t with blank\n    Scenario: t\n")
        docs.append("Feature: f\n  Scenario: s\n    Given x\n" + "".join(f"      junk {i}\n" for i in range(k)) + "      | a |\n      | a | b |\n    @t with blank\n  junk\n")
    docs.append("Feature: f\n  Scenario: s\n    Given a\n" + "".join(f"      | a |\n      | b | c |\n    And s{i}\n" for i in range(14)) + "foo\n")
    for name in ("ſv", "Kn", "fı", "İt", "zh_CN", "en_au", "sr_Cyrl", "en_Scouse", "mk_Latn", "pt_BR", "fr2", "é"):
        docs.append(f"# language: {name}\nFeature: f\n  Scenario: s\n    Given a\n")
        docs.append(f"  #language:{name}\nFunktionalitet: f\n")
    return docs


def corpus_docs():
    docs = edge_docs()
    for f in sorted(glob.glob(os.path.join(REPO, "testdata", "good", "*.feature")) +
                    glob.glob(os.path.join(REPO, "testdata", "bad", "*.feature"))):
        with open(f, encoding="utf8", newline="") as fh:
            docs.append(fh.read())
    cdir = os.path.join(os.path.dirname(os.path.dirname(os.path.abspath(__file__))), "corpus")
    for f in sorted(glob.glob(os.path.join(cdir, "*.json"))):
        try:
            docs.append(json.load(open(f, encoding="utf8"))["source"])
        except Exception:
            pass
    return docs


def doc_mix(rng: random.Random, n: int, noisy=0.3, mutated=0.3):
    out = []
    for _ in range(n):
        c = rng.random()
        if c < noisy:
            out.append(gens.noisy(rng))
        elif c < noisy + mutated:
            out.append(gens.mutate_lines(rng, gens.structured(rng)))
        else:
            out.append(gens.structured(rng))
    return out


# ---------------------------------------------------------------- parse stream

ABORTING = ["Feature: f\n  Scenario: s\n    Given x\n      | a | b |\n      | c |\n  @t\n  @u\n\n  # c\n  Scenario: stale\n    Given y\n",
            "Feature: f\n  Scenario Outline: s\n    Given <a>\n    Examples:\n      | a |\n      | 1 | 2 |\n    @t\n    @u\n    Examples: stale\n      | a |\n",
            "Feature: f\n" + "".join(f"  bad line {i_}\n  Scenario: s{i_}\n" for i_ in range(10)) +
            "    Given x\n      | a | b |\n      | c |\n  @t\n  @u\n  Scenario: stale\n    Given y\n",
            "Feature: ghost\n  @a b\n  @t\n  Scenario: s\n"]
CLEAN = ["Feature: after\n  Scenario: clean\n    Given z\n", "Scenario: headless\n  Given z\n", ""]


_ABORT_PROBED = False


def abort_probe(res: "Result"):
    """Process-wide state after ABORTED parses (implementation-only history oracle, run by every parse-based check):
    parses that abort while the look-ahead queue still holds lines — a builder error raised by the tag line that closes a
    ragged table, in stop mode or as the eleventh error; a tag error inside a look-ahead — through fresh and reused
    Parser objects, must not change what ANY later parse (fresh objects, either mode) returns."""
    def snap():
        return [impl.parse(c_, st_) for c_ in CLEAN for st_ in (False, True)]
    before = snap()
    reused = impl.Parser(impl.RecordingBuilder(impl.id_gen(0)))
    for a_ in ABORTING:
        for st_ in (True, False):
            for parser_ in (None, reused):
                impl.parse(a_, st_, parser=parser_, fresh_ids=parser_ is not None)
                after = snap()
                res.note({"aborted": a_, "stop": st_, "reused_parser": parser_ is not None}, True)
                if after != before:
                    k_ = next(i_ for i_, (x_, y_) in enumerate(zip(before, after)) if x_ != y_)
                    res.fail("history", {"source": CLEAN[k_ // 2], "stop": bool(k_ % 2), "default_dialect": "en",
                                         "after_aborted_parse_of": a_, "aborted_in_stop_mode": st_, "reused_parser": parser_ is not None},
                             after[k_], before[k_], "a parse with FRESH objects returns something else after an earlier parse was aborted "
                             "(state survives outside the Parser / TokenMatcher instances): " + str(first_diff(after[k_], before[k_])))
                    return


def parse_stream(docs, project, stream="parse", modes=(False, True), dialects=("en",), known=None,
                 nontrivial=lambda i: True, shared=True) -> Result:
    """impl.parse vs model parse under `project(outcome) -> comparable`."""
    res = Result()
    global _ABORT_PROBED
    if shared and not _ABORT_PROBED:      # once per check run
        _ABORT_PROBED = True
        abort_probe(res)
    hist = {}
    cases = []
    for src in docs:
        for stop in modes:
            for dd in dialects:
                cases.append((src, stop, dd))
    outs = driver.batch([driver.request("parse", stop, dd, 0, src) for src, stop, dd in cases])
    shared_p, shared_m = {}, {}
    for (src, stop, dd), m in zip(cases, outs):
        case = {"source": src, "stop": stop, "default_dialect": dd}
        if impl.is_existing_path(src):
            res.stats["known:F4-path-as-text"] += 1
            if known is not None:
                known.add("F4")
            continue
        i = impl.parse(src, stop, dd)
        res.stats["accepted" if "ok" in i else "rejected" if "errors" in i else "crash"] += 1
        res.note(case, nontrivial(i))
        pi, pm = project(i), project(m)
        if pi != pm:
            res.fail(stream, case, pi, pm, first_diff(pi, pm))
            continue
        # the same document through ONE long-lived Parser and TokenMatcher (per default dialect):
        # the result must not depend on what they parsed before
        if shared:
            sp = shared_p.get(dd)
            if sp is None:
                sp = shared_p[dd] = impl.Parser(impl.RecordingBuilder(impl.id_gen(0)))
                shared_m[dd] = impl.CountingMatcher(dd)
                hist[dd] = []
            i2 = impl.parse(src, stop, dd, parser=sp, matcher=shared_m[dd], fresh_ids=True)
            p2 = project(i2)
            if p2 != pm:
                res.fail("history", {**case, "earlier_documents_through_same_parser_and_matcher": hist[dd][-3:]}, p2, pm,
                         "result differs when the Parser/TokenMatcher have been used before: " + str(first_diff(p2, pm)))
            hist[dd].append(src)
    return res


def strip_keys(x, drop):
    if isinstance(x, dict):
        return {k: strip_keys(v, drop) for k, v in x.items() if k not in drop}
    if isinstance(x, list):
        return [strip_keys(v, drop) for v in x]
    return x


# ---------------------------------------------------------------- pickles / genast

def pickles_stream(docs, project, stream="pickles", shared=True) -> Result:
    """parse+compile each document; with `shared`, ONE Compiler and ONE TokenMatcher instance serve
    the whole sequence (each result must still equal the per-document model: no state may leak)"""
    res = Result()
    docs = [d for d in docs if not impl.is_existing_path(d)]
    outs = driver.batch([driver.request("pickles", "en", "uri", s) for s in docs])
    comp = impl.Compiler() if shared else None
    mat = impl.TokenMatcher("en") if shared else None
    prev = []
    for s, m in zip(docs, outs):
        i = impl.pickles(s, "uri", compiler=comp, matcher=mat)
        case = {"source": s}
        if shared:
            pi0, pm0 = project(i), project(m)
            if pi0 != pm0 and ("pickles" in i or "pickles" in m):
                j = impl.pickles(s, "uri")
                if project(j) == pm0:
                    res.fail("history", {"source": s, "earlier_documents_through_same_compiler_and_matcher": prev[-3:]},
                             pi0, pm0, "result differs when the Compiler/TokenMatcher instance has been used before: "
                             + str(first_diff(pi0, pm0)))
                    prev.append(s)
                    continue
            prev.append(s)
        res.note(case, "pickles" in i and len(i["pickles"]) > 0)
        res.stats["pickles"] += len(i.get("pickles", []))
        if "pickles" not in i and "pickles" not in m:
            continue
        pi, pm = project(i), project(m)
        if pi != pm:
            res.fail(stream, case, pi, pm, first_diff(pi, pm))
    return res


def genast_stream(rng: random.Random, n: int, project, stream="genast") -> Result:
    res = Result()
    descs = [[rng.randrange(256) for _ in range(rng.randrange(5, 220))] for _ in range(n)]
    outs = driver.batch([driver.request("genast", "u", d) for d in descs])
    comp = impl.Compiler()          # one Compiler for the whole sequence: no state may leak between documents
    for d, m in zip(descs, outs):
        i = impl.compile_ast(m["doc"], "u", m["start"], compiler=comp)
        case = {"descriptor": d, "doc": m["doc"], "start": m["start"]}
        res.note({"descriptor": d}, len(i.get("pickles", [])) > 0)
        res.stats["pickles"] += len(i.get("pickles", []))
        if "crash" in i:
            i["crash"] = i["crash"].split(":")[0]
        mm = {k: v for k, v in m.items() if k not in ("doc", "start")}
        pi, pm = project(i), project(mm)
        if pi != pm:
            res.fail(stream, case, pi, pm, first_diff(pi, pm))
    return res


# ---------------------------------------------------------------- line-level streams

def line_stream(op, lines, impl_fn, stream, project=lambda x: x, nontrivial=lambda o: bool(o)) -> Result:
    res = Result()
    outs = driver.batch([driver.request(op, l) for l in lines])
    for l, m in zip(lines, outs):
        try:
            i = impl_fn(l)
        except Exception as e:
            i = {"crash": f"{type(e).__name__}: {e}"}
        res.note({"line": l}, nontrivial(i))
        pi, pm = project(i), project(m)
        if pi != pm:
            res.fail(stream, {"line": l}, pi, pm, first_diff(pi, pm))
    return res


def match_stream(cases, stream="match", project=lambda x: x) -> Result:
    """cases: (kind, default, current, indent_to_remove, active_sep, line)"""
    res = Result()
    outs = driver.batch([driver.request("match", impl.KINDS.index(k), d, c, ind, sep or "", line)
                         for k, d, c, ind, sep, line in cases])
    for (k, d, c, ind, sep, line), m in zip(cases, outs):
        i = impl.match(k, d, c, ind, sep, line)
        case = {"kind": k, "default": d, "current": c, "indent_to_remove": ind, "active_sep": sep, "line": line}
        res.note(case, i["res"] != "no")
        res.stats["matched" if i["res"] == "matched" else "raised" if isinstance(i["res"], dict) else "no"] += 1
        pi, pm = project(i), project(m)
        if pi != pm:
            res.fail(stream, case, pi, pm, first_diff(pi, pm))
    return res


def interp_stream(cases, stream="interp") -> Result:
    """cases: (template, [(h, v), …])"""
    res = Result()
    outs = driver.batch([driver.request("interp", t, *[x for hv in hvs for x in hv]) for t, hvs in cases])
    for (t, hvs), m in zip(cases, outs):
        case = {"template": t, "columns": hvs}
        try:
            i = impl.interp(t, [h for h, _ in hvs], [v for _, v in hvs])
        except Exception as e:
            i = {"crash": f"{type(e).__name__}: {e}"}
        res.note(case, i != t)
        if i != m:
            res.fail(stream, case, i, m, first_diff(i, m))
    return res


# ---------------------------------------------------------------- stream (GherkinEvents)

def events_stream(rng: random.Random, n: int, project=lambda x: x, stream="stream") -> Result:
    res = Result()
    cs, reqs = [], []
    for _ in range(n):
        opts = tuple(rng.random() < 0.6 for _ in range(3))
        srcs = [(f"u{k}.feature", gens.structured(rng) if rng.random() < 0.6 else gens.noisy(rng))
                for k in range(rng.randrange(1, 4))]
        srcs = [(u, d) for u, d in srcs if not impl.is_existing_path(d)]
        if srcs and rng.random() < 0.3:      # the same text again (under another uri, or the same one): still its own source
            u0, d0 = rng.choice(srcs)
            srcs.insert(rng.randrange(len(srcs) + 1), (rng.choice([u0, "again.feature"]), d0))
            if rng.random() < 0.3:
                srcs.append(("third.feature", d0))
        stop = rng.random() < 0.25      # the stream's parser switched to stop-at-first-error (Model: streamAllMode)
        cs.append((opts, srcs, stop))
        reqs.append(driver.request("stream", [int(o) for o in opts] + [int(stop)], *[x for p in srcs for x in p]))
    outs = driver.batch(reqs)
    for (opts, srcs, stop), m in zip(cs, outs):
        i = impl.stream(opts, srcs, stop=stop)
        case = {"options": opts, "sources": srcs, "stop": stop}
        res.stats["stop_mode_streams"] += int(stop)
        res.note(case, any(len(e) > 0 for e in i))
        res.stats["envelopes"] += sum(len(e) for e in i)
        pi, pm = project(i), project(m)
        if pi != pm:
            res.fail(stream, case, pi, pm, first_diff(pi, pm))
    return res
