"""Per-property checks: which theorem modules decide the property, which correspondence streams tie
the model to the code for it, and which projection of the outputs the property speaks about."""
from __future__ import annotations

import copy
from collections import Counter
import itertools
import json
import os
import re
import subprocess
from dataclasses import dataclass, field

from . import core, driver, gens, impl, streams
from .streams import Result, strip_keys, first_diff


THOROUGH_SCALE = int(os.environ.get("VERIF_THOROUGH_SCALE", "4"))


@dataclass
class Ctx:
    prop: str
    rng: object
    thorough: bool
    seed: int
    scratch: object
    broken: list
    known_seen: set = field(default_factory=set)
    scale: int = 0          # 0: THOROUGH_SCALE; the quick tier escalated by the source tie uses 1

    def n(self, quick, thorough):
        """size of a stream in the quick / thorough tier; counts (not enumeration bounds) are scaled
        up further in the thorough tier (THOROUGH_SCALE)"""
        if not self.thorough:
            return quick
        return thorough * (self.scale or THOROUGH_SCALE) if thorough >= 100 else thorough


# ------------------------------------------------------------------ helpers

def restore_baseline_gen():
    """put back the committed (baseline) generated files so that the driver builds"""
    rc, out, err = core.sh(["git", "-C", core.VERIF, "checkout", "--", "lean/GherkinVerif/Gen"])
    return rc == 0


def leanchecker(modules):
    mods = [f"GherkinVerif.Props.{m}" for m in modules]
    rc, out, err = core.sh(["lake", "env", "leanchecker"] + mods, cwd=core.LEAN, timeout=3000)
    return rc == 0, out + err


def match_known(prop, failure, known):
    for k in known:
        if k["status"] != "known" or prop not in k["properties"]:
            continue
        m = k.get("match", {})
        inp = failure.get("input", {})
        if m.get("source_text_is_existing_path") and isinstance(inp.get("source"), str) \
                and impl.is_existing_path(inp["source"]):
            return k
        if m.get("tag_item_starts_with_blank") and failure.get("tag_blank"):
            return k
        if m.get("step_line_is_keyword_prefix_without_its_blank") and failure.get("f8"):
            return k
    return None


def write_replay(prop, seed, tier, failure, broken):
    d = os.path.join(core.VERIF, "replays")
    os.makedirs(d, exist_ok=True)
    path = os.path.join(d, f"{prop}-seed{seed}-{tier}.json")
    doc = {"property": prop, "seed": seed, "tier": tier,
           "broken_obligations": broken,
           "failure": failure,
           "replay_cmd": f"./check {prop} --replay {path}"}
    if failure is None:
        doc["note"] = ("no concrete failing input was found; the obligations listed under broken_obligations "
                       "(theorem / translator / audit) no longer check, so the property is no longer shown to hold")
    with open(path, "w", encoding="utf8") as f:
        json.dump(doc, f, indent=1, default=str)
    return path


def _still_fails(prop, failure, source):
    """re-evaluate a parse/pickles-style failure on a smaller source"""
    try:
        f2 = REEVAL[failure["stream"]](prop, failure, source)
    except Exception:
        return None
    return f2


def shrink(prop, failure):
    """delta-debug the source text of a failing case by lines, then by characters (bounded effort)"""
    inp = failure.get("input", {})
    if failure.get("stream") not in REEVAL or not isinstance(inp.get("source"), str):
        return failure
    best = failure
    src = inp["source"]
    lines = src.splitlines(keepends=True)
    budget = 150
    changed = True
    while changed and budget > 0:
        changed = False
        for i in range(len(lines)):
            if budget <= 0:
                break
            cand = lines[:i] + lines[i + 1:]
            budget -= 1
            f2 = _still_fails(prop, best, "".join(cand))
            if f2:
                lines, best, changed = cand, f2, True
                break
    return best


def replay(prop, path, scratch):
    doc = json.load(open(path, encoding="utf8"))
    f = doc.get("failure")
    if not f:
        print(f"replay file names broken obligations only: {json.dumps(doc.get('broken_obligations'))[:600]}")
        import subprocess
        env = {**os.environ, "VERIF_SEED": str(doc.get("seed", 0))}
        return subprocess.call([os.path.join(core.VERIF, "check"), prop, "--tier", doc.get("tier", "quick")], env=env)
    if f.get("stream") in REEVAL and isinstance(f.get("input", {}).get("source"), str):
        f2 = REEVAL[f["stream"]](prop, f, f["input"]["source"])
        if f2:
            print(f"VIOLATION property={prop} replay={path}")
            print("  " + str(f2.get("what")))
            return 1
        print(f"replay: the recorded case no longer fails for {prop}")
        return 0
    # no single-case re-evaluation for this stream: re-run the whole check with the recorded seed and tier
    print(f"replay: re-running the {doc.get('tier', 'quick')} check of {prop} with seed {doc.get('seed', 0)} "
          f"(stream {f.get('stream')} is replayed by regenerating its cases)")
    import subprocess
    env = {**os.environ, "VERIF_SEED": str(doc.get("seed", 0))}
    return subprocess.call([os.path.join(core.VERIF, "check"), prop, "--tier", doc.get("tier", "quick")], env=env)


# ------------------------------------------------------------------ projections

def walk(x, fn, path=()):
    fn(x, path)
    if isinstance(x, dict):
        for k, v in x.items():
            walk(v, fn, path + (k,))
    elif isinstance(x, list):
        for i, v in enumerate(x):
            walk(v, fn, path + (i,))


def outcome_class(o):
    return "ok" if "ok" in o else "rejected" if "errors" in o else "crash"


def proj_all(o):
    return {k: v for k, v in o.items() if k not in ("events", "builds", "buildLines", "calls", "dialectAfter", "ids", "reads", "unexpected")}


def proj_ast_text(o):
    """C03: the tree and its texts, without locations and ids"""
    if "ok" not in o:
        return {"class": outcome_class(o)}
    return {"class": "ok", "ast": strip_keys(o["ok"], {"location", "id"})}


def proj_locations(o):
    """C04: every location of the AST, in traversal order; error locations"""
    if "ok" in o:
        locs = []
        walk(o["ok"], lambda x, p: locs.append((".".join(str(q) for q in p if not isinstance(q, int)), x["location"]))
             if isinstance(x, dict) and "location" in x else None)
        return {"class": "ok", "locations": [[a, b] for a, b in locs]}
    if "errors" in o:
        return {"class": "rejected", "locations": [e["location"] for e in o["errors"]]}
    return {"class": "crash"}


def proj_keywords(o):
    """C05: keywords, language, keyword types"""
    if "ok" not in o:
        return {"class": outcome_class(o), "lang_errors": [e for e in o.get("errors", []) if e["type"] == "NoSuchLanguageException"]}
    ks = []
    walk(o["ok"], lambda x, p: ks.append([x.get("keyword"), x.get("keywordType"), x.get("language")])
         if isinstance(x, dict) and "keyword" in x else None)
    return {"class": "ok", "keywords": ks}


def proj_docstrings(o):
    if "ok" not in o:
        return {"class": outcome_class(o)}
    ds = []
    walk(o["ok"], lambda x, p: ds.append(strip_keys(x["docString"], {"location"}))
         if isinstance(x, dict) and "docString" in x else None)
    return {"class": "ok", "docstrings": ds}


def proj_tables(o):
    if "ok" in o:
        ts = []

        def f(x, p):
            if isinstance(x, dict) and "cells" in x:
                ts.append([c["value"] for c in x["cells"]])
        walk(o["ok"], f)
        return {"class": "ok", "rows": ts}
    if "errors" in o:
        return {"class": "rejected", "ragged": [e for e in o["errors"] if e["type"] == "AstBuilderException"]}
    return {"class": "crash"}


def proj_errors(o):
    if "errors" in o:
        return {"class": "rejected", "errors": o["errors"], "composite": o["composite"]}
    return {"class": outcome_class(o)}


def proj_builds(o):
    return {"class": outcome_class(o), "builds": o.get("builds"), "lines": o.get("buildLines"),
            "error_lines": [e["location"]["line"] for e in o.get("errors", []) if e["type"].startswith("Unexpected")]}


def proj_ids(o):
    ids = []
    if "ok" in o:
        walk(o["ok"], lambda x, p: ids.append(x["id"]) if isinstance(x, dict) and "id" in x else None)
    return {"class": outcome_class(o), "ids": ids, "counter": o.get("ids")}


def proj_outcome(o):
    r = {"class": outcome_class(o), "calls": o.get("calls")}
    if "errors" in o:
        r["n"] = len(o["errors"])
        r["types"] = [e["type"] for e in o["errors"]]
        r["composite"] = o["composite"]
    if "crash" in o:
        r["crash"] = o["crash"]
    return r


def pk(f):
    """projection over the pickle list of a compile outcome"""
    def g(o):
        if "pickles" in o:
            r = {"pickles": [f(p) for p in o["pickles"]]}
            if o.get("second_compile_differs"):
                r["second_compile_of_the_same_document_differs"] = True
            return r
        return {k: v for k, v in o.items() if k in ("crash", "errors")}
    return g


proj_pickle_origin = pk(lambda p: [p["astNodeIds"], p["uri"], p["language"], p["name"]])
proj_pickle_steps = pk(lambda p: [[s["astNodeIds"], s.get("argument")] for s in p["steps"]])
proj_pickle_tags = pk(lambda p: p["tags"])
proj_pickle_text = pk(lambda p: [p["name"], [[s["text"], s.get("argument")] for s in p["steps"]]])
proj_pickle_types = pk(lambda p: [s.get("type", "<absent>") for s in p["steps"]])
proj_pickle_ids = pk(lambda p: [[s["id"] for s in p["steps"]], p["id"], p["astNodeIds"],
                                [s["astNodeIds"] for s in p["steps"]], [t["astNodeId"] for t in p["tags"]]])


def pickles_all(o):
    return {k: v for k, v in o.items() if k in ("pickles", "crash", "errors", "ids", "mutated_input", "second_compile_differs")}


# ------------------------------------------------------------------ single-case re-evaluation (shrinking / replay)

def _reeval_parse(prop, failure, source):
    inp = failure["input"]
    proj = PARSE_PROJ.get(prop, proj_all)
    m = driver.call("parse", inp.get("stop", False), inp.get("default_dialect", "en"), 0, source)
    i = impl.parse(source, inp.get("stop", False), inp.get("default_dialect", "en"))
    pi, pm = proj(i), proj(m)
    if pi != pm:
        return {**failure, "input": {**inp, "source": source}, "impl": pi, "expected": pm, "what": first_diff(pi, pm)}
    return None


def _reeval_pickles(prop, failure, source):
    proj = PICKLE_PROJ.get(prop, pickles_all)
    m = driver.call("pickles", "en", "uri", source)
    i = impl.pickles(source, "uri")
    if "pickles" not in i and "pickles" not in m:
        return None
    pi, pm = proj(i), proj(m)
    if pi != pm:
        return {**failure, "input": {"source": source}, "impl": pi, "expected": pm, "what": first_diff(pi, pm)}
    return None


REEVAL = {"parse": _reeval_parse, "pickles": _reeval_pickles}
PARSE_PROJ = {}
PICKLE_PROJ = {}


# ------------------------------------------------------------------ property runs

def unicode_soup(rng, n):
    pool = ["\ud800", "\udfff", "\x00", "\x85", " ", " ", "\r", "\n", "\x0b", "\x0c", "\x1c", "\x1d", "\x1e",
            "\x1f", " ", "\t", "|", "\\", "@", "#", ":", "<", ">", '"', "`", "*", "é", "😀", "a", "Feature", "Given ",
            "Scenario", "Examples", "Rule", "Background", "language", " ", "　", "﻿", "-", "_"]
    return ["".join(rng.choice(pool) for _ in range(rng.randrange(0, 40))) for _ in range(n)]


def table_bound():
    """K of C01_match_calls_linear computed from the current parser.py: at most one pass over a
    state's tests per line plus, per guarded branch visit, one look-ahead visit of each line"""
    from translate import parser_table
    try:
        t = core.current_parser_table()
    except Exception:
        return 20      # the constant proved for the baseline table (C01_work_per_token); the translator failure is reported separately
    max_tests = max(len(r["branches"]) for r in t["rows"])
    la = max((len(l["expected"]) + len(l["skip"]) for l in t["lookaheads"]), default=0)
    return max_tests + len(t["lookaheads"]) * la


HANG_PROBE = r"""
import sys, json
sys.path.insert(0, %r)
from harness import impl
docs = json.load(sys.stdin)
for i, d in enumerate(docs):
    print("start", i, flush=True)
    for stop in (False, True):
        impl.parse(d, stop)
    impl.pickles(d)
print("done", flush=True)
"""


def hang_probe(docs, per_doc_timeout=8.0):
    """run potentially pathological inputs in a child process; a document that does not finish
    within the timeout is reported (a C-level regular-expression loop cannot be interrupted in-process)"""
    import subprocess, time, threading, queue
    hung = []
    todo = list(docs)
    while todo and len(hung) < 3:
        p = subprocess.Popen(["/venv/bin/python", "-c", HANG_PROBE % core.VERIF], stdin=subprocess.PIPE,
                             stdout=subprocess.PIPE, stderr=subprocess.DEVNULL, text=True,
                             env={**os.environ, "PYTHONPATH": core.VERIF + ":" + os.path.join(core.REPO, "python")})
        p.stdin.write(json.dumps(todo))
        p.stdin.close()
        q = queue.Queue()
        threading.Thread(target=lambda: [q.put(l) for l in p.stdout] + [q.put(None)], daemon=True).start()
        cur = -1
        done = False
        while True:
            try:
                line = q.get(timeout=per_doc_timeout)
            except queue.Empty:
                p.kill()
                hung.append(todo[cur] if cur >= 0 else todo[0])
                todo = todo[max(cur, 0) + 1:]
                break
            if line is None or line.startswith("done"):
                done = True
                break
            if line.startswith("start"):
                cur = int(line.split()[1])
        if done:
            p.wait()
            break
    return hung


def hang_suspects():
    """inputs built to make each regular expression of the code backtrack"""
    suspects = []
    for n in (30, 60):
        suspects += ["# language: " + "a" * n + "1\nFeature: f\n", "#language:" + "a-" * n + "!\n", "# language: " + "a_" * n + " x\n",
                     "|" + "\\" * n + "\n", "| " + " " * n + "x" + " " * n + "\n", "@" + "a" * n + " #" + " " * n + "\n",
                     "@a" + " @b" * n + " c\n", "Feature: f\n  Scenario: s\n    Given a\n      |" + " a |" * n + "\n",
                     " " * n + "#" + " " * n + "language" + " " * n + ":" + " " * n + "en" + " " * n + "x\n",
                     "Feature:" + " " * (n * 4) + "\n", "Feature: f\n  Scenario Outline: <" + "a" * n + "\n    Given <" + "(" * n + ">\n    Examples:\n      | " + "(" * n + " |\n      | " + "\\\\" * n + " |\n"]
    return suspects


ENV_MATRIX = [
    ("baseline", [], {}),
    ("python -O", ["-O"], {}),
    ("python -OO", ["-OO"], {}),
    ("LC_ALL=C without UTF-8 mode", [], {"LC_ALL": "C", "LANG": "C", "PYTHONUTF8": "0", "PYTHONCOERCECLOCALE": "0"}),
    ("LC_ALL=POSIX -X utf8=0", ["-X", "utf8=0"], {"LC_ALL": "POSIX", "LANG": "POSIX", "PYTHONCOERCECLOCALE": "0"}),
    ("PYTHONHASHSEED=1", [], {"PYTHONHASHSEED": "1"}),
    ("PYTHONHASHSEED=4242", [], {"PYTHONHASHSEED": "4242"}),
    ("other working directory, -B -S off", ["-B"], {"__cwd__": "/"}),
]


def env_matrix(res: Result, docs):
    """the observable result of the whole pipeline (parse, compile, stream from a file) must be the same under
    every interpreter mode / process environment: each configuration runs harness/envprobe.py in a child
    process on the same documents; the digests are compared with the baseline child, document by document"""
    import subprocess
    import tempfile
    docs = [d for d in docs if not impl.is_existing_path(d)]
    enc = []
    for d in docs:
        try:
            d.encode("utf-8")
            enc.append(d)
        except UnicodeEncodeError:
            pass
    docs = enc
    with tempfile.TemporaryDirectory(prefix="gvenv") as tmp:
        jf = os.path.join(tmp, "docs.json")
        with open(jf, "w", encoding="utf-8") as fh:
            json.dump(docs, fh)
        outs = {}
        for name, flags, env_extra in ENV_MATRIX:
            env = {**os.environ, "PYTHONPATH": os.path.join(core.REPO, "python")}
            env.update({k: v for k, v in env_extra.items() if not k.startswith("__")})
            scratch = os.path.join(tmp, "s" + str(len(outs)))
            os.makedirs(scratch)
            try:
                pr = subprocess.run(["/venv/bin/python", *flags, os.path.join(core.VERIF, "harness", "envprobe.py"), jf, scratch],
                                    capture_output=True, text=True, env=env, timeout=600, cwd=env_extra.get("__cwd__", core.VERIF))
                lines = pr.stdout.splitlines() if pr.returncode == 0 else None
                err = pr.stderr[-300:]
            except subprocess.TimeoutExpired:
                lines, err = None, "timeout"
            outs[name] = (lines, err)
        base, berr = outs["baseline"]
        for name, (lines, err) in outs.items():
            res.note({"environment": name, "documents": len(docs)}, True)
            if lines is None or base is None or len(lines) != len(docs):
                res.fail("environment", {"environment": name, "source": docs[0] if docs else ""}, err or berr, "the probe runs",
                         f"the pipeline cannot be run at all under: {name}")
                continue
            for d, a, b in zip(docs, lines, base):
                if a.split(" ")[0] != b.split(" ")[0]:
                    res.fail("environment", {"environment": name, "source": d}, a, b,
                             f"parse / compile / stream-from-file of this document gives a different result under: {name}")
                    break


def huge_oracle(res: Result, ctx: Ctx, which):
    """documents beyond any plausible internal size cap (a line of more than a million characters, a
    look-ahead run of more than 130 000 lines).  They are too large for the model's list-based driver, so
    they are checked on the implementation alone against what they are constructed to contain: every line
    handed to the builder once and in order, every element at its constructed position with its text."""
    if "line" in which:
        n = ctx.n(1_200_000, 9_000_000)
        long_ = "x" * n
        src = f"Feature: f\n  Scenario: s\n    Given {long_}\n      | {long_} | b |\n    Then after\n"
        o = impl.parse(src, False)
        case = {"source_description": f"step text and table cell of {n} characters", "source": src[:80] + "…"}
        res.note(case, True)
        bad = None
        if "ok" not in o:
            bad = "rejected or crashed: " + str(o.get("errors") or o.get("crash"))[:200]
        else:
            steps = o["ok"]["feature"]["children"][0]["scenario"]["steps"]
            if o.get("buildLines") != [1, 2, 3, 4, 5, 6]:
                bad = f"lines handed to the builder: {o.get('buildLines')[:12]} (expected 1..5 then end of file at 6)"
            elif len(steps) != 2 or steps[0]["text"] != long_ or steps[1]["location"] != {"line": 5, "column": 5}:
                bad = f"steps: {[(s_['location'], len(s_['text'])) for s_ in steps][:5]} (expected text of {n} characters at 3:5 and 'after' at 5:5)"
            else:
                cells = steps[0]["dataTable"]["rows"][0]["cells"]
                if [len(c["value"]) for c in cells] != [n, 1] or cells[1]["location"] != {"line": 4, "column": n + 12}:
                    bad = f"cells: {[(c['location'], len(c['value'])) for c in cells][:4]}"
        if bad:
            res.fail("huge", case, bad, "every line read whole, once; elements at their constructed positions", bad)
    if "run" in which:
        n = ctx.n(140_000, 600_000)
        run = "".join(["  @t\n", "  # c\n", "\n"][i % 3] for i in range(n))
        src = "Feature: f\n  Scenario Outline: o\n    Given <a>\n  @first\n" + run + "    Examples:\n      | a |\n      | 1 |\n"
        o = impl.parse(src, False)
        case = {"source_description": f"look-ahead run of {n} tag / comment / blank lines before Examples", "source": src[:80] + "…"}
        res.note(case, True)
        nl = src.count("\n")
        bad = None
        if "ok" not in o:
            bad = "rejected or crashed: " + str(o.get("errors") or o.get("crash"))[:200]
        elif o.get("buildLines") != list(range(1, nl + 2)):
            bl = o.get("buildLines") or []
            k = next((i for i, (a, b) in enumerate(zip(bl, range(1, nl + 2))) if a != b), min(len(bl), nl + 1))
            bad = f"{len(bl)} lines handed to the builder, expected {nl + 1}; first deviation at position {k}: {bl[k:k + 3]}"
        else:
            ex = o["ok"]["feature"]["children"][0]["scenario"]["examples"][0]
            want_tags = 1 + sum(1 for i in range(n) if i % 3 == 0)
            want_comments = sum(1 for i in range(n) if i % 3 == 1)
            if len(ex["tags"]) != want_tags or len(o["ok"]["comments"]) != want_comments or ex["location"]["line"] != 5 + n:
                bad = f"examples at line {ex['location']['line']} with {len(ex['tags'])} tags, {len(o['ok']['comments'])} comments; expected line {5 + n}, {want_tags} tags, {want_comments} comments"
        if bad:
            res.fail("huge", case, bad, "every line handed to the builder once, in order", bad)


def run_C01(ctx: Ctx) -> Result:
    rng = ctx.rng
    docs = streams.corpus_docs() + streams.doc_mix(rng, ctx.n(1200, 12000)) + unicode_soup(rng, ctx.n(600, 6000))
    alpha = ["\n", " ", "@", "#", "|", "\\", ":", '"', "a", "F"]
    docs += list(gens.strings_over(alpha, ctx.n(3, 4)))
    docs += ["Feature: f\n" + "  Scenario: s\n    Given a\n" * ctx.n(300, 5000), "@t\n" * ctx.n(400, 4000) + "Feature: f\n",
             "x\n" * 40, "Feature:f\n@a\n#c\n\n" * 30]
    K = table_bound()
    # nothing hangs: every document is first parsed in a child process under a watchdog (a C-level
    # regular-expression loop cannot be interrupted in-process); documents that hang are violations
    # and are kept away from the in-process streams
    suspects = hang_suspects()
    hung_docs = hang_probe(suspects + docs)
    if hung_docs:
        # the tree hangs on some inputs: report them and do NOT run the in-process streams (they could hang too)
        res = Result()
        res.stats["hang_probe_inputs"] = len(suspects) + len(docs)
        for src in hung_docs[:5]:
            res.note({"source": src}, True)
            res.fail("hang", {"source": src, "stop": False, "default_dialect": "en"}, "no result within 8 s", "a result",
                     "parsing this document does not terminate within 8 seconds (pathological matching work)")
        return res
    res = streams.parse_stream(docs, proj_outcome, known=ctx.known_seen, dialects=("en",))
    res.stats["hang_probe_inputs"] = len(suspects) + len(docs)
    # the pipeline is total under every interpreter mode / locale, not only the one this check runs in
    env_matrix(res, streams.corpus_docs()[: ctx.n(150, 100000)] + ["# language: fr\nFonctionnalité: é😀\n  Scénario: s\n    Soit <a>\n"])
    # direct oracle on the implementation: outcome form and linear work
    checked = 0
    for src in docs:
        if impl.is_existing_path(src):
            continue
        for stop in (False, True):
            o = impl.parse(src, stop)
            nl = src.count("\n") + (0 if src.endswith("\n") or not src else 1)
            case = {"source": src, "stop": stop, "default_dialect": "en"}
            checked += 1
            bad = None
            if "crash" in o:
                bad = "exception other than ParserError escaped parse: " + o["crash"]
            elif "errors" in o:
                n = len(o["errors"])
                if stop and n != 1:
                    bad = f"stop mode raised {n} errors"
                if not stop and not (1 <= n <= 11):
                    bad = f"collect mode raised {n} errors"
                for e in o["errors"]:
                    loc = e["location"]
                    if not (isinstance(loc.get("line"), int) and 1 <= loc["line"] <= nl + 1):
                        bad = f"error location outside the document: {loc}"
            if o["calls"] > K * (nl + 1):
                bad = f"{o['calls']} matcher calls for {nl} lines exceeds {K}·(lines+1)"
            if bad:
                res.fail("parse", case, proj_outcome(o), "allowed outcome form", bad)
    res.stats["outcome_form_checked"] = checked
    res.merge(streams.pickles_stream(streams.doc_mix(rng, ctx.n(300, 3000), noisy=0.1, mutated=0.1),
                                     lambda o: {k: v for k, v in o.items() if k == "crash"}))
    res.merge(streams.events_stream(rng, ctx.n(150, 1500),
                                    project=lambda r: [[sorted(e.keys()) for e in src] for src in r]))
    crash_only = lambda o: {k: v for k, v in o.items() if k == "crash"}   # noqa: E731
    res.merge(streams.genast_stream(rng, ctx.n(800, 8000), crash_only))
    res.merge(streams.pickles_stream([gens.permuted_examples(rng) for _ in range(ctx.n(300, 3000))], crash_only))
    # compile the corpus and the size-threshold documents too (long runs of steps, wide tables, many examples)
    res.merge(streams.pickles_stream([d for d in streams.corpus_docs() if not impl.is_existing_path(d)], crash_only))
    return res


def state_prefixes():
    """a shortest line-kind path to every state of the current parser.py (guards taken optimistically)"""
    from translate import parser_table
    t = core.current_parser_table()
    rows = {r["id"]: r for r in t["rows"]}
    K = impl.KINDS
    pre = {0: []}
    frontier = [0]
    while frontier:
        nxt = []
        for s in frontier:
            for k in range(1, 14):
                ch = impl._chain(K[k])
                seen_kind = None
                for b in rows.get(s, {"branches": []})["branches"]:
                    if b["kind"] in ch and (seen_kind is None or b["kind"] == seen_kind):
                        seen_kind = b["kind"]
                        if b["target"] not in pre and b["target"] in rows:
                            pre[b["target"]] = pre[s] + [k]
                            nxt.append(b["target"])
        frontier = nxt
    return pre


def run_C02(ctx: Ctx) -> Result:
    res = Result()
    K = impl.KINDS
    L = ctx.n(4, 5)
    seqs = [list(t) for n in range(L + 1) for t in itertools.product(range(1, 14), repeat=n)]
    # state-directed: a path to every state, then every kind, then every short suffix
    try:
        pre = state_prefixes()
    except Exception:
        pre = {}
    SL = ctx.n(1, 2)
    suffixes = [list(t) for n in range(SL + 1) for t in itertools.product(range(1, 14), repeat=n)]
    closers = [[], [7, 9], [8], [5, 7], [10]]
    for s_, p_ in sorted(pre.items()):
        for k in range(1, 14):
            for suf in suffixes:
                seqs.append(p_ + [k] + suf)
            for c in closers:
                seqs.append(p_ + [k] + c)
    res.stats["states_with_prefix"] = len(pre)
    # longer sequences: sampled
    for _ in range(ctx.n(3000, 30000)):
        seqs.append([ctx.rng.choice([1, 2, 3, 3, 4, 5, 6, 7, 7, 8, 9, 9, 10, 11, 12, 13]) for _ in range(ctx.rng.randrange(L + 1, 14))])
    covered = set()
    outs = driver.batch([driver.request("kinds", s) for s in seqs])
    for s, m in zip(seqs, outs):
        i = impl.kinds_run([K[x] for x in s])
        case = {"kinds": [K[x] for x in s]}
        res.note(case, i.get("accepts", False))
        res.stats["accepted" if i.get("accepts") else "rejected"] += 1
        covered.update((a, b) for a, b in m.get("trace", []))
        if "crash" in i:
            res.fail("kinds", case, i, m, "crash driving the real parser: " + i["crash"])
        elif i["accepts"] != m["sentence"]:
            res.fail("kinds", case, {"accepts": i["accepts"]}, {"sentence": m["sentence"]},
                     "real parser accepts this line-kind sequence: %s; grammar (gherkin.berp) says sentence: %s"
                     % (i["accepts"], m["sentence"]))
        elif i["accepts"] and i["events"] != m["events"]:
            res.fail("kinds", case, i["events"], m["events"], "start/end/build events differ: " + str(first_diff(i["events"], m["events"])))
    res.stats["exhaustive_upto"] = L
    res.stats["table_branches_and_error_tails_covered"] = len(covered)
    # text level: acceptance of real documents = model's
    docs = streams.corpus_docs() + streams.doc_mix(ctx.rng, ctx.n(600, 6000))
    res.merge(streams.parse_stream(docs, lambda o: {"class": outcome_class(o)}, modes=(False,)))
    # translator validation: the table read from the source text (translate/parser_table.py) must be the table
    # observed by driving the real `match_token` exhaustively (translate/parser_behaviour.py)
    try:
        tb = core.behavioural_parser_table()
        ts = core.current_parser_table()
        strip = lambda t: [{k: v for k, v in r.items() if k != "comment"} for r in t["rows"]]   # noqa: E731
        res.note({"translator_cross_check": ts.get("via", "syntactic")}, True)
        if (strip(tb), tb["lookaheads"], tb["startRule"], tb["errorCap"]) != (strip(ts), ts["lookaheads"], ts["startRule"], ts["errorCap"]):
            d_ = next((a["id"] for a, b in zip(strip(tb), strip(ts)) if a != b), "?")
            res.fail("translator", {"state": d_}, next((a for a, b in zip(strip(tb), strip(ts)) if a != b), None),
                     next((b for a, b in zip(strip(tb), strip(ts)) if a != b), None),
                     "the transition table read from parser.py's text differs from the one observed by driving match_token (state %s)" % d_)
    except Exception as e:
        res.stats["translator_cross_check_error"] = 1
        res.note({"translator_cross_check_error": str(e)[:200]}, False)
    # siblings: the witness of a broken C02_sibling_* theorem is the differing (state, branch)
    for b in ctx.broken:
        if b["kind"] == "proof" and "C02Siblings" in b["name"]:
            res.fail("siblings", {"tables": "python/gherkin/parser.py vs sibling parsers"}, "differs", "equal",
                     "sibling transition tables differ: " + json.dumps(sibling_diff())[:500])
    return res


def sibling_diff():
    from translate import parser_table, siblings
    py = core.current_parser_table()
    out = []

    def norm_row(r):
        return ([(b["kind"], b["guard"], [(p[0],) if p[0] != "start" else tuple(p) for p in b["prods"]], b["target"])
                 for b in r["branches"]], r["expected"], r["errTarget"])
    for lang, t in siblings.load(core.REPO).items():
        a = {r["id"]: norm_row(r) for r in py["rows"]}
        b = {r["id"]: norm_row(r) for r in t["rows"]}
        for sid in sorted(set(a) | set(b)):
            if a.get(sid) != b.get(sid):
                out.append({"sibling": lang, "state": sid})
                break
    return out


def respelled_docs():
    """documents in which a keyword is written in another Unicode normal form (or followed by a combining mark): such a
    line is free text / unexpected, never the keyword — "nothing that is not in the source appears in the AST" """
    import unicodedata as ud
    D = impl.dialects()
    out = []
    for name, spec in D.items():
        f_kw, s_kw, g_kw = spec["feature"][0], spec["scenario"][0], [k for k in spec["given"] if k.strip() != "*"][0]
        for role in ("scenario", "feature", "given", "background", "examples", "rule"):
            for kw in spec[role]:
                for form in ("NFD", "NFC"):
                    alt = ud.normalize(form, kw)
                    if alt == kw:
                        continue
                    if role == "given":
                        out.append(f"# language: {name}\n{f_kw}: f\n  desc\n  {s_kw}: s\n    {g_kw}x\n    {alt}y\n")
                    elif role == "feature":
                        out.append(f"# language: {name}\n{alt}: f\n  {s_kw}: s\n    {g_kw}x\n")
                    else:
                        out.append(f"# language: {name}\n{f_kw}: f\n  free text\n  {alt}: respelled\n  {s_kw}: s\n    {g_kw}x\n")
                    break
        out.append(f"# language: {name}\n{f_kw}: f\n  text\n  {s_kw}\u0301: marked\n  {s_kw}: s\n    {g_kw}x\n")
    return out


def roundtrip_tie(ctx: Ctx, res: Result, n: int):
    """Theorem-driven tie for `C03_roundtrip` (Props/C03Roundtrip.lean): random document MODELS (feature, tags, scenarios,
    steps; any dialect; names and texts from a pool with Gherkin-looking and exotic content) are rendered BY THE LEAN
    RENDERER; wherever the model is well formed (`Spec.WF`, evaluated by the driver) the theorem says the parse of the
    rendered text returns `Spec.expectedDoc` — the implementation must return exactly that document (ids, locations,
    keyword types included), in both error modes."""
    rng = ctx.rng
    D = impl.dialects()
    names = sorted(D)
    texts = ["", "a", "the user logs in", "x  y", "Given a", "Feature: x", "@tag", "# no comment", "| cell |", '"""', "```", "<a> b", "é😀", "a\u00a0b", "a\tb",
             "x:", ": x", "*", "* x", "And", "Examples:", "a\\nb", "{0} %s ${x}", "ends with colon:", "\u3000x", "x\u2028y", "\x0bv", "trailing ", " leading", "a\nb"]
    tagpool = ["@a", "@wip", "@b#c", "@é", "@a-b_c.1", "@x:y", "@|", "@a b", "@a@b", "@", "@😀", "@\u00a0"]
    reqs, models = [], []
    for _ in range(n):
        dn = rng.choice(names) if rng.random() < 0.7 else "en"
        d = D[dn]
        steps_kw = d["given"] + d["when"] + d["then"] + d["and"] + d["but"]

        clean = [t for t in texts if t == t.strip() and "\n" not in t]

        def txt():
            r_ = rng.random()
            return rng.choice(clean) if r_ < 0.9 else rng.choice(texts) if r_ < 0.95 else rng.choice(clean) + " " + rng.choice(steps_kw + d["scenario"]).strip()

        def tags():
            return [rng.choice(tagpool[:7] if rng.random() < 0.93 else tagpool) for _ in range(rng.choice([0, 0, 1, 2, 3]))]
        ft, fk, fn = tags(), rng.choice(d["feature"] if rng.random() < 0.97 else d["scenario"]), txt()
        def table():
            if rng.random() < 0.65:
                return []
            w_ = rng.choice([1, 1, 2, 3, 4])
            cells_ = ["", "a", "1 2", "é😀", "x:y", "@t", "#c", "Given", "<v>", "a\u00a0b", "\u3000", "a|b", "a\\nb", " lead", "trail ", "a\nb", '"""']
            rows_ = [[rng.choice(cells_[:10] if rng.random() < 0.93 else cells_) for _ in range(w_)] for _ in range(rng.choice([1, 2, 3, 5]))]
            if rng.random() < 0.04:
                rows_[-1] = rows_[-1][:-1]          # ragged / zero cells: not well formed
            return rows_
        def gen_scs(counts):
            out_ = []
            for _ in range(rng.choice(counts)):
                out_.append(gen_sc())
            return out_

        def gen_sc():
            st = [(rng.choice(steps_kw) if rng.random() < 0.97 else rng.choice(steps_kw).strip(), txt(), table()) for _ in range(rng.choice([0, 1, 2, 3, 4]))]
            exs = []
            if rng.random() < 0.35:
                for _ in range(rng.choice([1, 1, 2, 3])):
                    tb_ = table() if rng.random() < 0.3 else [[rng.choice(["a", "b c", "", "<x>", "é"]) for _ in range(w2_)] for w2_ in [rng.choice([1, 2, 3])] for _ in range(rng.choice([1, 2, 4]))]
                    exs.append((tags(), rng.choice(d["examples"] if rng.random() < 0.97 else d["scenario"]), txt(), tb_))
            return (tags(), rng.choice(d["scenario"] + d["scenarioOutline"]), txt(), st, exs)
        scs = gen_scs([0, 1, 1, 2, 3, 5])
        def enc_steps(st):
            enc_st = ""
            for k, x, tb in st:
                enc_st += k + "\0" + x + "\0" + str(len(tb)) + "\0"
                for row_ in tb:
                    enc_st += str(len(row_)) + "\0" + "".join(c_ + "\0" for c_ in row_)
            return enc_st
        def gen_bg(p_):
            if rng.random() >= p_:
                return ""
            bst = [(rng.choice(steps_kw), txt(), table()) for _ in range(rng.choice([0, 1, 2, 3]))]
            bkw = rng.choice(d["background"] if rng.random() < 0.97 else d["scenario"])
            bnm = txt()
            if "\0" in bkw + bnm or any("\0" in k + x for k, x, _ in bst):
                return ""
            res.stats["roundtrip_backgrounds"] += 1
            return bkw + "\0" + bnm + "\0" + enc_steps(bst)
        bg_ = gen_bg(0.4)
        rules = []
        if rng.random() < 0.35 and d.get("rule"):
            for _ in range(rng.choice([1, 1, 2, 3])):
                rules.append((tags(), rng.choice(d["rule"] if rng.random() < 0.97 else d["feature"]), txt(), gen_bg(0.3), gen_scs([0, 1, 1, 2, 3])))
            res.stats["roundtrip_rules"] += len(rules)
        args = [dn, "".join(t + "\0" for t in ft), fk, fn, bg_, str(len(scs))]
        # emit: feature scenarios, then per rule its header arguments followed by its scenario groups
        seq_ = [("sc", x) for x in scs]
        for rt_, rk_, rn_, rbg_, rscs_ in rules:
            seq_.append(("rule", ["".join(t + "\0" for t in rt_), rk_, rn_, rbg_, str(len(rscs_))]))
            seq_ += [("sc", x) for x in rscs_]
        all_scs = [x for k__, x in seq_ if k__ == "sc"]
        for kind__, item__ in seq_:
            if kind__ == "rule":
                args += item__
                continue
            t_, k_, n_, st, exs = item__
            enc_ex = ""
            for et_, ek_, en_, etb_ in exs:
                enc_ex += str(len(et_)) + "\0" + "".join(t + "\0" for t in et_) + ek_ + "\0" + en_ + "\0" + str(len(etb_)) + "\0"
                for row_ in etb_:
                    enc_ex += str(len(row_)) + "\0" + "".join(c_ + "\0" for c_ in row_)
            if any("\0" in ek_ + en_ for _, ek_, en_, _ in exs):
                enc_ex = ""
            res.stats["roundtrip_examples_blocks"] += len(exs) if enc_ex else 0
            args += ["".join(t + "\0" for t in t_), k_, n_, enc_steps(st), enc_ex]
        if any("\0" in x for x in [fk, fn] + [y for t_, k_, n_, st, _e in all_scs for y in [k_, n_] + [z for p in st for z in p[:2]]] + [y for r_ in rules for y in r_[1:3]]):
            continue
        res.stats["roundtrip_steps_with_table"] += sum(1 for t_, k_, n_, st, _e in all_scs for p in st if p[2])
        reqs.append(driver.request("render5", *args))
        models.append((dn, ft, fk, fn, scs, rules))
    outs = driver.batch(reqs) if reqs else []
    n_wf = 0
    for mdl, m_ in zip(models, outs):
        if "crash" in m_ or not m_.get("wf"):
            res.stats["roundtrip_models_not_wf"] += 1
            continue
        n_wf += 1
        text = m_["text"]
        if impl.is_existing_path(text):
            continue
        for stop_ in (False, True):
            i_ = impl.parse(text, stop_, mdl[0])
            got = i_.get("ok", {k_: v_ for k_, v_ in i_.items() if k_ in ("errors", "crash")})
            res.note({"model": mdl, "rendered": text, "stop": stop_}, True)
            if got != m_["expected"] or i_.get("ids") != m_["idsAfter"]:
                res.fail("roundtrip", {"source": text, "stop": stop_, "default_dialect": mdl[0], "model": mdl}, got, m_["expected"],
                         "C03_roundtrip: the model is well formed, so the parse of its rendering must return exactly the expected document "
                         "(every element once, in order, exact keyword / name / text / location / id): " + str(first_diff(got, m_["expected"])))
    res.stats["roundtrip_models_wf"] = n_wf


def run_C03(ctx: Ctx) -> Result:
    docs = streams.corpus_docs() + streams.doc_mix(ctx.rng, ctx.n(2500, 25000), noisy=0.05, mutated=0.1)
    rd = respelled_docs()
    docs += rd if ctx.thorough else rd[:: 2]
    res = streams.parse_stream(docs, proj_ast_text, modes=(False,), nontrivial=lambda i: "ok" in i)
    roundtrip_tie(ctx, res, ctx.n(600, 6000))
    return res


def slice_check(src, o):
    """C04's own formulation: reading the source at each reported position gives back the element"""
    lines = src.split("\n")
    bad = []

    def at(loc):
        l, c = loc["line"], loc.get("column")
        if c is None or not (1 <= l <= len(lines)):
            return None
        return lines[l - 1][c - 1:]

    def f(x, p):
        if not isinstance(x, dict) or "location" not in x:
            return
        s = at(x["location"])
        if s is None:
            bad.append((p, x["location"], "location outside the document", False))
            return
        if "keyword" in x and not s.startswith(x["keyword"]):
            bad.append((p, x["location"], f"source there does not start with keyword {x['keyword']!r}: {s[:20]!r}", False))
        elif "name" in x and p and "tags" in p and not s.startswith(x["name"]):
            blank = s.startswith("@") and len(s) > 1 and s[1:2].isspace()
            bad.append((p, x["location"], f"source there does not start with tag {x['name']!r}: {s[:20]!r}", blank))
        elif "cells" in x and not s.startswith("|"):
            bad.append((p, x["location"], f"row location is not at a '|': {s[:20]!r}", False))
        elif "delimiter" in x and not s.startswith(x["delimiter"]):
            bad.append((p, x["location"], "doc string location is not at its delimiter", False))
        elif "text" in x and p and p[0] == "comments" and x["location"].get("column") != 1:
            bad.append((p, x["location"], "comment not at column 1", False))
    if "ok" in o:
        walk(o["ok"], f)
    return bad


def run_C04(ctx: Ctx) -> Result:
    docs = streams.corpus_docs() + streams.doc_mix(ctx.rng, ctx.n(2000, 20000), noisy=0.25, mutated=0.25)
    docs += ["@ a\nFeature: f\n", "Feature: f\n  @x @ y\n  Scenario: s\n"]
    res = streams.parse_stream(docs, proj_locations, modes=(False,))
    for src in docs:
        if impl.is_existing_path(src):
            continue
        o = impl.parse(src, False)
        for p, loc, what, blank in slice_check(src, o):
            f = {"stream": "parse", "input": {"source": src, "stop": False, "default_dialect": "en"},
                 "impl": loc, "expected": "source slice starts with the element", "what": what, "tag_blank": blank,
                 "slice": True}
            res.failures.append(f)
            if blank:
                ctx.known_seen.add("F5")
    # line level: cells and tags columns
    alpha = ["|", "\\", "n", " ", "a", "\t"]
    rows = ["|" + s for s in gens.strings_over(alpha, ctx.n(5, 6))]
    res.merge(streams.line_stream("cells", rows, impl.cells, "cells", project=lambda r: [c["column"] for c in r] if isinstance(r, list) else r))
    alpha = ["@", "#", " ", "a", "\t"]
    rows = ["@" + s for s in gens.strings_over(alpha, ctx.n(5, 7))] + ["  @" + s for s in gens.strings_over(alpha, 4)]
    rows += ["@" + s for s in gens.strings_over(["@", "a", "\u00a0", "\u3000", "\x85", "\u2028", "#"], 4)]
    res.merge(streams.line_stream("tags", rows, impl.tags, "tags"))
    huge_oracle(res, ctx, ("line",))
    # Markdown tag lines: every tag is located at its own '@' (columns of the Markdown matcher)
    md_compare(res, [("TagLine", "en", l + "\n") for l in MD_TAG_LINES + ["".join(t) for t in gens.strings_over(["`", "@", "a", " "], ctx.n(7, 8))]])
    return res


def run_C05(ctx: Ctx) -> Result:
    res = Result()
    D = impl.dialects()
    # translator validation: the Lean table printed back == what the code loaded
    back = driver.call("dialects")
    roles = ["and", "background", "but", "examples", "feature", "given", "rule", "scenario", "scenarioOutline", "then", "when"]
    want = [{"name": n, **{r: D[n][r] for r in roles}} for n in D]
    res.note({"dialects": len(D)}, True)
    if back != want:
        res.fail("dialects", {"table": "python/gherkin/gherkin-languages.json"}, "…", "…",
                 "dialect table translation differs from gherkin.dialect.DIALECTS: " + str(first_diff(want, back)))
    a = open(os.path.join(core.REPO, "gherkin-languages.json"), "rb").read()
    b = open(os.path.join(core.REPO, "python/gherkin/gherkin-languages.json"), "rb").read()
    if json.loads(a) != json.loads(b):
        res.fail("dialects", {"files": ["gherkin-languages.json", "python/gherkin/gherkin-languages.json"]},
                 "differ", "identical", "shipped language table differs from the master table: "
                 + str(first_diff(json.loads(b), json.loads(a))))
    # the shipped table must load identically whatever the process locale
    import subprocess
    probe = ("import sys, json, hashlib; sys.path.insert(0, %r); import gherkin.dialect as d; "
             "print(hashlib.sha1(json.dumps(d.DIALECTS, sort_keys=True).encode()).hexdigest())" % os.path.join(core.REPO, "python"))
    want_hash = __import__("hashlib").sha1(json.dumps(json.loads(b), sort_keys=True).encode()).hexdigest()
    for env_extra in ({"LC_ALL": "C", "LANG": "C", "PYTHONUTF8": "0", "PYTHONCOERCECLOCALE": "0"}, {"LC_ALL": "C.UTF-8"}):
        pr = subprocess.run(["/venv/bin/python", "-c", probe], capture_output=True, text=True, env={**os.environ, **env_extra}, timeout=120)
        res.note({"locale_env": env_extra}, True)
        if pr.returncode != 0 or pr.stdout.strip() != want_hash:
            res.fail("dialects", {"environment": env_extra}, (pr.stdout + pr.stderr)[-300:], want_hash,
                     "the language table loaded by the package depends on the process locale (or fails to load)")
    # every printable ASCII character (and some others) around / inside the name of a language header
    hdr_docs = []
    for c in [chr(x) for x in range(0x20, 0x7f)] + ["\t", "é", "ſ", "K", "\u00a0", "\u3000", "٣", "𝐚"]:
        for h in (f"# language: en{c}", f"# language: {c}en", f"# language: e{c}n", f"#language:{c}", f"# language: [fr{c}", f"# language: fr{c}fr"):
            hdr_docs.append(h + "\nFeature: f\n")
    res.merge(streams.parse_stream(hdr_docs, proj_keywords, modes=(False,)))
    # complete enumeration: dialect × keyword × role × layout through the real matcher vs the model
    title_roles = [("feature", "FeatureLine"), ("rule", "RuleLine"), ("background", "BackgroundLine"),
                   ("scenario", "ScenarioLine"), ("scenarioOutline", "ScenarioLine"), ("examples", "ExamplesLine")]
    step_roles = ["given", "when", "then", "and", "but"]
    cases = []
    layouts = [("", " title"), ("  ", "title  "), ("\t", ""), ("", " x\r")] if not ctx.thorough else \
        [("", " title"), ("  ", "title  "), ("\t", ""), ("", " x\r"), ("  ", "　t"), ("", ":x")]
    for name in D:
        for role, kind in title_roles:
            for kw in D[name][role]:
                for pre, post in layouts:
                    cases.append((kind, name, name, 0, None, pre + kw + ":" + post + "\n"))
                cases.append((kind, name, name, 0, None, kw + " no colon\n"))
                cases.append(("StepLine", name, name, 0, None, kw + ": as step?\n"))
        for role in step_roles:
            for kw in D[name][role]:
                for pre, post in layouts[:3]:
                    cases.append(("StepLine", name, name, 0, None, pre + kw + "text" + post + "\n"))
                cases.append(("FeatureLine", name, name, 0, None, kw + ": x\n"))
    # other Unicode spellings of a keyword are not that keyword: NFD / NFC forms that differ from the listed one, a
    # combining mark directly after the keyword, a fullwidth colon instead of ':'
    import unicodedata as _ud
    for name in D:
        for role, kind in title_roles:
            for kw in D[name][role]:
                forms = {_ud.normalize("NFD", kw), _ud.normalize("NFC", kw)} - {kw}
                for f_ in sorted(forms):
                    cases.append((kind, name, name, 0, None, f_ + ": respelled\n"))
                cases.append((kind, name, name, 0, None, kw + "\u0301: mark\n"))
                cases.append((kind, name, name, 0, None, kw + "\uff1a fullwidth colon\n"))
        for role in step_roles:
            for kw in D[name][role]:
                forms = {_ud.normalize("NFD", kw), _ud.normalize("NFC", kw)} - {kw}
                for f_ in sorted(forms):
                    cases.append(("StepLine", name, name, 0, None, f_ + "respelled\n"))
                if kw.strip():
                    cases.append(("StepLine", name, name, 0, None, kw.rstrip() + "\u3099" + kw[len(kw.rstrip()):] + "x\n"))
    # foreign keywords: keywords of another dialect under "en" and under a header-selected dialect
    names = list(D)
    for name in names:
        other = names[(names.index(name) + 7) % len(names)]
        for role, kind in title_roles:
            for kw in D[other][role][:2]:
                cases.append((kind, name, name, 0, None, kw + ": foreign\n"))
        for role in step_roles:
            for kw in D[other][role][:2]:
                cases.append(("StepLine", name, name, 0, None, kw + "foreign\n"))
    res.merge(streams.match_stream(cases, project=lambda o: {"res": o["res"], "keyword": o["token"]["keyword"],
                                                              "text": o["token"]["text"], "ktype": o["token"]["keywordType"],
                                                              "column": o["token"]["column"], "type": o["token"]["type"]}))
    # language header spellings
    hdr = []
    for name in names[:: ctx.n(4, 1)] + ["xx", "EN", "en-", "no-such", "fr2", "v1", "français", "en_US", "é", "fr é", "zh-CN", "en!", "1",
                                         "ſv", "Kn", "fı", "İt", "zh_CN", "en_au", "sr_Cyrl", "en_Scouse", "mk_Latn", "cy_GB", "EN-AU"]:
        for form in ["#language:%s", "# language: %s", "  #  language  :  %s  ", "#language : %s x", "# Language: %s",
                     "#language:%s\r", " # language:　%s"]:
            hdr.append(("Language", "en", "en", 0, None, (form % name) + "\n"))
    res.merge(streams.match_stream(hdr, project=lambda o: {"res": o["res"], "dialect": o["dialect"], "text": o["token"]["text"]}))
    # documents: default dialect and header
    docs = []
    for name in names:
        docs.append(gens.DocGen(ctx.rng, name).document())
    res.merge(streams.parse_stream(docs, proj_keywords, modes=(False,)))
    res.merge(streams.parse_stream([d for d in docs[:: ctx.n(3, 1)]], proj_keywords, modes=(False,), dialects=("fr", "ru", "em")))
    # a default dialect that shares step keywords with the dialect the header selects (e.g. no / da)
    shared = []
    for a in names:
        ka = set(sum((D[a][r] for r in step_roles), [])) - {"* "}
        for b in names:
            if a < b and ka & (set(sum((D[b][r] for r in step_roles), [])) - {"* "}):
                shared.append((a, b))
    ctx.rng.shuffle(shared)
    for a, b in shared[: ctx.n(40, 400)]:
        for dflt, hdr in ((a, b), (b, a)):
            doc = gens.DocGen(ctx.rng, hdr).document()
            res.merge(streams.parse_stream([doc], proj_keywords, modes=(False,), dialects=(dflt,)))
    # long-lived matchers of different dialects used alternately (no table may be shared between instances)
    alive = {n_: impl.TokenMatcher(n_) for n_ in ctx.rng.sample(names, ctx.n(10, 40)) + ["en", "fr"]}
    alt = []
    for _ in range(ctx.n(400, 4000)):
        n_ = ctx.rng.choice(list(alive))
        role = ctx.rng.choice(step_roles)
        kw = ctx.rng.choice(D[n_][role])
        alt.append((n_, kw + "text\n"))
    outs_ = driver.batch([driver.request("match", impl.KINDS.index("StepLine"), n_, n_, 0, "", l_) for n_, l_ in alt])
    for (n_, l_), mo in zip(alt, outs_):
        tok = impl.Token(impl.GherkinLine(l_, 1), {"line": 1})
        r_ = alive[n_].match_StepLine(tok)
        got = {"res": "matched" if r_ else "no", "keyword": getattr(tok, "matched_keyword", None),
               "ktype": getattr(tok, "matched_keyword_type", None)}
        want = {"res": mo["res"], "keyword": mo["token"]["keyword"], "ktype": mo["token"]["keywordType"]}
        res.note({"dialect": n_, "line": l_}, True)
        if got != want:
            res.fail("history", {"dialect": n_, "line": l_, "note": "long-lived matchers of several dialects used alternately"},
                     got, want, "step recognition differs when other TokenMatcher instances exist: " + str(first_diff(got, want)))
            break
    # one TokenMatcher instance through a sequence of documents with and without headers
    seq = []
    for name in ctx.rng.sample(names, ctx.n(12, 60)):
        seq.append(gens.DocGen(ctx.rng, name).document())
        seq.append("Feature: plain\n  Scenario: s\n    Given a\n    When b\n    Then c\n    And d\n    But e\n    * f\n")
    m_ = impl.TokenMatcher("en")
    outs = driver.batch([driver.request("parse", False, "en", 0, d) for d in seq])
    for pos, (d, mo) in enumerate(zip(seq, outs)):
        if impl.is_existing_path(d):
            continue
        io = impl.parse(d, False, "en", matcher=m_)
        res.note({"history_position": pos, "source": d}, True)
        a_, b_ = proj_keywords(io), proj_keywords(mo)
        if a_ != b_:
            res.fail("history", {"source": d, "earlier_documents_through_same_matcher": seq[max(0, pos - 2):pos]}, a_, b_,
                     "keywords/types differ when the TokenMatcher has been used before: " + str(first_diff(a_, b_)))
            break
    return res


def compile_docs(ctx, n_quick, n_thorough):
    docs = streams.corpus_docs() + streams.doc_mix(ctx.rng, ctx.n(n_quick, n_thorough), noisy=0.0, mutated=0.05)
    docs += [gens.permuted_examples(ctx.rng) for _ in range(ctx.n(400, 4000))]
    # a language-switching document somewhere in the sequence (state of a reused matcher)
    docs.insert(len(docs) // 3, "# language: ru\nФункция: ф\n  Сценарий: с\n    Допустим а\n    И б\n")
    docs.insert(len(docs) // 2, "# language: fr\nFonctionnalité: f\n  Scénario: s\n    Soit a\n    Et b\n")
    return docs


def make_compile_run(proj, extra=None):
    def run(ctx: Ctx) -> Result:
        res = streams.pickles_stream(compile_docs(ctx, 1200, 12000), proj)
        res.merge(streams.genast_stream(ctx.rng, ctx.n(2500, 25000), proj))
        if extra:
            res.merge(extra(ctx))
        return res
    return run


def extra_C09(ctx: Ctx) -> Result:
    alpha = ["<", ">", "a", ".", "\\", "$", "(", "1"]
    cases = []
    L = ctx.n(4, 5)
    for h in ["a", "a.b", "a(b", "", "\\", "$", "a>", "<a", "[a]", "a|b", "a*", "^a", "a+", "?"]:
        for t in gens.strings_over(alpha, L):
            if "<" in t:
                cases.append((t, [(h, "V")]))
    for v in ["\\", "\\1", "\\g<0>", "$1", "<a>", "&", "\\\\", "\\n", ""]:
        cases.append(("x <a> y <a> <b>", [("a", v), ("b", "<a>")]))
        cases.append(("<a><b>", [("b", v), ("a", "<b>")]))
    for n_ in (7, 8, 9, 10, 17, 40):
        cases.append(("<a> " * n_, [("a", "v")]))
        cases.append(("<a><b>" * n_, [("a", "x"), ("b", "<a>")]))
    return streams.interp_stream(cases)


def extra_C10(ctx: Ctx) -> Result:
    """all keyword-type sequences up to a bound over {background, own} × {plain, outline}, as real text"""
    res = Result()
    kws = {"C": "Given ", "A": "When ", "O": "Then ", "J": "And ", "U": "* "}
    docs = []
    L = ctx.n(4, 5)
    for n in range(1, L + 1):
        for seq in itertools.product("CAOJU", repeat=n):
            for nb in range(0, min(n, 3)):
                bg, own = seq[:nb], seq[nb:]
                body = "".join(f"    {kws[k]}s\n" for k in own)
                bgt = ("  Background:\n" + "".join(f"    {kws[k]}b\n" for k in bg)) if bg else ""
                docs.append(f"Feature: f\n{bgt}  Scenario: s\n{body}")
                docs.append(f"Feature: f\n{bgt}  Scenario Outline: s\n{body}    Examples:\n      | a |\n      | 1 |\n")
    res.merge(streams.pickles_stream(docs, proj_pickle_types, stream="pickles"))
    # direct oracle: never missing / null / Conjunction, plain == outline
    for i in range(0, len(docs), 2):
        a, b = impl.pickles(docs[i]), impl.pickles(docs[i + 1])
        ta = [s.get("type") for p in a.get("pickles", []) for s in p["steps"]]
        tb = [s.get("type") for p in b.get("pickles", []) for s in p["steps"]]
        if ta != tb or any(t not in ("Unknown", "Context", "Action", "Outcome") for t in ta + tb):
            res.fail("pickles", {"source": docs[i + 1]}, {"plain": ta, "outline": tb}, "equal, within the vocabulary",
                     "pickle step types of the outline differ from the plain scenario or leave the vocabulary")
    # every dialect: and/but keywords inherit, given/when/then keywords give their category, '*' is Unknown
    D = impl.dialects()
    cat = {"given": "Context", "when": "Action", "then": "Outcome"}
    for name, spec in D.items():
        steps = spec["given"] + spec["when"] + spec["then"] + spec["and"] + spec["but"]
        first = next((k for k in spec["given"] if k != "* " and not any(o != k and k.startswith(o) for o in steps)), None)
        if first is None:
            continue
        for role in ("given", "when", "then", "and", "but"):
            for kw in spec[role]:
                if any(o != kw and kw.startswith(o) for o in steps[: steps.index(kw)]):
                    continue        # shadowed by an earlier listed keyword (C05_step_first_prefix)
                src = f"# language: {name}\n{spec['feature'][0]}: f\n  {spec['scenario'][0]}: s\n    {first}a\n    {kw}b\n"
                o = impl.pickles(src)
                want = "Unknown" if kw == "* " else cat.get(role, "Context")
                got = [s_.get("type") for p in o.get("pickles", []) for s_ in p["steps"]]
                res.note({"dialect": name, "keyword": kw}, True)
                if got != ["Context", want]:
                    res.fail("pickles", {"source": src}, got, ["Context", want],
                             f"dialect {name}: step keyword {kw!r} ({role}) gives types {got}, expected {['Context', want]}")
    return res


def all_ids(doc, pickles):
    ids = []
    walk(doc, lambda x, p: ids.append(x["id"]) if isinstance(x, dict) and "id" in x and "astNodeIds" not in x else None)
    for p in pickles or []:
        ids += [s["id"] for s in p["steps"]] + [p["id"]]
    return ids


def extra_C11(ctx: Ctx) -> Result:
    res = Result()
    docs = streams.corpus_docs() + streams.doc_mix(ctx.rng, ctx.n(800, 8000), noisy=0.05, mutated=0.1)
    res.merge(streams.parse_stream(docs, proj_ids, modes=(False,)))
    # direct oracle on the implementation: distinct, dense, references resolve
    for src in docs:
        if impl.is_existing_path(src):
            continue
        o = impl.parse(src, False)
        if "ok" not in o:
            continue
        pk_ = impl.compile_ast(o["ok"], "u", o["ids"])
        ids = all_ids(o["ok"], pk_.get("pickles"))
        nums = sorted(int(x) for x in ids)
        kinds = {}

        def reg(x, p):
            if isinstance(x, dict) and "id" in x and "astNodeIds" not in x:
                kind = "tag" if p and "tags" in p[-2:] else "row" if "cells" in x else "step" if "keywordType" in x else "scenario" if "examples" in x else "other"
                kinds[x["id"]] = kind
        walk(o["ok"], reg)
        bad = None
        if len(set(ids)) != len(ids):
            bad = "duplicate ids"
        elif nums != list(range(len(nums))):
            bad = "ids are not 0..N-1 for a fresh generator"
        else:
            for p in pk_.get("pickles", []):
                want = ["scenario", "row"][: len(p["astNodeIds"])]
                if [kinds.get(i) for i in p["astNodeIds"]] != want:
                    bad = f"pickle astNodeIds {p['astNodeIds']} do not resolve to scenario(+row)"
                for s in p["steps"]:
                    if [kinds.get(i) for i in s["astNodeIds"]] != ["step", "row"][: len(s["astNodeIds"])]:
                        bad = f"pickle step astNodeIds {s['astNodeIds']} do not resolve to step(+row)"
                for t in p["tags"]:
                    if kinds.get(t["astNodeId"]) != "tag":
                        bad = f"pickle tag astNodeId {t['astNodeId']} does not resolve to a tag"
        if bad:
            res.fail("parse", {"source": src, "stop": False, "default_dialect": "en"}, ids, "distinct dense resolving ids", bad)
    # default-constructed instances each own a fresh generator: ids start at 0 every time
    doc_ = "@t\nFeature: f\n  Background:\n    Given b\n  Scenario: s\n    Given a\n      | x |\n"
    for rep in range(3):
        d_ = impl.Parser().parse(doc_)
        ps_ = impl.Compiler().compile({**d_, "uri": "u"})
        ids_ = sorted(int(x) for x in all_ids(d_, None))
        pids_ = sorted(int(x) for p_ in ps_ for x in [p_["id"]] + [s_["id"] for s_ in p_["steps"]])
        res.note({"default_constructed_round": rep}, True)
        if ids_ != list(range(len(ids_))) or pids_ != list(range(len(pids_))):
            res.fail("history", {"source": doc_, "note": f"default-constructed Parser()/Compiler(), use number {rep + 1} in this process"},
                     {"ast_ids": ids_, "pickle_ids": pids_}, "0..N-1 for each fresh instance",
                     "a default-constructed Parser()/Compiler() does not start from a fresh id generator")
            break
    # streams of several sources share the counter
    res.merge(streams.events_stream(ctx.rng, ctx.n(150, 1500), project=lambda r: [
        [(e.get("pickle") or {}).get("id") for e in src] +
        [proj_ids({"ok": e["gherkinDocument"]})["ids"] for e in src if "gherkinDocument" in e] for src in r]))
    return res


def spec_cell_count(line: str) -> int:
    """number of cells of a physical line by the property text: the texts between consecutive unescaped '|'"""
    n, i = 0, 0
    while i < len(line):
        if line[i] == "\\":
            i += 2
            continue
        if line[i] == "|":
            n += 1
        i += 1
    return max(n - 1, 0)


def ragged_oracle(res: Result, docs, stream="ragged"):
    """Implementation-only oracle for C12's last sentence (the statement of Props/C12Doc): in collecting mode, the
    'inconsistent cell count' errors of a parse are EXACTLY one per table the run closed whose rows differ in cell count,
    located at the first deviating row.  Tables are read off the tokens handed to the builder (consecutive TableRow
    tokens, comment and blank lines between them allowed; any other built token ends the table — an unexpected line
    does not); cell counts are computed from the SOURCE lines by the property's definition, not by the code."""
    for src in docs:
        if impl.is_existing_path(src):
            continue
        o = impl.parse(src, False)
        if "crash" in o or len(o.get("errors", [])) > 10:
            continue
        phys = src.split("\n")
        tables, cur = [], []
        for b in o.get("builds", []):
            m_ = re.match(r"^\((\d+):(\d+)\)(\w+):", b)
            kind = m_.group(3) if m_ else "EOF"
            if kind == "TableRow":
                cur.append((int(m_.group(1)), int(m_.group(2))))
            elif kind in ("Comment", "Empty"):
                continue
            else:
                if cur:
                    tables.append(cur)
                cur = []
        if cur:
            tables.append(cur)
        want = []
        for t in tables:
            counts = [spec_cell_count(phys[l - 1]) if 0 < l <= len(phys) else -1 for l, _ in t]
            dev = next((k for k in range(1, len(t)) if counts[k] != counts[0]), None)
            if dev is not None:
                want.append({"line": t[dev][0], "column": t[dev][1]})
        got = [e["location"] for e in o.get("errors", []) if "inconsistent cell count within the table" in e["message"]]
        res.note({"source": src, "oracle": "ragged tables"}, bool(tables))
        res.stats["ragged_oracle_tables"] += len(tables)
        res.stats["ragged_oracle_ragged"] += len(want)
        # the run may have been cut short by other errors? no: below the cap every line is processed
        if sorted(map(lambda d: (d["line"], d.get("column")), got)) != sorted((d["line"], d["column"]) for d in want):
            res.fail(stream, {"source": src, "stop": False, "default_dialect": "en"}, got, want,
                     "ragged-table errors are not exactly one per table whose rows differ in cell count, at its first deviating row")


def run_C12(ctx: Ctx) -> Result:
    alpha = ["|", "\\", "n", " ", "a", "\t"]
    L = ctx.n(6, 8)
    rows = ["|" + s for s in gens.strings_over(alpha, L)]
    rows += [" " + s for s in gens.strings_over(alpha, 4)]
    uni = ["|  a　 |\x0b\\n\x0c| \ud800 |", "| |\u0085\\|\u0085|", "| a \\n|", "|\\\\n|", "| 😀\\😀 |", "|a\\", "|\r|\n"]
    res = streams.line_stream("cells", rows + uni, impl.cells, "cells",
                              project=lambda r: [c["text"] for c in r] if isinstance(r, list) else r)
    res.stats["exhaustive_upto"] = L
    docs = []
    for _ in range(ctx.n(400, 4000)):
        g = gens.DocGen(ctx.rng, "en")
        g.emit("Feature: f")
        g.emit("  Scenario Outline: s")
        g.emit("    Given a")
        def row(ch):
            k = ctx.rng.randrange(0, 4)       # k cells; a lone pipe is a row with zero cells
            return "      |" + "".join(ch + "|" for _ in range(k))
        for _ in range(ctx.rng.randrange(1, 5)):
            g.emit(row("x"))
        g.emit("    Examples:")
        for _ in range(ctx.rng.randrange(0, 5)):
            g.emit(row("y"))
        docs.append("".join(g.lines))
    for ch in ["\u2028", "\u2029", "\x85", "\x0b", "\x0c", "\x1c", "\x1d", "\x1e", "\r", "\xa0", "\u3000", "😀"]:
        docs.append(f"Feature: f\n  Scenario: s\n    Given a\n      | left{ch}right | b |\n      | c | {ch}d{ch} |\n")
        docs.append(f"Feature: f\n  Scenario Outline: s\n    Given <a>\n    Examples:\n      | a |\n      | x{ch}y |\n")
    res.merge(streams.parse_stream(docs + streams.corpus_docs(), proj_tables, modes=(False, True)))
    mixed = ["Feature: f\n  Scenario: s\n    Given a\n      | a | b |\n  # c\n\n      | c |\n      | d | e |\n      |\n    When b\n      | x |\n      | y |\n",
             "Feature: f\n  Scenario: s\n    Given a\n      | a |\n  oops\n      | c | d |\n    Then b\n      | \\| |\n      | a \\\\| b |\n",
             "Feature: f\n  Scenario Outline: s\n    Given <a>\n    Examples:\n      | a | b |\n      | 1 |\n      | 1 | 2 | 3 |\n    @t\n    Examples:\n      |\n      | 1 |\n"]
    ragged_oracle(res, mixed + docs + streams.corpus_docs() + streams.doc_mix(ctx.rng, ctx.n(200, 2000)))
    return res


def run_C13(ctx: Ctx) -> Result:
    res = Result()
    docs = []
    content_pool = ["Given x", "@tag", "# comment", "| a |", "Feature: f", "", "   ", '"""', "```", '\\"\\"\\"', "\\`\\`\\`",
                    "Scenario: s", "  indented", "\tTab", "Examples:", '  \\"\\"\\" x \\"\\"\\"', "text\r", "é😀", '""', "``",
                    "x\u2028y", "a\x0cb", "\x85", 'x\u2028"""', "x\u2029```", "v\x0bt", "fs\x1cgs\x1drs\x1e", "nb\xa0sp\u3000"]
    for _ in range(ctx.n(1500, 15000)):
        r = ctx.rng
        d = r.choice(['"""', "```"])
        ind = " " * r.randrange(0, 6)
        media = r.choice(["", "", "json", " x y ", "\tm"])
        lines = []
        for _ in range(r.randrange(0, 6)):
            c = r.choice(content_pool)
            if c.lstrip().startswith(d):
                c = "x" + c
            lines.append(" " * r.randrange(0, 8) + c)
        holder = r.choice(["  Background:\n    Given b\n", "  Scenario: s\n    Given b\n", "  Scenario Outline: o\n    Given <a>\n"])
        tail = r.choice(["    And after\n", "", "  Scenario: next\n    Given n\n", "    Examples:\n      | a |\n      | 1 |\n"])
        # the closing line only has to START with the delimiter: whatever follows it on the line is ignored
        closer = d + r.choice(["", "", "", "", " x", "trailer", d[0], "  ", " " + d, "json"])
        docs.append("Feature: f\n" + holder + ind + d + media + "\n" + "".join(l + "\n" for l in lines) + ind + closer + "\n" + tail)
    res.merge(streams.parse_stream(docs + streams.corpus_docs(), proj_docstrings, modes=(False,), nontrivial=lambda i: "ok" in i))
    # matcher in the content state
    cases = []
    for sep in ['"""', "```"]:
        for indent in (0, 2, 5):
            for line in content_pool:
                for pre in ("", "  ", "      "):
                    cases.append(("DocStringSeparator", "en", "en", indent, sep, pre + line + "\n"))
                    cases.append(("Other", "en", "en", indent, sep, pre + line + "\n"))
    for sep in ['"""', "```"]:
        for line in ['``` x', '```trailer', '````', '""" end', '""""', '"""json', '``` ```', '""" """', "```\t", '"""\u00a0']:
            for pre in ("", "   "):
                cases.append(("DocStringSeparator", "en", "en", 2, sep, pre + line + "\n"))
                cases.append(("Other", "en", "en", 2, sep, pre + line + "\n"))
    for line in content_pool:
        cases.append(("DocStringSeparator", "en", "en", 0, None, "   " + line + " media \n"))
    res.merge(streams.match_stream(cases))
    return res


def run_C14(ctx: Ctx) -> Result:
    res = Result()
    docs = streams.corpus_docs() + streams.doc_mix(ctx.rng, ctx.n(2000, 20000), noisy=0.5, mutated=0.4)
    docs += ["   # language: xx\nFeature: f\n", "@a b\nFeature: f\n", "Feature: f\n  Scenario: s\n    Given a\n      | a |\n      | a | b |\n"]
    for ws_ in ["\u00a0", "\u3000", "\u2003", "\u2028", "\x85", "\x1f", "\t", "\x0c"]:
        docs.append(f"@a{ws_}# trailing comment after a blank that is not a space\nFeature: f\n  @b @c{ws_}#x\n  Scenario: s\n")
        docs.append(f"@a{ws_}b\nFeature: f\n")
        docs.append(f"Feature: f\n  @ok @x{ws_}y\n  Scenario: s\n    Given a\n")
    # the same error met several times with other errors in between (look-ahead, then the main loop)
    for tail in ("  Scenario: n\n", "  Rule: r\n", "    Examples:\n      | a |\n", ""):
        for bad in ("  @bad tag\n", "  @ok @a b\n", "  @t\n  @bad tag\n  # c\n  @bad tag\n"):
            docs.append("Feature: f\n  Scenario Outline: s\n    Given a\n      | a |\n      | b | c |\n  @t\n" + bad + tail)
            docs.append("Feature: f\n  Scenario: s\n    Given a\n  @t\n" + bad + "\n" + bad + tail)
    res.merge(streams.parse_stream(docs, proj_errors, modes=(False, True), nontrivial=lambda i: "errors" in i))
    # direct oracles: stop-mode error == first collected error; message prefix; de-duplication; cap
    for src in docs:
        if impl.is_existing_path(src):
            continue
        c = impl.parse(src, False)
        s = impl.parse(src, True)
        case = {"source": src, "stop": False, "default_dialect": "en"}
        bad = None
        if ("errors" in c) != ("errors" in s):
            bad = "the two error modes disagree on rejection"
        elif "errors" in c:
            if c["errors"][0] != s["errors"][0]:
                bad = "stop-at-first-error raises something other than the first collected error"
            msgs = [e["message"] for e in c["errors"]]
            if len(set(msgs)) != len(msgs):
                bad = "identical messages reported twice"
            if len(msgs) > 11:
                bad = "more than eleven errors"
            for e in c["errors"]:
                pre = "(%d:%d): " % (e["location"]["line"], e["location"].get("column") or 0)
                if not e["message"].startswith(pre):
                    bad = f"message {e['message'][:40]!r} does not start with its own position {pre!r}"
        if bad:
            res.fail("parse", case, proj_errors(c), "see 'what'", bad)
    # kind level: every (state, unexpected kind) — error positions and expected lists vs the table model
    K = impl.KINDS
    seqs = [list(t) for n in range(1, ctx.n(4, 5)) for t in itertools.product(range(1, 14), repeat=n)]
    outs = driver.batch([driver.request("kinds", s) for s in seqs])
    for sq, m in zip(seqs, outs):
        i = impl.kinds_run([K[x] for x in sq])
        case = {"kinds": [K[x] for x in sq]}
        res.note(case, not i.get("accepts", True))
        if "crash" not in i and not i["accepts"] and len(i["errors"]) <= 10 and i["errors"] != m["errors"]:
            res.fail("kinds", case, i["errors"], m["errors"], "unexpected-line positions differ from the table model (recovery)")
    # direct oracle, no table in the loop: "after an unexpected line parsing carries on from the same position with the
    # next line" — for a path (free of tag lines, which are read with look-ahead) to every state, every kind that is unexpected there and every one-line continuation, the
    # run with the unexpected line reports that line plus exactly what the run without it reports (shifted by one)
    try:
        pre = state_prefixes()
    except Exception:
        pre = {}
    n_rec = 0
    for s_, p_ in sorted(pre.items()):
        if K.index("TagLine") in p_:
            continue          # a tag line is read with look-ahead: what follows it decides the state it leads to
        base_ = impl.kinds_run([K[x] for x in p_])
        if "crash" in base_ or any(e_ < len(p_) for e_ in base_.get("errors", [])):
            continue          # the path itself must be error free (errors at the end of file aside)
        for k in range(1, 14):
            one = impl.kinds_run([K[x] for x in p_ + [k]])
            if "crash" in one or len(p_) not in one.get("errors", []):
                continue      # kind k is expected in this state
            for q in range(1, 14):
                with_ = impl.kinds_run([K[x] for x in p_ + [k, q]])
                without = impl.kinds_run([K[x] for x in p_ + [q]])
                n_rec += 1
                if "crash" in with_ or "crash" in without or len(with_.get("errors", [])) > 10:
                    continue
                want = sorted([len(p_)] + [e_ + 1 if e_ >= len(p_) else e_ for e_ in without.get("errors", [])])
                if sorted(with_.get("errors", [])) != want:
                    res.fail("kinds", {"kinds": [K[x] for x in p_ + [k, q]], "state": s_}, with_.get("errors"), want,
                             f"after the unexpected {K[k]} line in state {s_} the parser does not carry on from the same position: "
                             f"the next line ({K[q]}) is treated differently than without the unexpected line")
                    break
    res.stats["recovery_pairs_checked"] = n_rec
    # ---- the statement of `C14_errors_classified` / `C04_error_locations_in_source` (Props/C14ErrorsDoc) evaluated on the
    # IMPLEMENTATION: every error of every rejected parse is one of five classes, each tied to its own physical line
    n_cls = Counter()
    for d_ in docs:
        if impl.is_existing_path(d_):
            continue
        for stop_ in (False, True):
            o_ = impl.parse(d_, stop_)
            if "errors" not in o_:
                continue
            ls_ = d_.split("\n")
            nl_ = len(ls_) - 1 + (1 if ls_[-1] else 0)
            for e_ in o_["errors"]:
                li_, c_ = e_["location"]["line"], e_["location"].get("column")
                l_ = (ls_[li_ - 1] if 1 <= li_ <= len(ls_) else None)
                ty_, msg_ = e_["type"], e_["message"]
                bad = None
                if not msg_.startswith(f"({li_}:{c_ if c_ is not None else 0}): "):
                    bad = "message does not start with its own (line:column) position"
                elif ty_ == "UnexpectedEOFException":
                    if li_ != nl_ + 1 or c_ is not None or ": unexpected end of file, expected: " not in msg_:
                        bad = "end-of-file error not one line past the last / with a column"
                elif l_ is None or c_ is None or not (1 <= c_ <= len(l_)) or l_[c_ - 1].isspace():
                    bad = "location is not a non-blank character of a line of the document"
                elif ty_ == "UnexpectedTokenException":
                    ind_ = len(l_) - len(l_.lstrip())
                    if c_ != ind_ + 1 or not msg_.endswith(f", got '{l_.strip()}'") or ": expected: #" not in msg_:
                        bad = "unexpected-line error not at the first non-blank of its line / not quoting the trimmed line"
                elif "A tag may not contain whitespace" in msg_:
                    if l_[c_ - 1] != "@" or not l_.lstrip().startswith("@"):
                        bad = "tag error not at the '@' of a tag on a tag line"
                elif ty_ == "NoSuchLanguageException":
                    if l_[c_ - 1] != "#" or c_ != len(l_) - len(l_.lstrip()) + 1 or not msg_.endswith("Language not supported: " + l_.split(":", 1)[1].strip()):
                        bad = "unknown-language error not at the '#' of its header line / not naming the header's language"
                elif "inconsistent cell count within the table" in msg_:
                    if l_[c_ - 1] != "|" or c_ != len(l_) - len(l_.lstrip()) + 1:
                        bad = "ragged-table error not at the leading '|' of a row"
                else:
                    bad = "an error of none of the five classes"
                n_cls[ty_ if "Unexpected" in ty_ or "Language" in ty_ else msg_.split("): ", 1)[-1][:24]] += 1
                if bad:
                    res.fail("errors-classified", {"source": d_, "stop": stop_, "default_dialect": "en"}, e_, {"line_text": l_}, bad)
    for k_, v_ in n_cls.items():
        res.stats["error_class:" + k_] = v_
    # ---- theorem-driven tie (Props/C14Recover): wherever `C14_unexpected_line_check` applies (driver op `recoverok`:
    # line k+1 of a document is an unexpected line in a state whose tests all say no, no look-ahead steps over it, the run
    # stays below the cap), the IMPLEMENTATION's errors on the document must be exactly its errors on the document without
    # that line, line numbers after k moved down by one, plus the one unexpected-token error for the line at (k+1, indent+1)
    rec_docs = [d_ for d_ in docs if 0 < len(d_) < 2500 and not impl.is_existing_path(d_)]
    rec_docs = [d_ for d_ in rec_docs if "errors" in impl.parse(d_, False)][: ctx.n(150, 1500)]
    rec_docs += ["Feature: f\nScenario: s\nGiven x\nFeature: g\nWhen y\n", "Feature: f\n  Scenario: s\n    Given a\n  oops\n      | a |\n  oops\n  Scenario: t\n",
                 "Feature: f\n  Background:\n    Given a\n  Background:\n  Scenario: s\n    Examples:\n      | a |\n    Given b\n"]
    outs_r = driver.batch([driver.request("recoverok", "en", d_) for d_ in rec_docs]) if rec_docs else []
    n_skip = 0
    for d_, m_ in zip(rec_docs, outs_r):
        ls_ = d_.split("\n")
        phys = [x + "\n" for x in ls_[:-1]] + ([ls_[-1]] if ls_[-1] else [])
        with_ = impl.parse(d_, False)
        for k_ in m_.get("stop", [])[:1]:
            # C14_unexpected_line_stop_check: in stop mode the run ends AT that line with exactly this error
            if k_ < len(phys):
                st_o = impl.parse(d_, True)
                u_ = phys[k_]
                ind_ = len(u_) - len(u_.lstrip())
                es_ = st_o.get("errors", [])
                res.stats["theorem_driven_stop_mode_unexpected"] += 1
                if not (len(es_) == 1 and st_o.get("composite") is False and es_[0]["type"] == "UnexpectedTokenException"
                        and es_[0]["location"] == {"line": k_ + 1, "column": ind_ + 1}
                        and es_[0]["message"].startswith(f"({k_ + 1}:{ind_ + 1}): expected: ") and es_[0]["message"].endswith(f", got '{u_.strip()}'")):
                    res.fail("recover", {"source": d_, "stop": True, "default_dialect": "en", "unexpected_line": k_ + 1}, es_,
                             {"line": k_ + 1, "column": ind_ + 1}, "C14_unexpected_line_stop_check applies to this line but the stop-mode parse is not rejected with "
                             "exactly one unexpected-token error at that line")
        res.stats["theorem_driven_skippable_only_by_exact_condition"] += len(set(m_.get("skippable", [])) - set(m_.get("skippable1", [])))
        for k_ in m_.get("skippable", [])[:6]:
            if k_ >= len(phys) or (k_ == len(phys) - 1 and not phys[k_].endswith("\n") and k_ > 0 and False):
                continue
            without_src = "".join(phys[:k_] + phys[k_ + 1:])
            if k_ == len(phys) - 1 and not d_.endswith("\n"):
                pass        # the last line without a line break: the text before it still ends with one
            if impl.is_existing_path(without_src):
                continue
            without = impl.parse(without_src, False)
            n_skip += 1
            u_ = phys[k_]
            ind_ = len(u_) - len(u_.lstrip())
            mine = [e_ for e_ in with_.get("errors", []) if e_["location"]["line"] == k_ + 1]
            others = [e_ for e_ in with_.get("errors", []) if e_["location"]["line"] != k_ + 1]

            def up(e_):
                l_ = e_["location"]["line"]
                if l_ <= k_:
                    return e_
                c_ = e_["location"].get("column")
                m2 = re.match(r"^\((\d+):(\d+)\): ", e_["message"])
                msg = f"({l_ + 1}:{m2.group(2)}): " + e_["message"][m2.end():] if m2 else e_["message"]
                return {**e_, "location": {"line": l_ + 1, **({"column": c_} if c_ is not None else {})}, "message": msg}
            want_others = [up(e_) for e_ in without.get("errors", [])]
            ok_ = (len(mine) == 1 and mine[0]["type"] == "UnexpectedTokenException" and mine[0]["location"].get("column") == ind_ + 1
                   and mine[0]["message"].startswith(f"({k_ + 1}:{ind_ + 1}): expected: ") and mine[0]["message"].endswith(f", got '{u_.strip()}'")
                   and others == want_others)
            res.note({"source": d_, "skipped_line": k_ + 1}, True)
            if not ok_:
                res.fail("recover", {"source": d_, "stop": False, "skipped_line": k_ + 1, "without_line": without_src},
                         {"line_errors": mine, "other_errors": others}, {"other_errors": want_others},
                         f"C14_unexpected_line_check applies to line {k_ + 1} but the implementation's errors are not: one unexpected-token error for that line "
                         f"plus exactly the errors of the document without it (later lines moved down by one): {first_diff(others, want_others)}")
    res.stats["theorem_driven_skipped_lines"] = n_skip
    return res


def run_C15(ctx: Ctx) -> Result:
    res = Result()
    rng = ctx.rng
    pool = [
        "Feature: a\n  Scenario: s\n    Given x\n",
        "# language: fr\nFonctionnalité: f\n  Scénario: s\n    Soit x\n",
        "# c1\nFeature: unterminated\n  # c2\n  Scenario: s\n    Given x\n      \"\"\"\n      open\n",
        "Feature: z\n\n@tag with space\n  Scenario: s\n# late comment\n",
        "Feature: bad\n  nonsense here\n  Scenario: s\n   | dangling |\n  Rule: r\n  Feature: again\n",
        "#language: no-such\nFeature: x\n",
        "@tag with space\nFeature: x\n",
        "Feature: tags\n  @a\n  # c\n\n  @b\n  Rule: r\n    @c\n    Scenario: s\n      Given x\n      @e\n      Examples:\n        | a |\n",
        "x\n" * 15,
        "",
        "# language: ru\nФункция: ф\n  Сценарий: с\n    Допустим ```\n    ```\n",
        "Feature: t\n  Scenario: s\n    Given t\n      | a |\n      | b | c |\n",
        "Feature: d\n  Background:\n    Given b\n    ```\n    x\n    ```\n  Scenario: s\n    When w\n",
        "Feature: q\n  Scenario: s\n    Given t\n      | a |\n      | b | c |\n  @tag\n  # c\n  Scenario: next\n    Given x\n",
    ]
    seqs = [list(p) for p in itertools.permutations(range(len(pool)), 2)]
    if ctx.thorough:
        seqs += [list(p) for p in itertools.permutations(range(len(pool)), 3)]
    else:
        seqs += [[rng.randrange(len(pool)) for _ in range(3)] for _ in range(300)]
    seqs += [[rng.randrange(len(pool)) for _ in range(rng.randrange(4, 8))] for _ in range(ctx.n(100, 1000))]
    fresh = {}
    for k, src in enumerate(pool):
        for stop in (False, True):
            fresh[(k, stop)] = impl.parse(src, stop)

    def shift(o, base):
        """ids are drawn from a shared generator: compare up to the offset"""
        def f(x):
            if isinstance(x, dict):
                return {k: (str(int(v) - base) if k == "id" else f(v)) for k, v in x.items()}
            if isinstance(x, list):
                return [f(v) for v in x]
            return x
        r = {k: f(v) for k, v in o.items() if k in ("ok", "errors", "composite", "crash", "builds")}
        return r

    runs = [(sq, st) for sq in seqs for st in ((False, True) if len(sq) == 2 else (rng.random() < 0.3,))]
    for sq, stop in runs:
        parser = impl.Parser(impl.RecordingBuilder(impl.id_gen(0)))
        matcher = impl.CountingMatcher("en")
        case = {"history": [pool[k] for k in sq], "stop": stop}
        res.note({"history": sq, "stop": stop}, True)
        kept = None
        for pos, k in enumerate(sq):
            base = parser.ast_builder.id_generator._id_counter
            o = impl.parse(pool[k], stop, parser=parser, matcher=matcher)
            # a result handed out earlier must not change when the same objects parse something else
            if kept is not None and kept[0] != kept[1]:
                res.fail("history", {**case, "position": pos}, kept[0], kept[1],
                         "a document returned by an earlier parse changed after a later parse on the same Parser: "
                         + str(first_diff(kept[0], kept[1])))
                break
            kept = (o["ok"], copy.deepcopy(o["ok"])) if "ok" in o else None
            want = fresh[(k, stop)]
            a, b = shift(o, base), shift(want, 0)
            if a != b:
                res.fail("history", {**case, "position": pos}, a, b,
                         f"document {pos} of the history parses differently than with fresh instances: {first_diff(a, b)}")
                break
    # compiling does not modify the AST it is given and is repeatable — also for hand-built ASTs (several backgrounds,
    # any order of children) that the parser never returns
    res.merge(streams.genast_stream(rng, ctx.n(500, 5000),
                                    lambda o: {k_: o.get(k_) for k_ in ("mutated_input", "second_compile_differs")}, stream="history"))
    # one Parser used with and without an explicit matcher, in any order (parse(src, m) must not change what parse(src) does)
    from gherkin.token_matcher_markdown import GherkinInMarkdownTokenMatcher as _MD
    en_doc, fr_doc = pool[0], "Fonctionnalité: f\n  Scénario: s\n    Soit x\n"
    want_en = {x: fresh[(0, False)].get(x) for x in ("ok", "errors")}
    for first in ("fr", "no", "md", "fr-rejected"):
        p_ = impl.Parser(impl.RecordingBuilder(impl.id_gen(0)))
        try:
            if first == "md":
                p_.parse("# Feature: m\n## Scenario: s\n* Given x\n", _MD("en"))
            elif first == "fr-rejected":
                p_.parse("nonsense\n", impl.TokenMatcher("fr"))
            else:
                p_.parse(fr_doc if first == "fr" else "Egenskap: f\n", impl.TokenMatcher(first))
        except Exception:
            pass
        p_.ast_builder.id_generator = impl.id_gen(0)
        try:
            got = {"ok": p_.parse(en_doc)}
        except Exception as e_:
            got = {"crash": f"{type(e_).__name__}: {e_}"}
        res.note({"mixed_call_styles": first}, True)
        if got.get("ok") != want_en.get("ok"):
            res.fail("history", {"source": en_doc, "note": f"Parser.parse(src) without a matcher, after parse(other, matcher={first}) on the same Parser"},
                     got, want_en, "parse(src) without a matcher depends on the matcher passed to an earlier parse on the same Parser")
    # an exception raised for an earlier document must not change when the same Parser parses another one
    from gherkin.errors import CompositeParserException as _CPE, ParserException as _PE
    for stop_ in (False, True):
        p_ = impl.Parser()
        p_.stop_at_first_error = stop_
        held = []
        for k in [4, 3, 11, 6, 5, 0, 8, 4]:
            try:
                p_.parse(pool[k])
            except (_CPE, _PE) as e_:
                held.append((k, e_, json.dumps([impl.err_json(x) for x in getattr(e_, "errors", [e_])], sort_keys=True), str(e_)))
            for k0, e0, snap, msg in held:
                now = json.dumps([impl.err_json(x) for x in getattr(e0, "errors", [e0])], sort_keys=True)
                if now != snap or str(e0) != msg:
                    res.fail("history", {"source": pool[k0], "stop": stop_, "note": f"exception held while the same Parser parsed pool document {k}"},
                             json.loads(now), json.loads(snap), "the errors of an exception raised earlier changed after a later parse on the same Parser")
                    held = []
                    break
    res.note({"held_exceptions": True}, True)
    # default-constructed instances are independent: the same document gives the same result every time
    ddoc = "@t\nFeature: f\n  Background:\n    Given b\n  Scenario Outline: s\n    Given <a>\n    Examples:\n      | a |\n      | 1 |\n      | 2 |\n"
    first_ = None
    for rep in range(3):
        d_ = impl.Parser().parse(ddoc)
        ps_ = impl.Compiler().compile({**d_, "uri": "u"})
        cur = json.dumps([d_, ps_], sort_keys=True)
        if first_ is None:
            first_ = cur
        elif cur != first_:
            res.fail("history", {"source": ddoc, "note": f"default-constructed Parser() and Compiler(), use number {rep + 1} in this process"},
                     json.loads(cur)[1], json.loads(first_)[1], "parsing and compiling the same document with newly constructed objects gives a different result the second time")
            break
    # Markdown matching in the same process must not disturb later classic parses
    from gherkin.token_matcher_markdown import GherkinInMarkdownTokenMatcher
    for n_ in ("en", "fr"):
        mm_ = GherkinInMarkdownTokenMatcher(n_)
        for l_ in ("* Given x\n", "- When y\n", "+ Then z\n", "## Scenario: s\n", "  | a |\n", "`@t`\n"):
            for k_ in ("StepLine", "ScenarioLine", "TableRow", "TagLine"):
                getattr(mm_, "match_" + k_)(impl.Token(impl.GherkinLine(l_, 1), {"line": 1}))
    for k, src in enumerate(pool):
        again = impl.parse(src, False)
        if {x: again.get(x) for x in ("ok", "errors")} != {x: fresh[(k, False)].get(x) for x in ("ok", "errors")}:
            res.fail("history", {"source": src, "note": "after the Markdown matcher was used in this process"},
                     again.get("ok") or again.get("errors"), fresh[(k, False)].get("ok") or fresh[(k, False)].get("errors"),
                     "a classic parse gives a different result after GherkinInMarkdownTokenMatcher was used in the same process")
            break
    # one matcher through two documents of different dialects that share a step keyword of different category
    D_ = impl.dialects()
    cat_ = {}
    for n_, sp_ in D_.items():
        for role_ in ("given", "when", "then", "and", "but"):
            for kw_ in sp_[role_]:
                if kw_ != "* ":
                    cat_.setdefault(kw_, {}).setdefault("Conjunction" if role_ in ("and", "but") else role_, []).append(n_)
    coll = [(kw_, c_) for kw_, c_ in cat_.items() if len(c_) > 1]
    for kw_, c_ in coll:
        names_ = [(r_, n_) for r_, ns_ in c_.items() for n_ in ns_[:2]]
        for (ra, a_), (rb, b_) in itertools.permutations(names_, 2):
            if ra == rb:
                continue
            def doc_(n_):
                sp_ = D_[n_]
                return f"# language: {n_}\n{sp_['feature'][0]}: f\n  {sp_['scenario'][0]}: s\n    {sp_['given'][-1]}a\n    {kw_}b\n"
            m_ = impl.TokenMatcher("en")
            first = impl.pickles(doc_(a_), matcher=m_)
            second = impl.pickles(doc_(b_), matcher=m_)
            fresh_ = impl.pickles(doc_(b_))
            res.note({"keyword": kw_, "dialects": [a_, b_]}, True)
            if pickles_all(second) != pickles_all(fresh_):
                res.fail("history", {"source": doc_(b_), "earlier_documents_through_same_matcher": [doc_(a_)]},
                         pickles_all(second), pickles_all(fresh_),
                         f"step keyword {kw_!r} is typed differently after the matcher parsed a {a_} document: "
                         + str(first_diff(pickles_all(second), pickles_all(fresh_))))
    res.stats["cross_dialect_keyword_collisions"] = len(coll)
    # model side: the same histories through the model give the fresh results too (ids offset)
    # interleavings at token-read granularity
    res.merge(interleave_check(ctx, pool))
    # process-level and instance-level state: a long mixed sequence (accepted, rejected, aborted in stop mode,
    # comments, bad tags at varying lines) parsed fresh and through one long-lived Parser+TokenMatcher
    res.merge(streams.parse_stream(streams.doc_mix(rng, ctx.n(700, 7000), noisy=0.45, mutated=0.25), proj_all))
    # one Compiler (and TokenMatcher) through sequences of documents: each result as from fresh instances
    hist = streams.corpus_docs() + [gens.permuted_examples(rng) for _ in range(ctx.n(150, 1500))] + \
        streams.doc_mix(rng, ctx.n(200, 2000), noisy=0.0, mutated=0.0)
    hist += ["Feature: f\n  Scenario Outline: o\n    And first\n    But second\n    Examples:\n      | a |\n      | 1 |\n      | 2 |\n"] * 2
    rng.shuffle(hist)
    res.merge(streams.pickles_stream(hist, pickles_all, shared=True))
    # determinism and purity of compile
    for src in pool + streams.corpus_docs()[:: ctx.n(4, 1)]:
        a, b = impl.pickles(src), impl.pickles(src)
        if a != b or a.get("mutated_input"):
            res.fail("pickles", {"source": src}, a, b, "parse+compile is not deterministic or compile modified its input")
    return res


def interleave_check(ctx: Ctx, pool) -> Result:
    """run 2–3 parses concurrently, switching at every TokenScanner.read according to a schedule"""
    import threading
    res = Result()
    rng = ctx.rng
    # two documents made of long look-ahead runs: concurrent parsers are then inside a look-ahead at the same time
    la1 = "Feature: a\n  @t1\n  # c\n\n  @t2\n  Scenario Outline: s\n    Given <a>\n    @e1\n\n    # k\n    @e2\n    Examples:\n      | a |\n      | 1 |\n  @x\n\n  @y\n  Scenario: z\n"
    la2 = "Feature: b\n  @r1\n\n  @r2\n  # z\n  Rule: q\n    @s\n    # w\n    @u\n\n    Scenario: w\n      Given b\n    @v\n    @w\n\n    Scenario: last\n"
    small = [pool[0], pool[1], pool[3], pool[6], pool[2], pool[11], la1, la2, la1, la2]

    class Gate:
        def __init__(self, schedule, n):
            self.schedule = list(schedule)
            self.n = n
            self.cv = threading.Condition()
            self.turn = self.schedule.pop(0) if self.schedule else 0
            self.done = set()

        def wait_turn(self, me):
            with self.cv:
                while self.turn != me and len(self.done) < self.n - 1:
                    self.cv.wait(timeout=5)

        def advance(self):
            with self.cv:
                alive = [i for i in range(self.n) if i not in self.done]
                while self.schedule and self.schedule[0] not in alive:
                    self.schedule.pop(0)
                if self.schedule:
                    self.turn = self.schedule.pop(0)
                elif alive:
                    self.turn = alive[0]
                self.cv.notify_all()

        def finish(self, me):
            with self.cv:
                self.done.add(me)
            self.advance()

    def make_scanner(gate, me, text):
        class S(impl.TokenScanner):
            def read(self_inner):
                gate.wait_turn(me)
                t = impl.TokenScanner.read(self_inner)
                gate.advance()
                gate.wait_turn(me)
                return t
        return S(text)

    solo = {s: impl.parse(s, False) for s in small}
    trials = ctx.n(150, 1500)
    for _ in range(trials):
        n = rng.choice([2, 2, 3])
        docs = [rng.choice(small) for _ in range(n)]
        total = sum(d.count("\n") + 2 for d in docs)
        sched = [rng.randrange(n) for _ in range(total * 2)]
        gate = Gate(sched, n)
        outs = [None] * n
        use_matcher = rng.random() < 0.5

        def work(i):
            try:
                p = impl.Parser(impl.RecordingBuilder(impl.id_gen(0)))
                m = impl.CountingMatcher("en") if use_matcher else None   # None: the parser's own default matcher
                try:
                    doc = p.parse(make_scanner(gate, i, docs[i]), m)
                    outs[i] = {"ok": doc}
                except impl.CompositeParserException as e:
                    outs[i] = {"errors": [impl.err_json(x) for x in e.errors]}
                except Exception as e:
                    outs[i] = {"crash": repr(e)}
            finally:
                gate.finish(i)
        ths = [threading.Thread(target=work, args=(i,)) for i in range(n)]
        for t in ths:
            t.start()
        for t in ths:
            t.join(timeout=30)
        case = {"documents": docs, "schedule": sched[:40]}
        res.note(case, True)
        for i in range(n):
            want = {k: v for k, v in solo[docs[i]].items() if k in ("ok", "errors", "crash")}
            if outs[i] != want:
                res.fail("sched", case, outs[i], want, f"parser {i} produced a different result when interleaved")
    return res


def transform_cases(rng, src):
    """C16 metamorphic pairs: (name, transformed source, relation)"""
    out = []
    if "\r" not in src:
        out.append(("crlf", src.replace("\n", "\r\n"), "same"))
    lines = src.split("\n")
    return out, lines


def run_C16(ctx: Ctx) -> Result:
    res = Result()
    rng = ctx.rng
    explicit = ["# language: fr\nFonctionnalité: f\n  Scénario: s\n    Etant donné que\n    Alors ok\n",
                "Feature: f\n\n  @t\n  # c\n  Scenario Outline: o\n    Given a <x>\n      \"\"\"\n      doc\n      \"\"\"\n    @e\n    # c2\n    @e2\n    Examples: e\n      | x |\n      | 1 |\n  Rule: r\n    Background: b\n      * s\n    Example: e\n      Then t\n        | a |\n"]
    docs = explicit + [d for d in streams.corpus_docs() if "\r" not in d.replace("\r\n", "")] + \
        [d for d in streams.doc_mix(rng, ctx.n(500, 5000), noisy=0.2, mutated=0.2) if "\r" not in d.replace("\r\n", "")]

    def full(src):
        o = impl.parse(src, False)
        r = {k: v for k, v in o.items() if k in ("ok", "errors", "crash")}
        if "ok" in o:
            r["pickles"] = impl.compile_ast(o["ok"], "u", o["ids"]).get("pickles")
        return r, o

    def strip_loc(x, what):
        def f(v):
            if isinstance(v, dict):
                d = {}
                for k, w in v.items():
                    if k == "location":
                        d[k] = {kk: vv for kk, vv in w.items() if kk not in what}
                    elif k == "message" and what:
                        d[k] = re.sub(r"^\(\d+:\d+\): ", "", w)
                    else:
                        d[k] = f(w)
                return d
            if isinstance(v, list):
                return [f(w) for w in v]
            return v
        return f(x)

    for src in docs:
        if impl.is_existing_path(src):
            continue
        base, raw = full(src)
        kinds = [re.match(r"\((\d+):\d+\)(\w+):", b) for b in raw.get("builds", [])]
        kind_of_line = {int(m.group(1)): m.group(2) for m in kinds if m}
        lf = src.replace("\r\n", "\n")
        case = {"source": src}
        res.note(case, True)
        # CRLF <-> LF
        for name, t in (("lf->crlf", lf.replace("\n", "\r\n")), ("crlf->lf", lf)):
            if t != src:
                o, _ = full(t)
                if o != base:
                    res.fail("metamorphic", {**case, "transform": name, "transformed": t}, o, base,
                             f"{name} changed the result: {first_diff(o, base)}")
        # final line break
        t = src[:-1] if src.endswith("\n") and not src.endswith("\r\n") else (src + "\n" if src and not src.endswith("\n") else None)
        if t is not None and "ok" in base:
            o, _ = full(t)
            if o.get("ok") != base.get("ok"):
                res.fail("metamorphic", {**case, "transform": "final-newline", "transformed": t}, o.get("ok"), base.get("ok"),
                         "presence of a final line break changed the AST")
        if "ok" not in base:
            continue
        lines = lf.split("\n")
        structural = {"FeatureLine", "RuleLine", "BackgroundLine", "ScenarioLine", "ExamplesLine", "StepLine", "TagLine", "TableRow"}
        cand = [ln for ln, k in kind_of_line.items() if k in structural and ln <= len(lines)]
        rng.shuffle(cand)
        for ln in (cand if src in explicit else cand[: ctx.n(2, 6)]):
            # trailing blanks
            t = "\n".join(lines[: ln - 1] + [lines[ln - 1] + "  \t"] + lines[ln:])
            if src != lf:
                t = t.replace("\n", "\r\n")
            o, _ = full(t)
            if o != base:
                res.fail("metamorphic", {**case, "transform": f"trailing-blanks@{ln}", "transformed": t}, o, base,
                         f"trailing blanks on line {ln} ({kind_of_line[ln]}) changed the result: {first_diff(o, base)}")
                # known finding F8: the trimmed step line plus a blank starts with a (longer) step keyword
                lang = (base.get("ok", {}).get("feature") or {}).get("language", "en")
                spec_ = impl.dialects().get(lang, {})
                kws = sum((spec_.get(r, []) for r in ("given", "when", "then", "and", "but")), [])
                st = lines[ln - 1].strip()
                if kind_of_line[ln] == "StepLine" and any((st + " ").startswith(kw) and not st.startswith(kw) for kw in kws):
                    res.failures[-1]["f8"] = True
                    ctx.known_seen.add("F8")
            # more indentation: only columns change
            t = "\n".join(lines[: ln - 1] + ["   " + lines[ln - 1]] + lines[ln:])
            o, _ = full(t)
            a, b = strip_loc(o, {"column"}), strip_loc(base, {"column"})
            if a != b:
                res.fail("metamorphic", {**case, "transform": f"indent@{ln}", "transformed": t}, a, b,
                         f"indenting line {ln} ({kind_of_line[ln]}) changed more than columns: {first_diff(a, b)}")
            # blank line before (outside descriptions/doc strings: the line before is not Other)
            prev = kind_of_line.get(ln - 1)
            if prev != "Other" and not (prev in {"FeatureLine", "RuleLine", "BackgroundLine", "ScenarioLine", "ExamplesLine", "Empty"} and False):
                t = "\n".join(lines[: ln - 1] + [""] + lines[ln - 1:])
                o, _ = full(t)
                a, b = strip_loc(o, {"line"}), strip_loc(base, {"line"})
                if a != b:
                    res.fail("metamorphic", {**case, "transform": f"blank-before@{ln}", "transformed": t}, a, b,
                             f"a blank line before line {ln} changed more than line numbers: {first_diff(a, b)}")
                # comment line directly before
                t = "\n".join(lines[: ln - 1] + ["  # inserted comment"] + lines[ln - 1:])
                o, _ = full(t)
                if "ok" in o:
                    oc = [c for c in o["ok"]["comments"] if c["text"] != "  # inserted comment"]
                    extra = [c for c in o["ok"]["comments"] if c["text"] == "  # inserted comment"]
                    o2 = {**o, "ok": {**o["ok"], "comments": oc}}
                    a, b = strip_loc(o2, {"line"}), strip_loc(base, {"line"})
                    if a != b or len(extra) != 1 or extra[0]["location"] != {"line": ln, "column": 1}:
                        res.fail("metamorphic", {**case, "transform": f"comment-before@{ln}", "transformed": t}, a, b,
                                 f"a comment line before line {ln} ({kind_of_line[ln]}) did more than add that comment: {first_diff(a, b)}")
                else:
                    res.fail("metamorphic", {**case, "transform": f"comment-before@{ln}", "transformed": t}, o, base,
                             "a comment line before a keyword/step/tag/row line made the document rejected")
        # a doc string moving as one block: only columns change
        opens = [ln for ln, k in kind_of_line.items() if k == "DocStringSeparator"]
        for a_, b_ in zip(opens[0::2], opens[1::2]):
            if b_ > len(lines):
                continue
            for k_ in (2, 5):
                t = "\n".join(lines[: a_ - 1] + [" " * k_ + x for x in lines[a_ - 1: b_]] + lines[b_:])
                o, _ = full(t)
                a2, b2 = strip_loc(o, {"column"}), strip_loc(base, {"column"})
                if a2 != b2:
                    res.fail("metamorphic", {**case, "transform": f"indent-docstring-block@{a_}-{b_}+{k_}", "transformed": t}, a2, b2,
                             f"indenting the doc string block at lines {a_}–{b_} changed more than columns: {first_diff(a2, b2)}")
    # ---- theorem-driven tie (Props/C16Doc3 + C16Doc3Tie): the model driver evaluates the HYPOTHESES of
    # `C16_blank_line_text` / `C16_indent_document_check` (op `layoutok`); wherever they hold, the
    # implementation's outcome on the transformed text must be EXACTLY the renamed outcome of the original —
    # accepted or rejected documents, both error modes, every location and message prefix
    def outcome(src_, stop_):
        o_ = impl.parse(src_, stop_)
        return {k_: v_ for k_, v_ in o_.items() if k_ in ("ok", "errors", "crash", "composite")}

    def rename(x, fl, fc):
        def g(v):
            if isinstance(v, dict):
                d_ = {}
                for k_, w_ in v.items():
                    if k_ == "location" and isinstance(w_, dict):
                        d_[k_] = {"line": fl(w_["line"]), **({"column": fc(w_["line"], w_["column"])} if w_.get("column") is not None else {})}
                    else:
                        d_[k_] = g(w_)
                if "message" in d_ and "location" in v and isinstance(v["message"], str):
                    m_ = re.match(r"^\((\d+):(\d+)\): ", v["message"])
                    if m_:
                        l0, c0 = int(m_.group(1)), int(m_.group(2))
                        d_["message"] = f"({fl(l0)}:{fc(l0, c0) if c0 else 0}): " + v["message"][m_.end():]
                return d_
            if isinstance(v, list):
                return [g(w_) for w_ in v]
            return v
        return g(x)

    tie_docs = explicit + [d_ for d_ in docs[len(explicit):] if len(d_) < 3000 and not impl.is_existing_path(d_)][: ctx.n(120, 1500)]
    tie_docs += ["Feature: f\n  Scenario: s\n    Given a\n  oops\n    | a |\n    | a | b |\n  @a b\n  Scenario: t\nFeature: again\n",
                 "@x y\nFeature: f\n  desc\n\n  more\n  Background:\n    * s\n      \"\"\"\n\n      \"\"\"\n"]
    reqs, meta_ = [], []
    for src in tie_docs:
        for stop_ in (False, True):
            ls_ = src.split("\n")
            phys = [x + "\n" for x in ls_[:-1]] + ([ls_[-1]] if ls_[-1] else [])
            # an indented variant: every line whose first non-blank character suggests a structural line gets 1–3 blanks more
            ind = []
            for x in phys:
                st_ = x.lstrip()
                p_ind = 0.5 if st_ and st_[0] not in "#\"`" else (0.25 if st_ and st_[0] in "\"`" else 0.0)
                ind.append((rng.choice([" ", "  ", "\t ", "\u00a0 "]) if rng.random() < p_ind else "") + x)
            cm_ = rng.choice(["# inserted\n", "  #x \t\n", "#\n", "\t# language: fr\n", "# @t | Given \"\"\"\r\n", " \u00a0#é😀\n"])
            # a variant in which doc strings move AS BLOCKS (Props/C16Doc7): the opening delimiter and every line up to
            # the closing one get the same NUMBER of blanks (any blanks), the closing delimiter any amount; other
            # structural-looking lines now and then
            blk, open_, k_blk = [], None, 0
            for x in phys:
                st_ = x.lstrip()
                if open_ is None:
                    if st_.startswith('"""') or st_.startswith("```"):
                        open_ = st_[:3]
                        k_blk = rng.choice([0, 1, 2, 2, 3, 5])
                        blk.append("".join(rng.choice([" ", " ", "\t", "\u00a0"]) for _ in range(k_blk)) + x)
                    else:
                        p_b = 0.2 if st_ and st_[0] not in "#" else 0.0
                        blk.append((rng.choice([" ", "  ", "\t "]) if rng.random() < p_b else "") + x)
                elif st_.startswith(open_):
                    kc_ = k_blk if rng.random() < 0.6 else rng.choice([0, 1, 4])
                    blk.append(" " * kc_ + x)
                    open_ = None
                else:
                    blk.append("".join(rng.choice([" ", " ", "\t", "\u3000"]) for _ in range(k_blk)) + x)
            reqs.append(driver.request("layoutok", stop_, "en", src, "".join(ind), cm_, "".join(blk)))
            meta_.append((src, stop_, phys, ind, cm_, blk))
    outs_ = driver.batch(reqs) if reqs else []
    n_blank = n_ind = n_cm = n_blk = n_cm_b2 = 0
    for (src, stop_, phys, ind, cm_, blk), m_ in zip(meta_, outs_):
        base_o = outcome(src, stop_)
        ks = [k_ for k_ in m_.get("blank", []) if k_ < len(phys) or src.endswith("\n") or not src]
        if src not in explicit:
            rng.shuffle(ks)
            ks = ks[: ctx.n(3, 8)]
        for k_ in ks:
            t = "".join(phys[:k_]) + rng.choice(["\n", "  \n", "\t\n", " \u00a0\r\n"]) + "".join(phys[k_:])
            want = rename(base_o, lambda l: l + 1 if l > k_ else l, lambda l, c: c)
            got = outcome(t, stop_)
            n_blank += 1
            if got != want:
                res.fail("metamorphic", {"source": src, "stop": stop_, "transform": f"theorem:blank-line-after-{k_}-lines", "transformed": t}, got, want,
                         f"C16_blank_line_text applies (the model reads a blank line as Empty after {k_} lines) but the implementation's outcome "
                         f"is not the original with line numbers > {k_} moved down by one: {first_diff(got, want)}")
        # a comment line inserted where the state builds a comment and stays (C16_comment_line_text)
        kc = [k_ for k_ in m_.get("comment", []) if k_ < len(phys) or src.endswith("\n") or not src]
        if src not in explicit:
            rng.shuffle(kc)
            kc = kc[: ctx.n(3, 8)]
        for k_ in kc:
            t = "".join(phys[:k_]) + cm_ + "".join(phys[k_:])
            want = rename(base_o, lambda l: l + 1 if l > k_ else l, lambda l, c: c)
            if "ok" in want:
                cs_ = want["ok"]["comments"]
                newc = {"location": {"line": k_ + 1, "column": 1}, "text": cm_.rstrip("\r\n")}
                want = {**want, "ok": {**want["ok"], "comments": [c for c in cs_ if c["location"]["line"] <= k_] + [newc] + [c for c in cs_ if c["location"]["line"] > k_]}}
            got = outcome(t, stop_)
            n_cm += 1
            n_cm_b2 += int(k_ not in m_.get("comment2", []))
            if got != want:
                res.fail("metamorphic", {"source": src, "stop": stop_, "transform": f"theorem:comment-line-after-{k_}-lines", "transformed": t}, got, want,
                         f"C16_comment_line_text3 applies (after {k_} lines the model builds a comment and stays, or opens the description and the next line is not blank) but the implementation's outcome is not "
                         f"the original with later lines moved down by one and exactly this comment added: {first_diff(got, want)}")
        if m_.get("indent") or m_.get("indent2"):
            t = "".join(ind)
            w_ = [len(a_) - len(b_) for a_, b_ in zip(ind, phys)]
            want = rename(base_o, lambda l: l, lambda l, c: c + (w_[l - 1] if 0 < l <= len(w_) else 0))
            got = outcome(t, stop_)
            n_ind += 1
            if got != want:
                res.fail("metamorphic", {"source": src, "stop": stop_, "transform": "theorem:indent", "transformed": t}, got, want,
                         "C16_indent_document_check / C16_indent_closing_delimiter_document_check applies (every moved line was built as a keyword / step / tag / row / blank line or a closing delimiter) but the "
                         f"implementation's outcome is not the original with the columns of the moved lines shifted: {first_diff(got, want)}")
        if m_.get("indent3") and blk != phys:
            t = "".join(blk)
            w_ = [len(a_) - len(b_) for a_, b_ in zip(blk, phys)]
            want = rename(base_o, lambda l: l, lambda l, c: c + (w_[l - 1] if 0 < l <= len(w_) else 0))
            got = outcome(t, stop_)
            n_blk += 1
            if got != want:
                res.fail("metamorphic", {"source": src, "stop": stop_, "transform": "theorem:indent-docstring-block", "transformed": t}, got, want,
                         "C16_indent_docstring_block_document_check applies (doc strings moved as blocks; other moved lines were built as keyword / step / tag / row / "
                         f"blank / delimiter lines) but the implementation's outcome is not the original with the columns of the moved lines shifted: {first_diff(got, want)}")
    res.stats["theorem_driven_block_indentations"] = n_blk
    res.stats["theorem_driven_comment_insertions_after_keyword_line_b2"] = n_cm_b2
    res.stats["theorem_driven_blank_insertions"] = n_blank
    res.stats["theorem_driven_indentations"] = n_ind
    res.stats["theorem_driven_comment_insertions"] = n_cm
    # file loading: source_event reads the text unchanged; TokenScanner(path) == text for LF/CRLF documents
    d = os.path.join(ctx.scratch.dir, "files")
    os.makedirs(d, exist_ok=True)
    from gherkin.stream.source_events import source_event
    deep = os.path.join(d, *(["d" * 60] * 5))          # a file path longer than 255 characters
    os.makedirs(deep, exist_ok=True)
    lp = os.path.join(deep, "long.feature")
    with open(lp, "w", encoding="utf8", newline="") as fh:
        fh.write("Feature: long path\n  Scenario: s\n    Given a\n")
    a_ = {k2: v for k2, v in impl.parse(lp, False).items() if k2 in ("ok", "errors", "crash")}
    b_ = {k2: v for k2, v in impl.parse("Feature: long path\n  Scenario: s\n    Given a\n", False).items() if k2 in ("ok", "errors", "crash")}
    res.note({"path_length": len(lp)}, True)
    if a_ != b_:
        res.fail("file", {"path_length": len(lp)}, a_, b_, "loading a document from a long file path gives a different result than the same text")
    bom = ["\ufeffFeature: bom\n  Scenario: s\n    Given a\n", "\ufeff# language: fr\nFonctionnalité: f\n", "\ufeff\nFeature: f\n"]
    seps = ["Feature: f\n  Scenario: s" + c_ + "x\n    Given a" + c_ + "b\n      | c" + c_ + "d |\n  # k" + c_ + "\n" for c_ in ("\x0b", "\x0c", "\x1c", "\x1d", "\x1e", "\x85", "\u2028", "\u2029")]
    for k, src in enumerate(bom + seps + docs[: ctx.n(60, 600)]):
        p = os.path.join(d, f"f{k}.feature")
        try:
            src.encode("utf8")
        except UnicodeEncodeError:
            continue        # lone surrogates cannot be stored in a UTF-8 file
        with open(p, "w", encoding="utf8", newline="") as fh:
            fh.write(src)
        ev = source_event(p)
        if ev["source"]["data"] != src:
            res.fail("file", {"source": src}, ev["source"]["data"], src, "source_event changed the file's text")
        a = impl.parse(p, False)          # path overload of TokenScanner
        b = impl.parse(src, False)
        pa = {k2: v for k2, v in a.items() if k2 in ("ok", "errors", "crash")}
        pb = {k2: v for k2, v in b.items() if k2 in ("ok", "errors", "crash")}
        if pa != pb:
            res.fail("file", {"source": src}, pa, pb, "loading from a file gives a different result than the same text: " + str(first_diff(pa, pb)))
    return res



def cli(script, args, timeout=120):
    """run python/scripts/<script> the way the Makefile does (cwd python/, paths ../testdata/…)"""
    import subprocess
    pdir = os.path.join(core.REPO, "python")
    p = subprocess.run(["/venv/bin/python", "-m", "scripts." + script] + list(args), cwd=pdir, capture_output=True, text=True,
                       timeout=timeout, env={**os.environ, "PYTHONPATH": pdir})
    return p.returncode, p.stdout, p.stderr


def corpus_cli_events(res: Result, limit=None):
    """acceptance corpus through scripts/generate_events.py vs the reference .ndjson files (a finite test)"""
    import glob
    n = 0
    jobs = []
    for f in sorted(glob.glob(os.path.join(core.REPO, "testdata", "good", "*.feature")))[:limit]:
        rel = os.path.join("..", os.path.relpath(f, core.REPO))
        jobs += [(rel, ["--no-source", "--no-pickles"], f + ".ast.ndjson"), (rel, ["--no-source", "--no-ast"], f + ".pickles.ndjson"),
                 (rel, ["--no-ast", "--no-pickles"], f + ".source.ndjson")]
    for f in sorted(glob.glob(os.path.join(core.REPO, "testdata", "bad", "*.feature")))[:limit]:
        rel = os.path.join("..", os.path.relpath(f, core.REPO))
        jobs.append((rel, ["--no-source"], f + ".errors.ndjson"))
    for rel, flags, ref in jobs:
        if not os.path.exists(ref):
            continue
        rc, out, err = cli("generate_events", flags + [rel])
        n += 1
        try:
            got = [json.loads(l) for l in out.splitlines() if l.strip()]
        except Exception:
            got = out[:200]
        want = [json.loads(l) for l in open(ref, encoding="utf8").read().splitlines() if l.strip()]
        if rc != 0 or got != want:
            res.fail("cli", {"command": "python -m scripts.generate_events " + " ".join(flags + [rel])},
                     got if rc == 0 else err[-300:], want, "CLI output differs from the acceptance reference: " + str(first_diff(got, want)))
    res.stats["cli_reference_comparisons"] = n

MESSAGE_SHAPE = None


def shape_errors(env):
    """Cucumber Messages shape (the part gherkin produces), written out from the schema's field lists"""
    errs = []
    KW = {"Unknown", "Context", "Action", "Outcome", "Conjunction"}
    PT = {"Unknown", "Context", "Action", "Outcome"}

    def req(x, path, fields, optional=()):
        if not isinstance(x, dict):
            errs.append(f"{path}: not an object")
            return False
        for k, ty in fields.items():
            if k not in x:
                errs.append(f"{path}.{k}: required field missing")
            elif not isinstance(x[k], ty) or isinstance(x[k], bool):
                errs.append(f"{path}.{k}: {type(x[k]).__name__} where {getattr(ty, '__name__', ty)} required")
        for k in x:
            if k not in fields and k not in optional:
                errs.append(f"{path}.{k}: unknown field")
            if x[k] is None:
                errs.append(f"{path}.{k}: null (absent optional fields must be omitted)")
        return True

    def loc(x, path):
        if req(x, path, {"line": int}, ("column",)) and "column" in x and not isinstance(x["column"], int):
            errs.append(f"{path}.column: not an integer")

    def tag(x, p):
        if req(x, p, {"id": str, "location": dict, "name": str}):
            loc(x.get("location"), p + ".location")

    def row(x, p):
        if req(x, p, {"id": str, "location": dict, "cells": list}):
            loc(x.get("location"), p + ".location")
            for i, c in enumerate(x.get("cells", [])):
                if req(c, f"{p}.cells[{i}]", {"location": dict, "value": str}):
                    loc(c.get("location"), f"{p}.cells[{i}].location")

    def step(x, p):
        if req(x, p, {"id": str, "location": dict, "keyword": str, "keywordType": str, "text": str}, ("dataTable", "docString")):
            loc(x.get("location"), p + ".location")
            if x.get("keywordType") not in KW:
                errs.append(f"{p}.keywordType: {x.get('keywordType')!r} not in vocabulary")
            if "dataTable" in x and req(x["dataTable"], p + ".dataTable", {"location": dict, "rows": list}):
                for i, r in enumerate(x["dataTable"].get("rows", [])):
                    row(r, f"{p}.dataTable.rows[{i}]")
            if "docString" in x:
                req(x["docString"], p + ".docString", {"location": dict, "content": str, "delimiter": str}, ("mediaType",))
                if "mediaType" in x["docString"] and not isinstance(x["docString"]["mediaType"], str):
                    errs.append(f"{p}.docString.mediaType: not a string")

    def background(x, p):
        if req(x, p, {"id": str, "location": dict, "keyword": str, "name": str, "description": str, "steps": list}):
            for i, s in enumerate(x.get("steps", [])):
                step(s, f"{p}.steps[{i}]")

    def scenario(x, p):
        if req(x, p, {"id": str, "tags": list, "location": dict, "keyword": str, "name": str, "description": str,
                      "steps": list, "examples": list}):
            for i, t in enumerate(x.get("tags", [])):
                tag(t, f"{p}.tags[{i}]")
            for i, s in enumerate(x.get("steps", [])):
                step(s, f"{p}.steps[{i}]")
            for i, e in enumerate(x.get("examples", [])):
                q = f"{p}.examples[{i}]"
                if req(e, q, {"id": str, "tags": list, "location": dict, "keyword": str, "name": str, "description": str,
                              "tableBody": list}, ("tableHeader",)):
                    for j, t in enumerate(e.get("tags", [])):
                        tag(t, f"{q}.tags[{j}]")
                    if "tableHeader" in e:
                        row(e["tableHeader"], q + ".tableHeader")
                    for j, r in enumerate(e.get("tableBody", [])):
                        row(r, f"{q}.tableBody[{j}]")

    def children(cs, p, allow_rule):
        for i, c in enumerate(cs):
            q = f"{p}[{i}]"
            if not isinstance(c, dict) or len(c) != 1:
                errs.append(f"{q}: not a single-key child")
                continue
            (k, v), = c.items()
            if k == "background":
                background(v, q + ".background")
            elif k == "scenario":
                scenario(v, q + ".scenario")
            elif k == "rule" and allow_rule:
                if req(v, q + ".rule", {"id": str, "tags": list, "location": dict, "keyword": str, "name": str,
                                        "description": str, "children": list}):
                    for j, t in enumerate(v.get("tags", [])):
                        tag(t, f"{q}.rule.tags[{j}]")
                    children(v.get("children", []), q + ".rule.children", False)
            else:
                errs.append(f"{q}: unexpected child kind {k}")

    if not isinstance(env, dict) or len(env) != 1:
        return ["envelope does not have exactly one key"]
    (kind, body), = env.items()
    if kind == "source":
        req(body, "source", {"uri": str, "data": str, "mediaType": str})
        if body.get("mediaType") != "text/x.cucumber.gherkin+plain":
            errs.append("source.mediaType: not the Gherkin media type")
    elif kind == "gherkinDocument":
        if req(body, "gherkinDocument", {"comments": list, "uri": str}, ("feature",)):
            for i, c in enumerate(body.get("comments", [])):
                if req(c, f"comments[{i}]", {"location": dict, "text": str}):
                    loc(c["location"], f"comments[{i}].location")
            if "feature" in body and req(body["feature"], "feature", {"tags": list, "location": dict, "language": str,
                                                                      "keyword": str, "name": str, "description": str,
                                                                      "children": list}):
                for i, t in enumerate(body["feature"].get("tags", [])):
                    tag(t, f"feature.tags[{i}]")
                children(body["feature"].get("children", []), "feature.children", True)
    elif kind == "pickle":
        if req(body, "pickle", {"astNodeIds": list, "id": str, "tags": list, "name": str, "language": str, "steps": list, "uri": str}):
            for i, t in enumerate(body.get("tags", [])):
                req(t, f"pickle.tags[{i}]", {"astNodeId": str, "name": str})
            for i, s in enumerate(body.get("steps", [])):
                q = f"pickle.steps[{i}]"
                if req(s, q, {"astNodeIds": list, "id": str, "type": str, "text": str}, ("argument",)):
                    if s.get("type") not in PT:
                        errs.append(f"{q}.type: {s.get('type')!r} not in vocabulary")
                    if "argument" in s:
                        a = s["argument"]
                        if not isinstance(a, dict) or set(a) - {"dataTable", "docString"} or len(a) != 1:
                            errs.append(f"{q}.argument: bad shape")
                        elif "docString" in a:
                            req(a["docString"], q + ".argument.docString", {"content": str}, ("mediaType",))
                        else:
                            if req(a["dataTable"], q + ".argument.dataTable", {"rows": list}):
                                for r in a["dataTable"]["rows"]:
                                    if req(r, q + ".row", {"cells": list}):
                                        for c in r["cells"]:
                                            req(c, q + ".cell", {"value": str})
    elif kind == "parseError":
        if req(body, "parseError", {"source": dict, "message": str}):
            if req(body["source"], "parseError.source", {"uri": str, "location": dict}):
                loc(body["source"]["location"], "parseError.source.location")
    else:
        errs.append(f"unknown envelope kind {kind}")
    return errs


def run_C17(ctx: Ctx) -> Result:
    res = streams.events_stream(ctx.rng, ctx.n(500, 5000))
    rng = ctx.rng
    # the three print options are read when a source is handled: replacing or mutating `options` on a live stream
    # object takes effect for the next source
    from gherkin.stream.gherkin_events import GherkinEvents as _GE
    ev_src = {"source": {"uri": "u", "data": "Feature: f\n  Scenario: s\n    Given a\n", "mediaType": "text/x.cucumber.gherkin+plain"}}
    combos = list(itertools.product([False, True], repeat=3))
    for a_ in combos:
        for b_ in combos:
            if a_ == b_:
                continue
            for how in ("replace", "mutate"):
                ge = _GE(_GE.Options(*a_))
                kinds_a = [sorted(e.keys())[0] for e in ge.enum(ev_src)]
                if how == "replace":
                    ge.options = _GE.Options(*b_)
                else:
                    ge.options.print_source, ge.options.print_ast, ge.options.print_pickles = b_
                kinds_b = [sorted(e.keys())[0] for e in ge.enum(ev_src)]
                want_b = [sorted(e.keys())[0] for e in _GE(_GE.Options(*b_)).enum(ev_src)]
                if kinds_b != want_b:
                    res.fail("options", {"first_options": a_, "second_options": b_, "how": how}, kinds_b, want_b,
                             "after its options were changed a stream object still yields the envelope kinds of its old options")
                    break
    res.note({"options_changed_on_live_stream": True}, True)
    # envelopes of FILES (non-ASCII text included) are the same under every interpreter mode / locale
    env_matrix(res, [d for d in streams.corpus_docs() if any(ord(c) > 127 for c in d)][: ctx.n(40, 1000)]
               + ["# language: ru\nФункция: ф\n  Сценарий: с\n    Дано а\n", "Feature: ascii\n  Scenario: s\n    Given a\n", "Feature: é\n  Scenario: 😀\n    Given | x\n      | ☃ |\n"])
    corpus_cli_events(res, limit=None if ctx.thorough else 12)
    # the CLI's option mapping: all 8 combinations on two files vs the stream API in-process
    from gherkin.stream.source_events import SourceEvents as _SE
    files = [os.path.join("..", "testdata", "good", "rule.feature"), os.path.join("..", "testdata", "bad", "multiple_parser_errors.feature")]
    for combo in itertools.product([False, True], repeat=3):
        flags = [f for f, on in zip(["--no-source", "--no-ast", "--no-pickles"], combo) if not on]
        rc, out, err = cli("generate_events", flags + files)
        cwd = os.getcwd()
        os.chdir(os.path.join(core.REPO, "python"))
        try:
            ev = impl.GherkinEvents(impl.GherkinEvents.Options(*combo))
            want = [e for se in _SE(files).enum() for e in ev.enum(se)]
        finally:
            os.chdir(cwd)
        try:
            got = [json.loads(l) for l in out.splitlines() if l.strip()]
        except Exception:
            got = out[:200]
        res.note({"cli_flags": flags}, True)
        if rc != 0 or got != json.loads(json.dumps(want)):
            res.fail("cli", {"command": "python -m scripts.generate_events " + " ".join(flags + files)}, got if rc == 0 else err[-300:],
                     "stream API output", "generate_events.py prints something else than GherkinEvents yields for these options")
    # the source envelope carries the file's text unchanged (whatever its line endings)
    from gherkin.stream.source_events import SourceEvents
    d_ = os.path.join(ctx.scratch.dir, "src")
    os.makedirs(d_, exist_ok=True)
    texts = ["Feature: f\r\n  Scenario: s\r\n    Given a\r\n", "Feature: f\n  Scenario: s\r\n    Given a\r", "Feature: f\rx\n",
             "\ufeffFeature: bom\n", "Feature: é😀\n\n\n", ""] + [gens.structured(rng).replace("\n", "\r\n") for _ in range(ctx.n(10, 100))]
    paths = []
    for k, t in enumerate(texts):
        try:
            raw = t.encode("utf8")
        except UnicodeEncodeError:
            continue
        pth = os.path.join(d_, f"s{k}.feature")
        open(pth, "wb").write(raw)
        paths.append((pth, raw.decode("utf8")))
    paths = paths + paths[:2] + paths[:1]      # a path may be given more than once: every occurrence is a source, in the order given
    evs_ = list(SourceEvents([p for p, _ in paths]).enum())
    if len(evs_) != len(paths) or [e.get("source", {}).get("uri") for e in evs_] != [p for p, _ in paths]:
        res.fail("file", {"paths": [os.path.basename(p) for p, _ in paths]}, [os.path.basename(str(e.get("source", {}).get("uri"))) for e in evs_],
                 [os.path.basename(p) for p, _ in paths], "SourceEvents does not yield one source envelope per given path, in the order given")
    for (pth, want), ev in zip(paths, evs_):
        res.note({"file_text": want}, True)
        got = ev["source"]
        if got.get("data") != want or got.get("uri") != pth or got.get("mediaType") != "text/x.cucumber.gherkin+plain":
            res.fail("file", {"file_text": want}, got, {"uri": pth, "data": want, "mediaType": "text/x.cucumber.gherkin+plain"},
                     "source envelope does not carry the file's text unchanged: " + str(first_diff(got.get("data"), want)))
    extra = ["Feature: f\n  Scenario Outline: o\n    And first is a conjunction\n    Examples:\n      | a |\n      | 1 |\n"]
    for _ in range(ctx.n(400, 4000)):
        opts = tuple(rng.random() < 0.6 for _ in range(3))
        srcs = [(f"u{k}", rng.choice(extra) if rng.random() < 0.1 else gens.structured(rng) if rng.random() < 0.6 else gens.noisy(rng))
                for k in range(rng.randrange(1, 4))]
        srcs = [(u, d) for u, d in srcs if not impl.is_existing_path(d)]
        stop = rng.random() < 0.25
        out = impl.stream(opts, srcs, stop=stop)
        case = {"options": opts, "sources": srcs, "stop": stop}
        res.note(case, True)
        # C17_stop_mode_accepted / _rejected: a stop-mode stream = the collecting stream with the error
        # envelopes of a rejected source cut down to the first (ids are compared up to the offset a
        # shorter rejected run leaves: only envelope kinds, messages and locations here)
        coll = impl.stream(opts, srcs) if stop else None
        for k_, ((uri, data), envs) in enumerate(zip(srcs, out)):
            bad = None
            kinds = [next(iter(e)) for e in envs]
            if stop and coll is not None:
                ck = [next(iter(e)) for e in coll[k_]]
                if ck and all(k == "parseError" for k in ck):
                    if envs != coll[k_][:1]:
                        bad = "stop-mode stream: a rejected source must yield exactly the first parseError of the collecting stream"
                elif kinds != ck:
                    bad = f"stop-mode stream: envelope kinds {kinds[:6]} differ from the collecting stream's {ck[:6]}"
            if kinds and all(k == "parseError" for k in kinds):
                if any(e["parseError"]["source"]["uri"] != uri for e in envs):
                    bad = "parseError with a different uri"
            else:
                want = (["source"] if opts[0] else []) + (["gherkinDocument"] if opts[1] else [])
                if kinds[: len(want)] != want or any(k != "pickle" for k in kinds[len(want):]) or (not opts[2] and len(kinds) != len(want)):
                    bad = f"envelope order {kinds[:6]} does not match the options {opts}"
                for e in envs:
                    if "source" in e and (e["source"]["data"] != data or e["source"]["uri"] != uri):
                        bad = "source envelope does not carry the text unchanged"
                    if "gherkinDocument" in e and e["gherkinDocument"].get("uri") != uri:
                        bad = "gherkinDocument without the uri"
            for e in envs:
                try:
                    rt = json.loads(json.dumps(e))
                except Exception as ex:
                    bad = f"envelope is not JSON-serialisable: {ex}"
                    continue
                errs = shape_errors(rt)
                if errs:
                    bad = "envelope shape: " + "; ".join(errs[:3])
            if bad:
                res.fail("stream", {"options": opts, "sources": [(uri, data)], "stop": stop}, kinds, "well-formed messages in order", bad)
    return res


def run_C18(ctx: Ctx) -> Result:
    res = Result()
    # tag/comment/blank runs before Examples / Scenario / Rule lines, nested and repeated look-ahead, as real text
    pieces = {"T": "  @t\n", "C": "  # c\n", "B": "\n", "E": "    Examples:\n      | a |\n      | 1 |\n", "S": "  Scenario: s\n    Given <a>\n",
              "R": "  Rule: r\n", "X": "  unexpected text\n", "W": "  @bad tag\n"}
    docs = []
    L = ctx.n(4, 6)
    for n in range(0, L + 1):
        for run in itertools.product("TCB", repeat=n):
            for end in "ESRX":
                docs.append("Feature: f\n  Scenario Outline: o\n    Given <a>\n" + "".join(pieces[c] for c in run) + pieces[end])
    for _ in range(ctx.n(500, 5000)):
        docs.append("Feature: f\n  Scenario Outline: o\n    Given <a>\n" +
                    "".join(pieces[ctx.rng.choice("TTCBESRXW")] for _ in range(ctx.rng.randrange(2, 14))))
    # very long look-ahead runs (any bound on the number of buffered lines shows here): ~1 000 … 9 000 lines (thorough: 20 000)
    for n_, end in ((1030, "E"), (4200, "S"), (ctx.n(9000, 20000), "E")):
        docs.append("Feature: f\n  Scenario Outline: o\n    Given <a>\n" + pieces["T"] +
                    "".join(pieces["TCB"[i % 3]] for i in range(n_)) + pieces[end])
    for n_ in (15, 16, 17, 18, 25, 40, 70):     # long runs through the look-ahead queue
        for end in "ESRX":
            docs.append("Feature: f\n  Scenario Outline: o\n    Given <a>\n" + pieces["T"] +
                        "".join(pieces[ctx.rng.choice("TCB")] for _ in range(n_)) + pieces[end])
    docs += streams.corpus_docs() + streams.doc_mix(ctx.rng, ctx.n(500, 5000))
    res.merge(streams.parse_stream(docs, proj_builds, modes=(False,)))
    # one Parser instance through the whole sequence, every document twice (equal errors recur)
    shared_parser = impl.Parser(impl.RecordingBuilder(impl.id_gen(0)))
    # documents whose parse ABORTS while the look-ahead queue still holds lines: a builder error (ragged table) raised by the
    # tag line that closes the table, in stop mode / as the eleventh error; whatever is parsed next on the same Parser must
    # not see those lines
    aborting = ["Feature: f\n  Scenario: s\n    Given x\n      | a | b |\n      | c |\n  @t\n  @u\n\n  # c\n  Scenario: stale\n    Given y\n",
                "Feature: f\n  Scenario Outline: s\n    Given <a>\n    Examples:\n      | a |\n      | 1 | 2 |\n    @t\n    @u\n    Examples: stale\n      | a |\n",
                "Feature: f\n" + "".join(f"  bad line {i_}\n  Scenario: s{i_}\n" for i_ in range(10)) +
                "    Given x\n      | a | b |\n      | c |\n  @t\n  @u\n  Scenario: stale\n    Given y\n"]
    hist_docs = [d for d in docs[:: ctx.n(3, 1)] for _ in (0, 1)]
    for k_, a_doc in enumerate(aborting):
        hist_docs.insert(min(len(hist_docs), 2 + 5 * k_), a_doc)
        hist_docs.insert(min(len(hist_docs), 3 + 5 * k_), "Feature: after\n  Scenario: clean\n    Given z\n")
    broke = False
    for src in hist_docs:
        if impl.is_existing_path(src):
            continue
        for stop_ in (False, True):
            o = impl.parse(src, stop_, parser=shared_parser)
            f_ = impl.parse(src, stop_)
            a_, b_ = proj_builds(o), proj_builds(f_)
            res.stats["history_parses_one_parser"] += 1
            if a_ != b_:
                res.fail("history", {"source": src, "stop": stop_, "note": "second and later parses through one Parser instance (both modes alternating)"}, a_, b_,
                         "a reused Parser delivers/reports different lines than a fresh one: " + str(first_diff(a_, b_)))
                broke = True
                break
        if broke:
            break
    huge_oracle(res, ctx, ("run", "line"))
    # direct oracle: accepted → builds are lines 1..n then EOF; rejected (below cap) → partition
    for src in docs:
        if impl.is_existing_path(src):
            continue
        o = impl.parse(src, False)
        nl = src.count("\n") + (0 if src.endswith("\n") or not src else 1)
        bl = o.get("buildLines", [])
        case = {"source": src, "stop": False, "default_dialect": "en"}
        if "ok" in o:
            if bl != list(range(1, nl + 2)) or o["builds"][-1] != "EOF" or "EOF" in o["builds"][:-1]:
                res.fail("parse", case, bl, list(range(1, nl + 2)), "builder did not receive each line once, in order, then one EOF")
        elif "errors" in o and len(o["errors"]) <= 10:
            unexpected = [e["location"]["line"] for e in o["errors"] if e["type"].startswith("Unexpected")]
            both = sorted(bl + unexpected)
            if both != list(range(1, nl + 2)):
                res.fail("parse", case, {"built": bl, "unexpected": unexpected}, list(range(1, nl + 2)),
                         "a line was neither built nor reported as unexpected, or both")
    # Model/Formatter.lean (parseWithF): the real Parser(TokenFormatterBuilder()) vs the model of the same run — the
    # listing of an accepted run, or the exact error list; with this builder a ragged table is NOT an error
    def fmt_impl(src_, stop_):
        p_ = impl.Parser(impl.TokenFormatterBuilder())
        p_.stop_at_first_error = stop_
        try:
            return {"ok": p_.parse(src_, impl.TokenMatcher())}
        except impl.CompositeParserException as e_:
            return {"errors": [impl.err_json(x) for x in e_.errors], "composite": True}
        except impl.ParserError as e_:
            return {"errors": [impl.err_json(e_)], "composite": False}
        except Exception as e_:
            return {"crash": f"{type(e_).__name__}: {e_}"}
    ragged = ["Feature: f\n  Scenario: s\n    Given x\n      | a | b |\n      | c |\n    When y\n",
              "Feature: f\n  Scenario Outline: s\n    Given <a>\n    Examples:\n      | a |\n      | 1 | 2 |\n      |\n  @t\n  Scenario: u\n",
              "Feature: f\n  Scenario: s\n    Given x\n      | a |\n      | c | d |\n  oops\n      | e | f | g |\n"]
    fdocs = [d_ for d_ in ragged + docs if len(d_) < 20000 and not impl.is_existing_path(d_)][: ctx.n(400, 3000)]
    for stop_ in (False, True):
        outs_f = driver.batch([driver.request("tokens", stop_, "en", d_) for d_ in fdocs])
        for d_, m_ in zip(fdocs, outs_f):
            i_ = fmt_impl(d_, stop_)
            pm_ = {k_: v_ for k_, v_ in m_.items() if k_ in ("ok", "errors", "composite", "crash")}
            res.note({"source": d_, "stop": stop_, "builder": "TokenFormatterBuilder"}, "ok" in i_)
            res.stats["formatter_runs"] += 1
            res.stats["formatter_accepted"] += int("ok" in i_)
            if i_ != pm_:
                res.fail("tokens", {"source": d_, "stop": stop_, "builder": "TokenFormatterBuilder"}, i_, pm_,
                         "Parser(TokenFormatterBuilder()).parse differs from the model of the same run (Model/Formatter.lean): " + str(first_diff(i_, pm_)))
    # token listings of the acceptance corpus (finite comparison, a test)
    import glob
    n = 0
    for f in sorted(glob.glob(os.path.join(core.REPO, "testdata", "good", "*.feature"))):
        tk = f + ".tokens"
        if not os.path.exists(tk):
            continue
        src = open(f, encoding="utf8", newline="").read()
        p = impl.Parser(impl.TokenFormatterBuilder())
        got = p.parse(impl.TokenScanner(f), impl.TokenMatcher())
        want = open(tk, encoding="utf8", newline="").read()
        n += 1
        if got.strip("\n") != want.replace("\r\n", "\n").strip("\n") and got.replace("\r", "").strip("\n") != want.replace("\r", "").strip("\n"):
            res.fail("tokens", {"file": os.path.relpath(f, core.REPO)}, got[:300], want[:300], "token listing differs from the reference listing")
    res.stats["reference_listings"] = n
    refs = [f for f in sorted(glob.glob(os.path.join(core.REPO, "testdata", "good", "*.feature"))) if os.path.exists(f + ".tokens")]
    batch = refs[: (len(refs) if ctx.thorough else 10)]
    rc, out, err = cli("generate_tokens", [os.path.join("..", os.path.relpath(f, core.REPO)) for f in batch])
    want = "".join(open(f + ".tokens", encoding="utf8", newline="").read().replace("\r\n", "\n").rstrip("\n") + "\n" for f in batch)
    if rc != 0 or out.replace("\r", "").strip("\n") != want.replace("\r", "").strip("\n"):
        res.fail("cli", {"command": "python -m scripts.generate_tokens <" + str(len(batch)) + " corpus files>"},
                 (out if rc == 0 else err)[-300:], want[-300:], "generate_tokens.py output differs from the reference token listings")
    shared_fmt = impl.Parser(impl.TokenFormatterBuilder())
    seq = sorted(glob.glob(os.path.join(core.REPO, "testdata", "bad", "*.feature")) +
                 glob.glob(os.path.join(core.REPO, "testdata", "good", "*.feature")),
                 key=lambda f: (os.path.basename(f), f))
    for f in seq:
        src = open(f, encoding="utf8", newline="").read()
        try:
            fresh_listing = impl.Parser(impl.TokenFormatterBuilder()).parse(src, impl.TokenMatcher())
        except Exception:
            fresh_listing = None
        try:
            shared_listing = shared_fmt.parse(src, impl.TokenMatcher())
        except Exception:
            shared_listing = None
        if shared_listing != fresh_listing:
            res.fail("history", {"file": os.path.relpath(f, core.REPO), "note": "one Parser(TokenFormatterBuilder()) reused"},
                     (shared_listing or "")[:300], (fresh_listing or "")[:300],
                     "token listing from a reused parser differs from a fresh one (tokens of an earlier document leak)")
            break
    return res


def md_compare(res: Result, cases, shared=None):
    """Markdown matcher vs the model on (kind, dialect, line) cases.  ONE matcher instance per dialect
    serves the whole enumeration (recognition of a line must not depend on what the matcher saw before)."""
    from gherkin.token_matcher_markdown import GherkinInMarkdownTokenMatcher
    shared = {} if shared is None else shared

    def md_match(kind, dialect, line):
        m = shared.get(dialect)
        if m is None:
            m = shared[dialect] = GherkinInMarkdownTokenMatcher(dialect)
        tok = impl.Token(impl.GherkinLine(line, 1), {"line": 1})
        try:
            r = getattr(m, "match_" + kind)(tok)
            r = "matched" if r else "no"
        except Exception as e:
            r = f"crash {type(e).__name__}: {e}"
        return {"res": r, "token": impl.token_json(tok)}
    reqs = [driver.request("mdmatch", impl.KINDS.index(k), d, l) for k, d, l in cases]
    outs = driver.batch(reqs)
    for (k, d, l), m in zip(cases, outs):
        case = {"kind": k, "dialect": d, "line": l}
        i = md_match(k, d, l)
        pi = {"res": i["res"], "keyword": i["token"]["keyword"], "text": i["token"]["text"], "column": i["token"]["column"],
              "items": i["token"]["items"]} if i["res"] == "matched" else {"res": i["res"]}
        pm = {"res": m["res"], "keyword": m["token"]["keyword"], "text": m["token"]["text"], "column": m["token"]["column"],
              "items": m["token"]["items"]} if m["res"] == "matched" else {"res": m["res"]}
        res.note(case, i["res"] == "matched")
        res.stats["matched" if i["res"] == "matched" else "no"] += 1
        if pi != pm:
            res.fail("mdmatch", case, pi, pm, first_diff(pi, pm))


MD_TAG_LINES = ["`@a`", "  `@a` `@b`", "text `@a` more `@b c` `x` `@`", "no tags", "`@a``@b`", "\t`@é` `@😀`",
                "`@smoke-slow` `@smoke`", "`@a` `@a`", "mail bob@wip.example or see `@wip`", "  `@x` @x `@x`", "`@ab` `@b` `@a`",
                "`x@a` `@a`", "  owner: bob@dev - tags: `@dev` `@slow`", "😀 @wip is not a tag but `@wip` is",
                "`user@host` `@host` `@user@host` `@host`", "@a `@a` @a `@a`", "\u3000`@a`\u00a0`@b`"]


def run_C19(ctx: Ctx) -> Result:
    res = Result()
    D = impl.dialects()
    title_roles = [("feature", "FeatureLine"), ("rule", "RuleLine"), ("background", "BackgroundLine"),
                   ("scenario", "ScenarioLine"), ("scenarioOutline", "ScenarioLine"), ("examples", "ExamplesLine")]
    cases = []
    for name in D:
        for role, kind in title_roles:
            for kw in D[name][role]:
                for depth in range(0, 8):
                    for ind in ("", " ", "   "):
                        cases.append((kind, name, ind + "#" * depth + " " + kw + ": title \n"))
                cases.append((kind, name, "##" + kw + ": no blank\n"))
                cases.append((kind, name, kw + ": no header\n"))
        for role in ("given", "when", "then", "and", "but"):
            for kw in D[name][role]:
                for b in "*+-":
                    for ind in ("", "  "):
                        cases.append(("StepLine", name, ind + b + " " + kw + "text \n"))
                cases.append(("StepLine", name, kw + "no bullet\n"))
    for ind in range(0, 9):
        for row in ("| a | b |", "|---|:-:|", "| - |", "|a|---|", "||", "| -5 | 3 |", "| --verbose | on |", "| :-) | x |",
                    "| a- | -b- |", "| -: x |", "|:--:x|", "| --- x |", "| :---: |", "| ::-- |", "| - - |"):
            cases.append(("TableRow", "en", " " * ind + row + "\n"))
    for b_ in ["\u00a0", "\u3000", "\u2003", "\x0b", "\x0c", "\x85", "\x1f", "\t", "\u2028", "\u200b", "\ufeff"]:
        for depth in (1, 2, 6, 7):
            for name_, role_, kind_ in (("en", "feature", "FeatureLine"), ("en", "scenario", "ScenarioLine"), ("fr", "rule", "RuleLine"),
                                        ("ja", "examples", "ExamplesLine"), ("en", "background", "BackgroundLine")):
                cases.append((kind_, name_, "#" * depth + b_ + D[name_][role_][0] + ": t\n"))
        for name_ in ("en", "fr", "ja"):
            kw_ = D[name_]["given"][-1]
            cases.append(("StepLine", name_, "*" + b_ + kw_ + "x\n"))
            cases.append(("StepLine", name_, b_ + "-" + b_ + b_ + kw_ + "x\n"))
    for indent_ in ["\u00a0\u00a0", "\u3000 ", " \u2003 ", "\t\u00a0", "\u00a0", "\u3000\u3000\u3000\u3000\u3000\u3000", "\x0b\x0c", "\x85 "]:
        cases.append(("TableRow", "en", indent_ + "| a | b |\n"))
    for line in MD_TAG_LINES + ["".join(t) for t in gens.strings_over(["`", "@", "a", " ", "b"], ctx.n(6, 7))]:
        cases.append(("TagLine", "en", line + "\n"))
    md_compare(res, cases)
    return res


PARSE_PROJ.update({"C01": proj_outcome, "C02": lambda o: {"class": outcome_class(o)}, "C03": proj_ast_text,
                   "C04": proj_locations, "C05": proj_keywords, "C11": proj_ids, "C12": proj_tables,
                   "C13": proj_docstrings, "C14": proj_errors, "C18": proj_builds})
PICKLE_PROJ.update({"C06": proj_pickle_origin, "C07": proj_pickle_steps, "C08": proj_pickle_tags,
                    "C09": proj_pickle_text, "C10": proj_pickle_types, "C11": proj_pickle_ids})

GEN_RULE = ("cases are documents from the acceptance corpus, a structured mostly-valid generator (any dialect, layout, "
            "Unicode), line mutations of those, and noisy line soup; distinct = distinct canonical input; ")

PROPS = {
    "C01": dict(modules=["C01", "C01Linear", "C01NoCrash", "C01NoCrashAll", "C01Pipeline", "C17Stop"], run=run_C01, translators=["parser_table", "dialects"],
                rule=GEN_RULE + "plus Unicode soup with surrogates/NUL and all strings ≤ L over a 10-symbol alphabet; non-trivial = any input"),
    "C02": dict(modules=["C02", "C02Tree", "C02Text", "C02Siblings"], run=run_C02, translators=["parser_table", "grammar", "siblings"], exhaustive=True,
                rule="all line-kind sequences up to length L through the real Parser (stub matcher) vs the grammar reading (Spec.Sentence) and the table model's events; sampled longer ones; real-text documents; non-trivial = accepted"),
    "C03": dict(modules=["C03", "C03Tree", "C03Parse", "C03Doc", "C03Fields", "C03Roundtrip", "C03Roundtrip2", "C03Roundtrip3", "C03Roundtrip4", "C03Roundtrip5"], run=run_C03, translators=["parser_table", "dialects"], rule=GEN_RULE + "non-trivial = accepted document"),
    "C04": dict(modules=["C04", "C03Doc", "C14ErrorsDoc"], run=run_C04, translators=["parser_table", "dialects"], rule=GEN_RULE + "plus all rows/tag lines ≤ L over the distinguishing classes; non-trivial = any"),
    "C05": dict(modules=["C05", "C03Doc"], run=run_C05, translators=["dialects", "dialects_master"], exhaustive=True,
                rule="complete enumeration dialect × keyword × role × layout through the real matcher; header spellings; one generated document per dialect; non-trivial = matched"),
    "C06": dict(modules=["C06"], run=make_compile_run(proj_pickle_origin), rule=GEN_RULE + "and synthetic ASTs decoded from random descriptors; non-trivial = at least one pickle"),
    "C07": dict(modules=["C07"], run=make_compile_run(proj_pickle_steps), rule=GEN_RULE + "and synthetic ASTs (several backgrounds/rules); non-trivial = at least one pickle"),
    "C08": dict(modules=["C08"], run=make_compile_run(proj_pickle_tags), rule=GEN_RULE + "and synthetic ASTs with tags at all four levels; non-trivial = at least one pickle"),
    "C09": dict(modules=["C09"], run=make_compile_run(proj_pickle_text, extra_C09), exhaustive=True,
                rule="all (header, template) pairs with templates ≤ L over an adversarial alphabet × 14 headers; synthetic and parsed outlines; non-trivial = substitution changed the text"),
    "C10": dict(modules=["C10"], run=make_compile_run(proj_pickle_types, extra_C10), exhaustive=True,
                rule="all keyword-type sequences ≤ L over 5 types × background split × {plain, outline} as real text; synthetic ASTs; non-trivial = at least one pickle"),
    "C11": dict(modules=["C11", "C11Builder", "C11Tree", "C03Parse", "C11Pipeline"], run=make_compile_run(proj_pickle_ids, extra_C11), rule=GEN_RULE + "plus sequences of sources through one stream; non-trivial = ids were drawn"),
    "C12": dict(modules=["C12", "C12Doc", "C14ErrorsDoc"], run=run_C12, translators=["parser_table"], exhaustive=True,
                rule="every row string ≤ L over {|, \\, n, space, tab, other} plus Unicode rows; generated ragged/rectangular tables; non-trivial = at least one cell"),
    "C13": dict(modules=["C13", "C03Doc"], run=run_C13, translators=["parser_table"], rule="doc strings with content lines from every Gherkin-looking kind, both delimiters, all indentation relations; matcher in the content state; non-trivial = accepted"),
    "C14": dict(modules=["C14", "C14Stop", "C14Recover", "C14Recover2", "C14ErrorsDoc"], run=run_C14, translators=["parser_table"], exhaustive=True,
                rule=GEN_RULE + "both error modes; all line-kind sequences ≤ L for error positions; non-trivial = rejected"),
    "C15": dict(modules=["C15"], run=run_C15, exhaustive=True,
                rule="all ordered pairs (thorough: triples) of 12 state-perturbing documents through one Parser+TokenMatcher, sampled longer histories, random schedules of 2–3 concurrent parses gated at TokenScanner.read; non-trivial = any"),
    "C16": dict(modules=["C16", "C16Doc", "C16Doc2", "C16Doc3", "C16Doc3Tie", "C16Doc4", "C16Doc5", "C16Doc6", "C16Doc7"], run=run_C16, rule=GEN_RULE + "× {CRLF, final newline, trailing blanks, indentation, blank line, comment line} at sampled admissible positions; file loading; non-trivial = any"),
    "C17": dict(modules=["C17", "C17Stop"], run=run_C17, rule="sequences of 1–3 sources × 8 option combinations through one GherkinEvents; non-trivial = at least one envelope"),
    "C18": dict(modules=["C18", "C18Order", "C18Pure", "C18Listing", "C18AnyRun"], run=run_C18, translators=["parser_table"], exhaustive=True,
                rule="all tag/comment/blank runs ≤ L before Examples/Scenario/Rule/unexpected lines as real text, sampled longer arrangements, corpus token listings; non-trivial = any"),
    "C19": dict(modules=["C19"], run=run_C19, translators=["dialects"], exhaustive=True,
                rule="complete enumeration dialect × keyword × header depth 0–7 / bullet × indentation through the real Markdown matcher; table indentation 0–8; tag lines; non-trivial = matched"),
}
