"""Common machinery of every check: regenerate the model's generated parts from /repo, build the
Lean library and driver, audit axioms, write evidence, decide the exit status."""
from __future__ import annotations

import fcntl
import hashlib
import json
import os
import re
import shutil
import subprocess
import sys
import tempfile
import time
import traceback

VERIF = os.path.dirname(os.path.dirname(os.path.abspath(__file__)))
REPO = os.environ.get("GHERKIN_REPO", "/repo")
LEAN = os.path.join(VERIF, "lean")
GEN = os.path.join(LEAN, "GherkinVerif", "Gen")
EVIDENCE = os.path.join(VERIF, "evidence")
ALLOWED_AXIOMS = {"propext", "Classical.choice", "Quot.sound"}
FORBIDDEN = re.compile(r"\b(sorry|admit|native_decide|bv_decide|implemented_by)\b|^\s*axiom\s|\bunsafe\s|maxHeartbeats\s+0\b")

TRUSTED_BASE = [
    "Lean 4.33.0 kernel (lake build; leanchecker in the thorough tier)",
    "axioms allowed: propext, Classical.choice, Quot.sound (audited by #print axioms on every run); no sorry/native_decide/bv_decide",
    "translators /verif/translate/*.py (parser.py -> table, gherkin.berp -> grammar, gherkin-languages.json -> dialects, sibling parsers -> tables), each cross-checked behaviourally on every run",
    "correspondence harness /verif/harness (canonical JSON comparison of the Lean driver's output with the real code run in-process); coverage of hand-modelled functions is by enumeration + seeded random generation, reported below",
    "CPython semantics of str/list/dict/re/io.StringIO as modelled in lean/GherkinVerif/Model/Py.lean",
]


class Infra(Exception):
    """infrastructure failure: exit 2, never a violation"""


def sh(cmd, cwd=None, timeout=3600, env=None):
    p = subprocess.run(cmd, cwd=cwd, capture_output=True, text=True, timeout=timeout, env=env)
    return p.returncode, p.stdout, p.stderr


def write_if_changed(path: str, content: str) -> bool:
    try:
        with open(path, encoding="utf8") as f:
            if f.read() == content:
                return False
    except FileNotFoundError:
        pass
    os.makedirs(os.path.dirname(path), exist_ok=True)
    tmp = path + ".tmp"
    with open(tmp, "w", encoding="utf8") as f:
        f.write(content)
    os.replace(tmp, path)
    return True


class BuildLock:
    def __enter__(self):
        os.makedirs(os.path.join(LEAN, ".lake"), exist_ok=True)
        self.f = open(os.path.join(LEAN, ".lake", "verif.lock"), "w")
        fcntl.flock(self.f, fcntl.LOCK_EX)
        return self

    def __exit__(self, *a):
        fcntl.flock(self.f, fcntl.LOCK_UN)
        self.f.close()


def behavioural_parser_table(timeout=300):
    """translate/parser_behaviour.py in a child process: the table observed by driving the real
    `Parser.match_token` exhaustively; raises on failure"""
    p = subprocess.run(["/venv/bin/python", os.path.join(VERIF, "translate", "parser_behaviour.py"), os.path.join(REPO, "python")],
                       capture_output=True, text=True, timeout=timeout)
    try:
        t = json.loads(p.stdout)
    except Exception:
        raise RuntimeError("behavioural extraction failed: " + (p.stderr or p.stdout)[-400:])
    if "error" in t:
        raise RuntimeError("behavioural extraction: " + t["error"])
    return t


def current_parser_table():
    """the transition table of /repo's parser.py: read syntactically (translate/parser_table.py); if the file
    is not in the shape that front end accepts, recovered behaviourally (translate/parser_behaviour.py), with the
    state comments of the last generated table.  Raises the syntactic ShapeError if both fail."""
    sys.path.insert(0, VERIF)
    from translate import parser_table
    src = open(os.path.join(REPO, "python/gherkin/parser.py"), encoding="utf8").read()
    try:
        return parser_table.extract(src)
    except Exception as e_syn:
        try:
            t = behavioural_parser_table()
        except Exception as e_beh:
            raise type(e_syn)(f"{e_syn}; and {e_beh}")
        try:
            old = open(os.path.join(GEN, "ParserTable.lean"), encoding="utf8").read()
            comments = {int(a): json.loads(b) for a, b in re.findall(r'id := (\d+), comment := ("(?:[^"\\\\]|\\\\.)*")', old)}
            for r in t["rows"]:
                r["comment"] = comments.get(r["id"], "")
        except Exception:
            pass
        return t


def regenerate() -> dict:
    """Run every translator on the current /repo tree.  Returns {name: {"changed": bool, "error": str|None}}."""
    sys.path.insert(0, VERIF)
    from translate import parser_table, dialects, berp_grammar, siblings  # noqa
    status = {}

    def run(name, fn):
        try:
            status[name] = {"changed": fn(), "error": None}
        except Exception as e:  # translator could not read the source in the expected shape
            status[name] = {"changed": False, "error": f"{type(e).__name__}: {e}"}

    def t_table():
        table = current_parser_table()
        via["parser_table"] = table.get("via", "syntactic")
        return write_if_changed(os.path.join(GEN, "ParserTable.lean"), parser_table.to_lean(table))

    def t_dialects():
        a = dialects.load(os.path.join(REPO, "python/gherkin/gherkin-languages.json"))
        return write_if_changed(os.path.join(GEN, "Dialects.lean"),
                                dialects.to_lean(a, "Gen", "python/gherkin/gherkin-languages.json"))

    def t_master():
        a = dialects.load(os.path.join(REPO, "gherkin-languages.json"))
        return write_if_changed(os.path.join(GEN, "DialectsMaster.lean"),
                                dialects.to_lean(a, "GenMaster", "gherkin-languages.json"))

    def t_grammar():
        g = berp_grammar.parse(open(os.path.join(REPO, "gherkin.berp"), encoding="utf8").read())
        return write_if_changed(os.path.join(GEN, "Grammar.lean"), berp_grammar.to_lean(g))

    def t_siblings():
        return write_if_changed(os.path.join(GEN, "Siblings.lean"), siblings.to_lean(REPO))

    via = {}
    run("parser_table", t_table)
    status["parser_table"]["via"] = via.get("parser_table")
    run("dialects", t_dialects)
    run("dialects_master", t_master)
    run("grammar", t_grammar)
    run("siblings", t_siblings)
    return status


def lake_build(targets, timeout=1500):
    """lake build <targets>; returns (ok, output)."""
    with BuildLock():
        rc, out, err = sh(["lake", "build"] + list(targets), cwd=LEAN, timeout=timeout)
    return rc == 0, out + err


def failing_decls(build_output: str):
    """map lake's `error: File.lean:line:col:` lines to (file, line, nearest declaration name)"""
    res = []
    for m in re.finditer(r"error: (?:\./)?(\S+?\.lean):(\d+):(\d+): (.*)", build_output):
        path, line = m.group(1), int(m.group(2))
        full = path if os.path.isabs(path) else os.path.join(LEAN, path)
        decl = None
        try:
            lines = open(full, encoding="utf8").read().splitlines()
            for i in range(min(line, len(lines)) - 1, -1, -1):
                mm = re.match(r"\s*(?:theorem|lemma|def|example|instance)\s+([\w.']+)?", lines[i])
                if mm:
                    decl = mm.group(1) or "example"
                    break
        except OSError:
            pass
        res.append({"file": path, "line": line, "decl": decl, "message": m.group(4)[:300]})
    return res


def theorem_names(prop: str):
    path = os.path.join(LEAN, "GherkinVerif", "Props", prop + ".lean")
    names = []
    for l in open(path, encoding="utf8"):
        m = re.match(r"^theorem\s+([\w']+)", l)
        if m:
            names.append(m.group(1))
    return names


def strip_comments(text: str) -> str:
    # remove /- … -/ (nested not needed) and -- … comments
    text = re.sub(r"/-.*?-/", "", text, flags=re.S)
    return re.sub(r"--.*", "", text)


def source_audit():
    """grep the Lean sources for forbidden constructs outside comments"""
    hits = []
    for root, _, files in os.walk(os.path.join(LEAN, "GherkinVerif")):
        for fn in files:
            if fn.endswith(".lean"):
                p = os.path.join(root, fn)
                body = strip_comments(open(p, encoding="utf8").read())
                for i, l in enumerate(body.splitlines(), 1):
                    if FORBIDDEN.search(l):
                        hits.append(f"{os.path.relpath(p, LEAN)}: {l.strip()[:120]}")
    return hits


def axiom_audit(prop: str, names, scratch: str):
    """#print axioms for every property theorem; returns {name: [axioms]} and a list of problems"""
    src = f"import GherkinVerif.Props.{prop}\n" + "".join(f"#print axioms GV.{n}\n" for n in names)
    path = os.path.join(scratch, f"Audit_{prop}.lean")
    with open(path, "w") as f:
        f.write(src)
    rc, out, err = sh(["lake", "env", "lean", path], cwd=LEAN, timeout=900)
    text = out + err
    result, problems = {}, []
    for n in names:
        m = re.search(rf"'GV\.{re.escape(n)}' depends on axioms: \[(.*?)\]", text, re.S)
        if m:
            ax = [a.strip() for a in m.group(1).replace("\n", " ").split(",") if a.strip()]
        elif re.search(rf"'GV\.{re.escape(n)}' does not depend on any axioms", text):
            ax = []
        else:
            problems.append(f"no axiom report for {n}")
            continue
        result[n] = ax
        bad = [a for a in ax if a not in ALLOWED_AXIOMS]
        if bad:
            problems.append(f"{n} depends on {bad}")
    if rc != 0 and not problems:
        problems.append("audit file failed: " + text[-400:])
    return result, problems


class Scratch:
    def __enter__(self):
        self.dir = tempfile.mkdtemp(prefix="gherkin-verif-")
        self.cwd = os.getcwd()
        self.empty = os.path.join(self.dir, "cwd")
        os.makedirs(self.empty)
        os.chdir(self.empty)     # F4: `TokenScanner(text)` opens text as a path when it exists
        return self

    def __exit__(self, *a):
        os.chdir(self.cwd)
        shutil.rmtree(self.dir, ignore_errors=True)


def digest(obj) -> str:
    return hashlib.sha1(json.dumps(obj, sort_keys=True, default=str).encode()).hexdigest()


def write_evidence(prop: str, ev: dict):
    os.makedirs(EVIDENCE, exist_ok=True)
    path = os.path.join(EVIDENCE, prop + ".json")
    with open(path + ".tmp", "w", encoding="utf8") as f:
        json.dump(ev, f, indent=1, ensure_ascii=True, default=str)
    os.replace(path + ".tmp", path)


def load_known_findings():
    with open(os.path.join(VERIF, "known_findings.json"), encoding="utf8") as f:
        return json.load(f)["findings"]
