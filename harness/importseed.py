"""Confirm candidate seeded regressions in a scratch worktree and import the confirmed ones into
/verif/seeded/<id>/ (patch.diff, demo.py, meta.json).

Usage: python -m harness.importseed /tmp/wt/out_C07 [...]
For each candidate N in the directory (patchN.diff, demoN.py, metaN.json): in a fresh scratch
worktree of /repo HEAD — (1) the demo exits 0 on the pristine tree; (2) the patch applies;
(3) the repository's test suite passes with it; (4) the demo exits non-zero with it.
The scratch worktree is removed afterwards."""
from __future__ import annotations

import json
import os
import re
import shutil
import subprocess
import sys

VERIF = os.path.dirname(os.path.dirname(os.path.abspath(__file__)))
REPO = "/repo"
WT = "/tmp/wt/confirm"


def sh(cmd, cwd=None, env=None, timeout=900):
    p = subprocess.run(cmd, cwd=cwd, capture_output=True, text=True, env=env, timeout=timeout, shell=isinstance(cmd, str))
    return p.returncode, p.stdout + p.stderr


def main(dirs):
    sh(["git", "-C", REPO, "worktree", "remove", "--force", WT])
    rc, out = sh(["git", "-C", REPO, "worktree", "add", "--detach", WT, "HEAD"])
    if rc != 0:
        print(out)
        return 2
    env = {**os.environ, "PYTHONPATH": os.path.join(WT, "python")}
    try:
        for d in dirs:
            for f in sorted(os.listdir(d)):
                m = re.match(r"patch(\d+)\.diff$", f)
                if not m:
                    continue
                n = m.group(1)
                patch, demo, meta = (os.path.join(d, x) for x in (f"patch{n}.diff", f"demo{n}.py", f"meta{n}.json"))
                if not (os.path.exists(demo) and os.path.exists(meta)):
                    print(d, n, "incomplete")
                    continue
                md = json.load(open(meta))
                pid = md.get("property") or os.path.basename(d).replace("out_", "")
                base = os.path.basename(d.rstrip("/"))
                rnd = re.match(r"out(\d+)_", base)
                sid = f"{pid}-r{rnd.group(1)}-{n}" if rnd else f"{pid}-{n}"
                grp = re.match(r"out\d+_([A-Z])$", base)
                if grp:
                    sid = f"{pid}-r{rnd.group(1)}{grp.group(1)}-{n}"
                log = {}
                sh(["git", "-C", WT, "checkout", "--", "."])
                rc, out = sh(["/venv/bin/python", demo], cwd=WT, env=env)
                log["demo_on_pristine_exit"] = rc
                rc2, out2 = sh(["git", "-C", WT, "apply", patch])
                log["patch_applies"] = rc2 == 0
                ok = rc == 0 and rc2 == 0
                if ok:
                    rc3, out3 = sh("/venv/bin/python -m pytest -q -p no:cacheprovider 2>&1 | tail -2", cwd=WT)
                    log["tests"] = out3.strip().splitlines()[-1] if out3.strip() else ""
                    ok = " passed" in out3 and "failed" not in out3 and "error" not in out3.lower()
                    rc4, out4 = sh(["/venv/bin/python", demo], cwd=WT, env=env)
                    log["demo_with_patch_exit"] = rc4
                    log["demo_output_tail"] = out4.strip()[-400:]
                    ok = ok and rc4 != 0
                sh(["git", "-C", WT, "checkout", "--", "."])
                print(sid, "CONFIRMED" if ok else "REJECTED", json.dumps(log)[:300])
                if ok:
                    dest = os.path.join(VERIF, "seeded", sid)
                    os.makedirs(dest, exist_ok=True)
                    shutil.copy(patch, os.path.join(dest, "patch.diff"))
                    shutil.copy(demo, os.path.join(dest, "demo.py"))
                    md["property"] = pid
                    md["confirmed"] = {
                        "how": "scratch worktree of /repo HEAD: demo exit 0 on pristine tree; git apply; "
                               "/venv/bin/python -m pytest -q (all pass); demo exits non-zero with the patch",
                        **log}
                    json.dump(md, open(os.path.join(dest, "meta.json"), "w"), indent=1)
    finally:
        sh(["git", "-C", REPO, "worktree", "remove", "--force", WT])
    return 0


if __name__ == "__main__":
    sys.exit(main(sys.argv[1:]))
