"""False-alarm test: apply each behaviour-preserving refactoring under /verif/harmless/<n>/patch.diff to
/repo, run the repository's tests and EVERY claimed check (quick tier), record which checks stay quiet
and which report a violation (a violation with a concrete failing input would be a false alarm of the
harness — or shows that the refactoring is not harmless after all; `no-failing-input-found` is the
brief's prescribed report when only a translator / proof obligation broke), undo the patch.
Usage: python -m harness.evalharmless [n …]      Never run concurrently with anything else that uses /repo."""
from __future__ import annotations

import json
import os
import sys
import time

from .evalseed import REPO, VERIF, claimed, sh


def main(argv):
    hdir = os.path.join(VERIF, "harmless")
    ids = argv or sorted((d for d in os.listdir(hdir) if os.path.isdir(os.path.join(hdir, d))), key=lambda x: int(x) if x.isdigit() else 0)
    rc, out = sh(["git", "-C", REPO, "status", "--porcelain"])
    if out.strip():
        print("refusing: /repo has uncommitted changes:\n" + out)
        return 2
    results = {}
    for hid in ids:
        d = os.path.join(hdir, hid)
        row = {"tests_pass": None, "quiet": [], "violation_with_input": [], "no_failing_input_found": [], "errors": []}
        rc, out = sh(["git", "-C", REPO, "apply", os.path.join(d, "patch.diff")])
        if rc != 0:
            row["errors"].append("patch does not apply: " + out[-300:])
            results[hid] = row
            continue
        try:
            rc, out = sh("/venv/bin/python -m pytest -q -p no:cacheprovider -x 2>&1 | tail -3", cwd=REPO)
            row["tests_pass"] = " passed" in out and "failed" not in out
            for c in claimed():
                t0 = time.time()
                rc, out = sh([os.path.join(VERIF, "check"), c, "--tier", "quick"], cwd=VERIF, timeout=1500)
                line = next((l for l in out.splitlines() if l.startswith("VIOLATION")), "")
                if rc == 0 and not line:
                    row["quiet"].append(c)
                elif rc == 1 and line.endswith("no-failing-input-found"):
                    row["no_failing_input_found"].append(c)
                elif rc == 1 and line:
                    row["violation_with_input"].append(c)
                    row.setdefault("detail", {})[c] = out[-600:]
                else:
                    row["errors"].append(f"{c}: exit {rc}: {out[-300:]}")
        finally:
            sh(["git", "-C", REPO, "checkout", "--", "."])
        results[hid] = row
        print(hid, json.dumps({k: v for k, v in row.items() if k != "detail"}), flush=True)
    sh(["git", "-C", VERIF, "checkout", "--", "lean/GherkinVerif/Gen"])
    out_path = os.path.join(hdir, "RESULTS.json")
    prev = json.load(open(out_path)) if os.path.exists(out_path) else {}
    prev.update(results)
    json.dump(prev, open(out_path, "w"), indent=1)
    return 0


if __name__ == "__main__":
    sys.exit(main(sys.argv[1:]))
