"""Run the real cucumber/gherkin Python code in-process, returning results in the same canonical
JSON shape the Lean driver prints.  Nothing here changes the library; instrumentation is done
with subclasses (counting matcher, recording builder)."""
from __future__ import annotations

import copy
import os
import sys

REPO = os.environ.get("GHERKIN_REPO", "/repo")
sys.path.insert(0, os.path.join(REPO, "python"))

from gherkin.parser import Parser  # noqa: E402
from gherkin.ast_builder import AstBuilder  # noqa: E402
from gherkin.token_matcher import TokenMatcher  # noqa: E402
from gherkin.token_scanner import TokenScanner  # noqa: E402
from gherkin.token_formatter_builder import TokenFormatterBuilder  # noqa: E402
from gherkin.gherkin_line import GherkinLine  # noqa: E402
from gherkin.token import Token  # noqa: E402
from gherkin.errors import ParserError, ParserException, CompositeParserException  # noqa: E402
from gherkin.pickles.compiler import Compiler  # noqa: E402
from gherkin.stream.id_generator import IdGenerator  # noqa: E402
from gherkin.stream.gherkin_events import GherkinEvents  # noqa: E402
import gherkin.dialect as dialect_mod  # noqa: E402

KINDS = ["EOF", "Empty", "Comment", "TagLine", "FeatureLine", "RuleLine", "BackgroundLine",
         "ScenarioLine", "ExamplesLine", "StepLine", "DocStringSeparator", "TableRow", "Language",
         "Other"]


def make_counting(base=TokenMatcher):
    class CountingMatcher(base):
        def __init__(self, *a, **k):
            self.calls = 0
            self.call_log = []
            super().__init__(*a, **k)

    def wrap(name):
        orig = getattr(base, name)

        def f(self, token):
            self.calls += 1
            return orig(self, token)
        f.__name__ = name
        return f
    for k in KINDS:
        setattr(CountingMatcher, "match_" + k, wrap("match_" + k))
    return CountingMatcher


CountingMatcher = make_counting()


class RecordingBuilder(AstBuilder):
    def __init__(self, id_generator=None):
        self.built = []
        self.built_lines = []
        self.events = []
        super().__init__(id_generator)

    def reset(self):
        super().reset()
        self.built = []
        self.built_lines = []
        self.events = []

    def build(self, token):
        self.built.append(TokenFormatterBuilder._format_token(token))
        self.built_lines.append(token.location["line"])
        self.events.append(("build", token.matched_type))
        super().build(token)

    def start_rule(self, rule_type):
        self.events.append(("start", rule_type))
        super().start_rule(rule_type)

    def end_rule(self, rule_type):
        self.events.append(("end", rule_type))
        super().end_rule(rule_type)


def id_gen(start: int) -> IdGenerator:
    g = IdGenerator()
    g._id_counter = start
    return g


def err_json(e: ParserException) -> dict:
    return {"type": type(e).__name__, "location": dict(e.location), "message": str(e)}


def is_existing_path(text: str) -> bool:
    try:
        return os.path.exists(text)
    except Exception:
        return False


def parse(text: str, stop: bool = False, default_dialect: str = "en", ids: int = 0,
          parser: Parser | None = None, matcher: TokenMatcher | None = None, fresh_ids: bool = False) -> dict:
    """Parser.parse(text, matcher) -> canonical outcome."""
    gen = None
    if parser is None:
        gen = id_gen(ids)
        parser = Parser(RecordingBuilder(gen))
    else:
        if fresh_ids:
            parser.ast_builder.id_generator = id_gen(ids)
        gen = parser.ast_builder.id_generator
    parser.stop_at_first_error = stop
    if matcher is None:
        matcher = CountingMatcher(default_dialect)
    calls0 = getattr(matcher, "calls", 0)
    out: dict = {}
    try:
        doc = parser.parse(text, matcher)
        out["ok"] = doc
    except CompositeParserException as e:
        out["errors"] = [err_json(x) for x in e.errors]
        out["composite"] = True
    except ParserException as e:
        out["errors"] = [err_json(e)]
        out["composite"] = False
    except Exception as e:  # anything else is a C01 violation
        out["crash"] = f"{type(e).__name__}: {e}"
    out["ids"] = gen._id_counter
    out["calls"] = getattr(matcher, "calls", 0) - calls0
    out["dialectAfter"] = matcher.dialect_name
    b = parser.ast_builder
    if isinstance(b, RecordingBuilder):
        out["builds"] = list(b.built)
        out["buildLines"] = list(b.built_lines)
        out["events"] = list(b.events)
    return out


def pickles(text: str, uri: str = "u", default_dialect: str = "en", compiler: Compiler | None = None,
            matcher: TokenMatcher | None = None) -> dict:
    """parse with a fresh parser (ids from 0), compile; `compiler`/`matcher` may be reused instances"""
    gen = id_gen(0)
    parser = Parser(AstBuilder(gen))
    try:
        doc = parser.parse(text, matcher if matcher is not None else TokenMatcher(default_dialect))
    except CompositeParserException as e:
        return {"errors": [err_json(x) for x in e.errors], "composite": True}
    except ParserException as e:
        return {"errors": [err_json(e)], "composite": False}
    except Exception as e:
        return {"crash": f"{type(e).__name__}: {e}"}
    try:
        before = copy.deepcopy(doc)
        if compiler is None:
            compiler = Compiler(gen)
        else:
            compiler.id_generator = gen
        wrapped = {**doc, "uri": uri}
        ps = compiler.compile(wrapped)
        out = {"pickles": ps, "ids": gen._id_counter}
        end = gen._id_counter
        compiler.id_generator = id_gen(end - sum(len(p["steps"]) + 1 for p in ps))
        again = compiler.compile(wrapped)
        compiler.id_generator = gen
        if again != ps:
            out["second_compile_differs"] = True
        if before != doc:
            out["mutated_input"] = True
        return out
    except Exception as e:
        return {"crash": f"{type(e).__name__}: {e}"}


def compile_ast(doc: dict, uri: str, start: int, compiler: Compiler | None = None) -> dict:
    gen = id_gen(start)
    d = copy.deepcopy(doc)
    d["uri"] = uri
    snapshot = copy.deepcopy(d)
    try:
        if compiler is None:
            compiler = Compiler(gen)
        else:
            compiler.id_generator = gen
        ps = compiler.compile(d)
        out = {"pickles": ps, "ids": gen._id_counter}
        # the same document object compiled again must give the same pickles (ids aside)
        compiler.id_generator = id_gen(start)
        again = compiler.compile(d)
        if again != ps:
            out["second_compile_differs"] = True
    except Exception as e:
        out = {"crash": f"{type(e).__name__}: {e}"}
    if snapshot != d:
        out["mutated_input"] = True
    return out


def stream(opts: tuple, sources: list, stop: bool = False) -> list:
    """sources: list of (uri, data) through one GherkinEvents; `stop`: the stream's parser is switched
    to stop-at-first-error mode (public attribute) before the first source."""
    ev = GherkinEvents(GherkinEvents.Options(*opts))
    if stop:
        ev.parser.stop_at_first_error = True
    res = []
    for uri, data in sources:
        event = {"source": {"uri": uri, "data": data, "mediaType": "text/x.cucumber.gherkin+plain"}}
        try:
            res.append(list(ev.enum(event)))
        except Exception as e:
            res.append([{"crash": f"{type(e).__name__}: {e}"}])
    return res


def cells(line: str) -> list:
    return [dict(c) for c in GherkinLine(line, 1).table_cells]


def tags(line: str) -> dict:
    try:
        return {"tags": [dict(c) for c in GherkinLine(line, 1).tags]}
    except ParserException as e:
        return {"error": e.location["column"]}


def token_json(t: Token) -> dict:
    return {"eof": t.eof(), "line": t.location["line"], "column": t.location.get("column"),
            "type": getattr(t, "matched_type", None), "text": getattr(t, "matched_text", None),
            "keyword": getattr(t, "matched_keyword", None),
            "keywordType": getattr(t, "matched_keyword_type", None),
            "indent": getattr(t, "matched_indent", 0),
            "items": [dict(i) for i in getattr(t, "matched_items", [])],
            "dialect": getattr(t, "matched_gherkin_dialect", "")}


def match(kind: str, default: str, current: str, indent_to_remove: int, active_sep, line: str,
          matcher_cls=TokenMatcher) -> dict:
    m = matcher_cls(default)
    if current != m.dialect_name:
        m._change_dialect(current)
    m._indent_to_remove = indent_to_remove
    m._active_doc_string_separator = active_sep or None
    tok = Token(GherkinLine(line, 1), {"line": 1})
    try:
        r = getattr(m, "match_" + kind)(tok)
        res = "matched" if r else "no"
    except ParserException as e:
        res = err_json(e)
    return {"res": res, "token": token_json(tok), "dialect": m.dialect_name,
            "indentToRemove": m._indent_to_remove, "activeSep": m._active_doc_string_separator}


def interp(template: str, hs: list, vs: list):
    try:
        return Compiler()._interpolate(template, [{"value": h} for h in hs], [{"value": v} for v in vs])
    except IndexError:
        return None


def dialects() -> dict:
    return dialect_mod.DIALECTS


# ------------------------------------------------------------------ kind-level driving of the real parser

def _chain(kind: str):
    c = [kind]
    if kind == "Language":
        c.append("Comment")
    if kind not in ("EOF", "Other"):
        c.append("Other")
    return c


class StubMatcher(TokenMatcher):
    """each line's text is the name of its intrinsic kind; `match_K` succeeds iff K is in its chain"""

    def reset(self):
        pass


def _stub(kind):
    def f(self, token):
        if token.eof():
            if kind != "EOF":
                return False
            self._set_token_matched(token, "EOF")
            return True
        k = token.line._line_text.strip()
        if kind in _chain(k):
            self._set_token_matched(token, kind)
            return True
        return False
    return f


for _k in KINDS:
    setattr(StubMatcher, "match_" + _k, _stub(_k))


class EventBuilder(AstBuilder):
    def __init__(self):
        self.events = []
        super().__init__()

    def reset(self):
        self.events = []

    def build(self, token):
        self.events.append("build:" + token.matched_type)

    def start_rule(self, rule_type):
        self.events.append("start:" + rule_type)

    def end_rule(self, rule_type):
        self.events.append("end:" + rule_type)

    def get_result(self):
        return {}


def kinds_run(kinds: list) -> dict:
    """drive the real Parser on a sequence of line kinds (names)"""
    text = "".join(k + "\n" for k in kinds)
    b = EventBuilder()
    p = Parser(b)
    out = {}
    try:
        p.parse(TokenScanner(text) if not is_existing_path(text) else text, StubMatcher())
        out["accepts"] = True
        out["events"] = list(b.events)
        out["errors"] = []
    except CompositeParserException as e:
        out["accepts"] = False
        out["events"] = None
        out["errors"] = [x.location["line"] - 1 for x in e.errors]
        out["messages"] = [str(x) for x in e.errors]
    except Exception as e:
        out["crash"] = f"{type(e).__name__}: {e}"
    return out
