"""Talk to the compiled Lean model driver (lean/.lake/build/bin/driver) over its line protocol."""
from __future__ import annotations

import json
import os
import subprocess
from typing import Iterable, Sequence

VERIF = os.path.dirname(os.path.dirname(os.path.abspath(__file__)))
DRIVER = os.path.join(VERIF, "lean", ".lake", "build", "bin", "driver")


def enc(x) -> str:
    """one protocol argument: a str (code points), an int, a bool or a list of ints"""
    if isinstance(x, bool):
        return "1" if x else "0"
    if isinstance(x, int):
        return str(x)
    if isinstance(x, str):
        return " ".join(str(ord(c)) for c in x)
    return " ".join(str(int(v)) for v in x)


def request(op: str, *args) -> str:
    return op + " " + "|".join(enc(a) for a in args)


class DriverError(Exception):
    pass


def batch(requests: Sequence[str], timeout: float = 600.0) -> list:
    """Run a batch of protocol lines through a fresh driver process; one parsed JSON per line."""
    if not requests:
        return []
    data = ("\n".join(requests) + "\n").encode("ascii")
    p = subprocess.run([DRIVER], input=data, capture_output=True, timeout=timeout)
    if p.returncode != 0:
        raise DriverError(f"driver exit {p.returncode}: {p.stderr.decode(errors='replace')[:2000]}")
    lines = p.stdout.decode("ascii").splitlines()
    if len(lines) != len(requests):
        raise DriverError(f"driver returned {len(lines)} lines for {len(requests)} requests; stderr: "
                          f"{p.stderr.decode(errors='replace')[:2000]}")
    return [json.loads(l) for l in lines]


def call(op: str, *args):
    return batch([request(op, *args)])[0]
