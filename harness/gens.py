"""Input generators for the correspondence streams.  Every random choice comes from the
`random.Random` instance passed in (seeded from VERIF_SEED), so a case replays from
(seed, stream, index)."""
from __future__ import annotations

import itertools
import random

from . import impl

WS_CHARS = [" ", "\t", " ", " ", "　", "\x0b", "\x0c", "\x1c", "\x85", " "]
TEXT_POOL = ["a", "some text", "x <a> y", "<b>", "é😀", "tab\there", "| pipe", "@at", "# hash", "\\n", "\\|",
             "trailing ", " leading", "Given ", "Feature:", '"""', "```", "*", "<a> <a>", "\ud800", "\x00", "a\rb",
             "$1 \\1", "(", "a.b", "", "::", "Scenario: x", "Examples:", "|a|b|",
             '\\"\\"\\"', "\\`\\`\\`", "x \\`\\`\\` y \\`\\`\\`", 'q \\"\\"\\" r \\"\\"\\"', "\\`\\`\\`python",
             "{", "}", "{0}", "{line}", "%s", "%(a)s", "100%", "${x}", "{{x}}"]


def dialect_names():
    return list(impl.dialects().keys())


def ws(rng: random.Random, maxn=3, exotic=0.1) -> str:
    n = rng.randrange(maxn + 1)
    return "".join(rng.choice(WS_CHARS) if rng.random() < exotic else " " for _ in range(n))


def text(rng: random.Random) -> str:
    return rng.choice(TEXT_POOL) if rng.random() < 0.7 else "".join(
        rng.choice("abc <>|\\@#:\"`é😀\t") for _ in range(rng.randrange(8)))


class DocGen:
    """structured, mostly valid documents; records nothing — the oracle is the model/spec."""

    def __init__(self, rng: random.Random, dialect: str | None = None, exotic_ws: float = 0.05,
                 crlf: float = 0.1):
        self.rng = rng
        names = dialect_names()
        self.dialect = dialect if dialect is not None else (rng.choice(names) if rng.random() < 0.5 else "en")
        self.spec = impl.dialects()[self.dialect]
        self.exotic = exotic_ws
        self.eol = "\r\n" if rng.random() < crlf else "\n"
        self.lines: list[str] = []

    def kw(self, role):
        return self.rng.choice(self.spec[role])

    def ind(self, n=4):
        return ws(self.rng, n, self.exotic)

    def emit(self, s):
        self.lines.append(s + self.eol)

    def filler(self, p=0.25):
        r = self.rng
        while r.random() < p:
            c = r.random()
            if c < 0.5:
                self.emit(ws(r, 3, self.exotic))
            else:
                self.emit(self.ind() + "#" + text(r))

    def tags(self, p=0.4):
        r = self.rng
        while r.random() < p:
            n = r.randrange(1, 4)
            ts = []
            for _ in range(n):
                ts.append("@" + r.choice(["t1", "t2", "dup", "é", "a@b", "x:y", "#x"]))
            sep = lambda: " " * r.randrange(1, 3)  # noqa: E731
            line = self.ind() + ts[0] + "".join(sep() + t for t in ts[1:])
            if r.random() < 0.25:
                line += r.choice([" #comment @c", "\t# note", "\u00a0# nbsp", " \t #x", "\u3000#y", "  #"])
            self.emit(line + ws(r, 2, self.exotic))
            self.filler(0.15)

    def description(self, p=0.3):
        r = self.rng
        if r.random() < p:
            for _ in range(r.randrange(1, 4)):
                c = r.random()
                if c < 0.6:
                    self.emit(self.ind() + r.choice(["free text", "more", "Given not a step?", "é text", "\\\"\\\"\\\"", "use \\`\\`\\` here", "\\`\\`\\`py and \\\"\\\"\\\""]))
                elif c < 0.75:
                    self.emit(self.ind() + "# comment in description")
                elif c < 0.9:
                    self.emit(ws(r, 3, self.exotic))
                else:
                    self.emit(self.ind() + text(r).replace("\n", " ").replace("\r", " "))

    def title(self, role):
        r = self.rng
        t = text(r).replace("\n", " ")
        self.emit(self.ind() + self.kw(role) + ":" + ws(r, 2, self.exotic) + t + ws(r, 2, self.exotic))

    def table(self, cols=None, rows=None):
        r = self.rng
        cols = cols if cols is not None else r.randrange(0, 4)
        rows = rows if rows is not None else r.randrange(1, 4)
        ragged = r.random() < 0.05
        for i in range(rows):
            n = cols + (1 if ragged and i == rows - 1 else 0)
            cells = []
            for _ in range(n):
                cells.append(ws(r, 2, self.exotic) + r.choice(
                    ["a", "<a>", "x y", "", "\\|", "\\\\", "\\n", "é", "1", "<b>", "a\\nb", "\\", " \\n"]) + ws(r, 2, self.exotic))
            self.emit(self.ind() + "|" + "|".join(cells) + ("|" if n or r.random() < 0.9 else "") + ws(r, 2, self.exotic))
            self.filler(0.08)

    def docstring(self):
        r = self.rng
        d = r.choice(['"""', "```"])
        ind = self.ind(6)
        self.emit(ind + d + r.choice(["", "", "json", " xml ", "a b"]))
        for _ in range(r.randrange(0, 4)):
            c = r.random()
            if c < 0.3:
                self.emit(ind + "  content " + text(r).replace("\n", " "))
            elif c < 0.45:
                self.emit(ws(r, 8, self.exotic) + r.choice(["Given x", "@tag", "# c", "| a |", "Feature: x", ""]))
            elif c < 0.6:
                self.emit(ind + ('\\"\\"\\"' if d == '"""' else "\\`\\`\\`") + " escaped")
            elif c < 0.7:
                self.emit(ind + ("```" if d == '"""' else '"""'))
            elif c < 0.8:
                self.emit("")
            else:
                self.emit(ws(r, 3) + "less indented")
        if r.random() < 0.95:
            self.emit(self.ind(6) + d + ws(r, 2, self.exotic))

    def step(self):
        r = self.rng
        role = r.choice(["given", "when", "then", "and", "but"])
        kw = self.kw(role)
        self.emit(self.ind() + kw + text(r).replace("\n", " ") + ws(r, 2, self.exotic))
        self.filler(0.1)
        c = r.random()
        if c < 0.2:
            self.table()
        elif c < 0.35:
            self.docstring()

    def steps(self, maxn=4):
        for _ in range(self.rng.randrange(maxn + 1)):
            self.step()

    def background(self):
        self.title("background")
        self.filler(0.1)
        self.description(0.2)
        self.steps(3)

    def scenario(self):
        r = self.rng
        self.tags(0.3)
        outline = r.random() < 0.4
        self.title("scenarioOutline" if outline and r.random() < 0.8 else "scenario")
        self.filler(0.1)
        self.description(0.2)
        self.steps(4)
        if outline:
            for _ in range(r.randrange(0, 3)):
                self.tags(0.3)
                self.title("examples")
                self.filler(0.1)
                self.description(0.15)
                if r.random() < 0.85:
                    cols = r.randrange(0, 3)
                    hdr = ["a", "b", "c", "a.b"][:cols]
                    self.emit(self.ind() + "|" + "|".join(f" {h} " for h in hdr) + "|")
                    for _ in range(r.randrange(0, 3)):
                        n = cols + (1 if r.random() < 0.04 else 0)
                        self.emit(self.ind() + "|" + "|".join(
                            " " + r.choice(["1", "x y", "\\|", "$1", "\\\\", "<b>", "é", "C:\\\\dir\\\\file", "x\\\\1", "\\\\d+\\\\g<0>"]) + " " for _ in range(n)) + "|")

    def rule(self):
        r = self.rng
        self.tags(0.25)
        self.title("rule")
        self.filler(0.1)
        self.description(0.2)
        if r.random() < 0.4:
            self.background()
        for _ in range(r.randrange(0, 3)):
            self.scenario()

    def document(self) -> str:
        r = self.rng
        self.filler(0.2)
        if self.dialect != "en" or r.random() < 0.2:
            self.emit(self.ind(2) + "#" + ws(r, 1) + "language" + ws(r, 1) + ":" + ws(r, 1) + self.dialect + ws(r, 1))
            self.filler(0.2)
        self.tags(0.3)
        self.title("feature")
        self.filler(0.15)
        self.description(0.3)
        if r.random() < 0.4:
            self.background()
        for _ in range(r.randrange(0, 3)):
            self.scenario()
        for _ in range(r.randrange(0, 3)):
            self.rule()
        s = "".join(self.lines)
        if r.random() < 0.3 and s.endswith(self.eol):
            s = s[: -len(self.eol)]
        return s


def structured(rng: random.Random, dialect: str | None = None) -> str:
    return DocGen(rng, dialect).document()


def mutate_lines(rng: random.Random, src: str) -> str:
    """near-valid documents: delete / duplicate / swap / corrupt a few lines"""
    lines = src.splitlines(keepends=True)
    if not lines:
        return src
    for _ in range(rng.randrange(1, 4)):
        if not lines:
            break
        i = rng.randrange(len(lines))
        op = rng.randrange(6)
        if op == 0:
            del lines[i]
        elif op == 1:
            lines.insert(i, lines[i])
        elif op == 2 and len(lines) > 1:
            j = rng.randrange(len(lines))
            lines[i], lines[j] = lines[j], lines[i]
        elif op == 3:
            lines.insert(i, rng.choice(NOISE_LINES) + "\n")
        elif op == 4:
            lines[i] = "@bad tag with space\n" if rng.random() < 0.3 else "@a @b c\n"
        else:
            lines[i] = lines[i][: rng.randrange(len(lines[i]) + 1)]
    return "".join(lines)


NOISE_LINES = [
    "Feature: f", "  Scenario: s", "  Scenario Outline: o", "    Given a", "    When b", "    Then c",
    "    And d", "    But e", "    * f", "  Background: b", "  Rule: r", "    Examples: e", "      | a | b |",
    "      | 1 | 2 |", "      | 1 |", "  @tag", "@t1 @t2", "@bad tag", "  # comment", "# language: fr",
    "#language:no-such", "   # language: xx", "", "   ", "\t", '    """', '    """json', "    ```", "free text",
    "Fonctionnalité: f", "  Scénario: s", "  Soit a", " Given nbsp", "Given", "Feature:", "Scenario:",
    "|", "| |", "\\", "@", "#", "Examples:", "Scenarios: s", "Scenario Template: t", "Example: e",
    "  Given <a> and <b>", "  | a \\n| b\\|c |", "Rule:", "Background:", "\ud800", "\x00", "a\rb", "\x0c", "\x85Given x",
    "Ability: x", "Business Need: y", "    Given a\r", "  Scenario: s\r", "\r", "@a#b", "@a #b", "@a @b#c d",
    # text that is dangerous inside format strings / templates / patterns (it ends up quoted in messages)
    "{", "}", "{}", "{0}", "{line} {column}", "}{", "%s", "%(a)s %d", "100%", "${x}", "$1", "\\g<1>", "\\1", "{{x}}", "a {b c",
]


def noisy(rng: random.Random, maxlines=14) -> str:
    n = rng.randrange(maxlines + 1)
    out = []
    for _ in range(n):
        l = rng.choice(NOISE_LINES)
        if rng.random() < 0.15:
            l = ws(rng, 3, 0.3) + l
        if rng.random() < 0.1:
            l = l + ws(rng, 3, 0.3)
        out.append(l + ("\r\n" if rng.random() < 0.08 else "\n"))
    s = "".join(out)
    if rng.random() < 0.25 and s.endswith("\n"):
        s = s[:-1]
    return s


def strings_over(alphabet, maxlen):
    for n in range(maxlen + 1):
        for t in itertools.product(alphabet, repeat=n):
            yield "".join(t)


def permuted_examples(rng: random.Random) -> str:
    """outlines whose examples blocks reuse the same row values under different / permuted headers,
    with placeholders in name, step text, data table cells, doc string content and media type"""
    hs = rng.sample(["a", "b", "c", "from", "to", "a.b", "x y"], rng.randrange(1, 4))
    vals = [rng.choice(["1", "2", "x y", "<a>", "\\\\", "$1", "v", "C:\\\\new\\\\table", "p\\\\1"]) for _ in hs]
    tmpl = " ".join(f"<{h}>" for h in rng.sample(hs + ["a", "b", "zz"], min(3, len(hs) + 1)))
    lines = ["Feature: f", "  Background:", "    Given bg <a> <from>"] if rng.random() < 0.5 else ["Feature: f"]
    lines += [f"  Scenario Outline: name {tmpl}", f"    Given step {tmpl}", "      | c <a> | <b> |  <to> |",
              f"    And doc {tmpl}", '      """' + rng.choice(["", "<a>", "<from>", "<b>"]),
              rng.choice(["      fixed body", f"      body {tmpl}", ""]), '      """']
    for _ in range(rng.randrange(2, 4)):
        order = hs[:]
        if rng.random() < 0.7:
            rng.shuffle(order)
        if rng.random() < 0.3:
            order = [rng.choice(["a", "b", "c", "to", "from"]) for _ in order]
        tag = rng.choice(["", "    @e1 @e1", "    @e2"])
        if tag:
            lines.append(tag)
        lines.append("    Examples:")
        if rng.random() < 0.85:
            lines.append("      | " + " | ".join(order) + " |")
            for _ in range(rng.randrange(0, 3)):
                lines.append("      | " + " | ".join(vals if rng.random() < 0.7 else [rng.choice(["1", "2", "9"]) for _ in vals]) + " |")
    return "\n".join(lines) + "\n"
