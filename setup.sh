#!/bin/sh
# Build the Lean library (model, specs, lemmas, every property module) and the model driver,
# offline, from the files on disk.  Run once after a fresh restore (MANIFEST.setup_cmd).
set -e
HERE="$(cd "$(dirname "$0")" && pwd)"
cd "$HERE"
# regenerate the generated model parts from /repo's current tree (no-op on the unchanged tree)
PYTHONPATH="$HERE:/repo/python" /venv/bin/python -c "
from harness import core
st = core.regenerate()
bad = {k: v['error'] for k, v in st.items() if v['error']}
print('translators:', {k: ('changed' if v['changed'] else 'same') for k, v in st.items()}, 'errors:', bad)
"
cd lean
MODS=$(ls GherkinVerif/Props/*.lean | sed 's#/#.#g; s#\.lean$##')
lake build driver $MODS
echo "setup ok"
